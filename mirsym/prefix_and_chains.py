#!/usr/bin/env python3
"""C04 (visitor half), decided on the MIR of antlr/src/parser.rs.

(1) Prefix operators.  `visit_LogicalNot` and `visit_Negate` are executed from their entries on a
    parse-tree context whose operator-token vector has a *symbolic length* k >= 1; visiting the
    operand is an event that returns an abstract expression.  z3 decides the parity branch.
    Proved on every feasible path: for even k the result is the operand's expression itself
    (an even number of `!` / `-` cancels), for odd k it is exactly one application of the
    operator to it.
(2) Chains of `&&` / `||`.  `LogicManager::expr` / `balanced_tree` are executed on n abstract terms
    t0..t(n-1) and n-1 operator ids for every n in 1..64: the tree that comes back is made of
    binary calls of the chain's function only, reads t0 o0 t1 o1 ... t(n-1) in order (operands and
    operator ids stay in source order) and uses every term and id exactly once.  (The shape of the
    tree is not prescribed by the property; its depth is only recorded.)
(3) Binary and ternary rules.  `visit_relation`, `visit_calc` (every operator token text the
    grammar admits there) and `visit_expr` (`?:`) are executed on a context with abstract children
    whose visits return real expressions of three shapes (identifier, a unary-minus call, a
    literal): the node that comes back is exactly `call(find_operator(text), [lhs, rhs])` /
    `call(_?_:_, [cond, then, else])` with the children visited once each, left to right, and the
    children's expressions embedded unchanged (nothing is folded into or out of an operand).
    `find_operator` itself is executed on the OPERATORS table of antlr/src/ast/operators.rs.
(4) Chains through the visitor.  `visit_conditionalOr` / `visit_conditionalAnd` on a context with
    n-1 operator tokens (n in 1..64): same obligations as (2), but the manager is filled by the
    real `new_logic_manager` / `add_term`.
What is not decided here: the nesting of grammar rules (expr > conditionalOr > ... > primary), i.e.
precedence and associativity between different operators, which the ANTLR grammar fixes (C01).

usage: prefix_and_chains.py <parser-mir-file> <repo-root> [--json out.json]
"""
import json
import math
import os
import re
import sys
import time
import z3
sys.path.insert(0, os.path.dirname(os.path.abspath(__file__)))
# bound on the number of children / elements per node; the thorough tier of the driver raises it
DEPTH = int(os.environ.get("MIRSYM_DEPTH", "3"))
from mirsym import Engine, parse_mir, STD_MODELS, Unsupported, PanicFound, Ref, SliceRef, Opaque, is_sym


def main():
    mir, repo = sys.argv[1], sys.argv[2]
    outp = sys.argv[sys.argv.index("--json") + 1] if "--json" in sys.argv else None
    t0 = time.time()
    fns, consts = parse_mir(open(mir).read())
    ops_src = open(os.path.join(repo, "antlr/src/ast/operators.rs")).read()
    ops = dict(re.findall(r"pub const (\w+): &str = \"([^\"]*)\";", ops_src))
    stats = {"scenarios": 0, "paths": 0, "proved": 0, "queries": 0, "solver_s": 0.0, "functions": set()}
    failures, samples = [], []
    status = 0
    cur = {}
    cur_depths = []

    def find(pat):
        c = [f for n, f in fns.items() if re.match(pat, n)]
        if len(c) != 1:
            raise Unsupported("%s not found uniquely (%d)" % (pat, len(c)))
        return c[0]

    def deref(e, x):
        k = 0
        while isinstance(x, Ref) and k < 4:
            x = e.read_path(x.frame, x.local, list(x.proj))
            k += 1
        return x

    klen = z3.Int("prefix_operator_count")

    def operand_payload(k):
        """what visiting the operand returns: opaque, or a real expression of a shape a rewrite could look into"""
        sh = cur.get("operand_shape", "opaque")
        S = lambda t: ("string", t)
        inner = ("ided", ("enum", "Expr::Ident", [S("y%d" % k)]))
        if sh == "opaque":
            return ("operand", k)
        if sh == "identifier":
            return ("enum", "Expr::Ident", [S("x%d" % k)])
        if sh == "literal":
            return ("enum", "Expr::Literal", [("enum", "Val::Int", [k])])
        # a parenthesised prefix expression: `!(!y)`, `-(-y)`, `!(-y)`, `-(!y)`
        return ("enum", "Expr::Call", [[S(ops["LOGICAL_NOT" if sh == "not call" else "NEGATE"]), ("None",), ("vec", [inner])]])

    def m_visit(e, m, a):
        cur["visits"] += 1
        return ("ided", operand_payload(cur["visits"]))

    def m_text_eq(e, m, a):
        def txt(x):
            x = deref(e, x)
            x = deref(e, x)
            if isinstance(x, tuple) and x[0] == "string":
                return x[1]
            if isinstance(x, tuple) and x[0] == "str":
                return x[1].decode()
            raise Unsupported("text of %r" % (str(x)[:60],))
        return (txt(a[0]) == txt(a[1])) == (m.group(1) == "eq")

    def m_call_or_macro(e, m, a):
        name = a[2]
        args = a[3]
        cur["calls"].append((name, args))
        return ("ided", ("call", name[1] if isinstance(name, tuple) else name, args))

    def m_new_uninit(e, m, a):
        n = int(m.group(1))
        # MaybeUninit<[T; n]> { uninit: (), value: ManuallyDrop { MaybeDangling { [T; n] } } }
        hold = {0: [[], [[[None] * n]]]}
        return [[Ref(hold, 0, ())]]

    def m_assume_init(e, m, a):
        inner = a[0][0][0]
        inner = e.read_path(inner.frame, inner.local, list(inner.proj))
        return ("vec", list(inner[1][0][0]))

    def ext_const(name):
        short = name.split("::")[-1]
        if "operators::" in name and short in ops:
            return ("str", ops[short].encode())
        return None

    extern = [
        (r"^<BaseParserRuleContext<'_, \w+ContextExt<'_>> as celparser::\w+ContextAttrs<'_>>::member$", lambda e, m, a: ("Some", ("rc_member",))),
        (r"^<BaseParserRuleContext<'_, \w+ContextExt<'_>> as Deref>::deref$", lambda e, m, a: Ref({0: [("ops_vec",)] * 8}, 0, ())),
        (r"^Vec::<Box<GenericToken<Cow<'_, str>>>>::len$", lambda e, m, a: klen),
        (r"^<Vec<Box<GenericToken<Cow<'_, str>>>> as Index<usize>>::index$", lambda e, m, a: Ref({0: [[Ref({0: ("token", a[1])}, 0, ())]]}, 0, ())),
        (r"^ParserHelper::next_id$", lambda e, m, a: ("id_of", deref(e, a[1]))),
        (r"^<Rc<MemberContextAll<'_>> as AsRef<MemberContextAll<'_>>>::as_ref$", lambda e, m, a: ("member_ctx",)),
        (r"^<parser::Parser as ParseTreeVisitorCompat<'_>>::visit$", m_visit),
        (r"^<(?:&)?(?:String|str|&str) as PartialEq(?:<(?:&)?(?:String|str|&str|&&str)>)?>::(eq|ne)$", m_text_eq),
        (r"^<String as Deref>::deref$", lambda e, m, a: deref(e, a[0])),
        (r"^String::as_str$", lambda e, m, a: deref(e, a[0])),
        (r"^Vec::<IdedExpr>::len$", lambda e, m, a: len(deref(e, a[0])[1])),
        (r"^Vec::<IdedExpr>::remove$", lambda e, m, a: deref(e, a[0])[1].pop(a[1])),
        (r"^Vec::<IdedExpr>::pop$", lambda e, m, a: ("Some", deref(e, a[0])[1].pop()) if deref(e, a[0])[1] else ("None",)),
        (r"^Vec::<IdedExpr>::swap_remove$", lambda e, m, a: deref(e, a[0])[1].pop(a[1])),
        (r"^parser::Parser::global_call_or_macro$", m_call_or_macro),
        (r"^<str as ToString>::to_string$", lambda e, m, a: ("string", a[0][1].decode())),
        (r"^Box::<\[IdedExpr; (\d+)\]>::new_uninit$", m_new_uninit),
        (r"^std::boxed::box_assume_init_into_vec_unsafe::<IdedExpr, \d+>$", m_assume_init),
    ] + STD_MODELS

    def run_prefix(method, opname, operand_shape="opaque"):
        stats["scenarios"] += 1
        fn = find(r"^parser::<impl at [^>]*>::%s(#\d+)?$" % method)
        eng = Engine(fns, consts, extern)
        eng.ext_const = ext_const
        eng.model_inputs = lambda: {"k": eng.solver.model().eval(klen, model_completion=True).as_long()}
        eng.discriminants = {"Expr::Unspecified": 0, "Expr::Call": 1, "Expr::Comprehension": 2, "Expr::Ident": 3, "Expr::List": 4,
                             "Expr::Literal": 5, "Expr::Map": 6, "Expr::Select": 7, "Expr::Struct": 8}
        vsrc = open(os.path.join(repo, "antlr/src/reference.rs")).read()
        vbody = vsrc[vsrc.index("pub enum Val {") + len("pub enum Val {"):]
        vbody = vbody[:vbody.index("\n}")]
        eng.discriminants.update({"Val::" + nme: k_ for k_, nme in enumerate(re.findall(r"^\s*([A-Z]\w*)\b", vbody, re.M))})
        desc = {"method": method, "operator": ops[opname], "operand_shape": operand_shape}

        def entry(e):
            cur.clear()
            cur.update({"visits": 0, "calls": [], "operand_shape": operand_shape})
            return e.call_fn(fn, [Ref({0: [Opaque("parser"), Opaque("helper"), Opaque("x")]}, 0, ()), Opaque("ctx")])

        def norm(x):
            # values that went through a place come back as lists: compare structure, not container type
            if isinstance(x, (list, tuple)):
                return tuple(norm(y) for y in x)
            return x

        def on_path(res, e):
            probs = []
            res = norm(res)
            even_possible = e.check(klen % 2 == 0)
            odd_possible = e.check(klen % 2 == 1)
            if even_possible and odd_possible:
                probs.append("the path does not depend on the parity of the operator count")
            want = None
            if cur["visits"] < 1:
                probs.append("the operand is never visited")
            visited = [norm(("ided", operand_payload(k))) for k in range(1, cur["visits"] + 1)]
            last = visited[-1] if visited else None
            if even_possible:
                if res not in visited:
                    probs.append("an even number of prefix operators does not cancel: the result is %s" % (str(res)[:160],))
            else:
                wants = [norm(("ided", ("call", ops[opname], ("vec", [v])))) for v in visited]
                if res not in wants:
                    probs.append("an odd number of prefix operators is not one application of %s to the operand: %s" % (ops[opname], str(res)[:160]))
            if probs:
                k = None
                # prefer a witness on the side that is wrong
                wrong_even = even_possible and res != last
                if e.check(klen % 2 == (0 if wrong_even else 1)) or e.check():
                    k = e.solver.model().eval(klen, model_completion=True).as_long()
                failures.append(dict(desc, problems=probs, operator_count=k))
            else:
                stats["proved"] += 1
                samples.append(dict(desc, parity="even" if even_possible else "odd", visits=cur["visits"]))
        try:
            eng.explore(entry, None, on_path, [klen >= 1, klen <= 2 ** 20])
        except PanicFound as p:
            failures.append(dict(desc, problems=["panic reachable: %s" % p.msg], operator_count=None))
        for k in ("paths", "queries"):
            stats[k] += eng.stats[k]
        stats["solver_s"] += eng.stats["solver_s"]
        stats["functions"] |= eng.stats["functions"]

    # ---------------- chains
    def m_vec_len(e, m, a):
        return len(deref(e, a[0])[1])

    def m_vec_pop(e, m, a):
        v = deref(e, a[0])
        if not v[1]:
            return ("None",)
        return ("Some", v[1].pop())

    def m_vec_index(e, m, a):
        r, k = a
        v = deref(e, r)
        if is_sym(k):
            raise Unsupported("symbolic index")
        if k >= len(v[1]):
            raise PanicFound("index out of bounds: %d of %d" % (k, len(v[1])), None)
        return Ref(r.frame, r.local, list(r.proj) + [("field", 1), ("idx", k)])

    def m_mem_take(e, m, a):
        r = a[0]
        old = e.read_path(r.frame, r.local, list(r.proj))
        e.write_path(r.frame, r.local, list(r.proj), ("taken",))
        return old

    def m_div_ceil(e, m, a):
        return -((-a[0]) // a[1])

    def m_expect(e, m, a):
        if a[0][0] != "Some":
            raise PanicFound("expect on None", None)
        return a[0][1]

    chain_extern = [
        (r"^Vec::<(?:IdedExpr|u64)>::len$", m_vec_len),
        (r"^Vec::<IdedExpr>::pop$", m_vec_pop),
        (r"^<Vec<(?:IdedExpr|u64)> as Index(?:Mut)?<usize>>::index(?:_mut)?$", m_vec_index),
        (r"^std::mem::take::<IdedExpr>$", m_mem_take),
        (r"^core::num::<impl usize>::div_ceil$", m_div_ceil),
        (r"^Option::<IdedExpr>::expect$", m_expect),
        (r"^<String as Clone>::clone$", lambda e, m, a: deref(e, a[0])),
        (r"^Box::<\[IdedExpr; (\d+)\]>::new_uninit$", m_new_uninit),
        (r"^std::boxed::box_assume_init_into_vec_unsafe::<IdedExpr, \d+>$", m_assume_init),
    ] + STD_MODELS

    def run_chain(n, function):
        stats["scenarios"] += 1
        fn = find(r"^parser::<impl at [^>]*>::expr(#\d+)?$") if False else None
        cands = [f for name, f in fns.items() if re.match(r"^parser::<impl at [^>]*>::expr(#\d+)?$", name) and f.args and "LogicManager" in f.args[0]]
        if len(cands) != 1:
            raise Unsupported("LogicManager::expr not found uniquely")
        fn = cands[0]
        eng = Engine(fns, consts, chain_extern, max_steps=200000)
        eng.steps = 0
        desc = {"chain_of": function, "terms": n}
        terms = [[("id", "t%d" % j), ("term", j)] for j in range(n)]
        # add_term pushes a term and an operator id together: ops has n-1 entries
        opids = [("opid", j) for j in range(n - 1)]
        mgr = [("string", function), ("vec", terms), ("vec", opids)]
        try:
            res = eng.call_fn(fn, [mgr])
        except PanicFound as p:
            failures.append(dict(desc, problems=["panic reachable: %s" % p.msg]))
            return
        stats["paths"] += 1
        seq, depth_max, bad = [], [0], []

        def walk(x, depth):
            depth_max[0] = max(depth_max[0], depth)
            if isinstance(x, list) and len(x) == 2 and isinstance(x[1], tuple) and x[1][0] == "term":
                seq.append(("t", x[1][1]))
                return
            if not (isinstance(x, list) and len(x) == 2 and isinstance(x[1], tuple) and x[1][0] == "enum" and x[1][1] == "Expr::Call"):
                bad.append("a node is neither a term nor a call: %s" % (str(x)[:120],))
                return
            call = x[1][2][0]
            # CallExpr { func_name, target, args } in declaration order
            fields = {"func": None, "target": None, "args": None}
            for f in call:
                if isinstance(f, tuple) and f[0] == "string":
                    fields["func"] = f[1]
                elif isinstance(f, tuple) and f[0] in ("None", "Some"):
                    fields["target"] = f
                elif isinstance(f, tuple) and f[0] == "vec":
                    fields["args"] = f[1]
            if fields["func"] != function or fields["target"] != ("None",) or fields["args"] is None or len(fields["args"]) != 2:
                bad.append("an inner node is not a two-argument global call of %s: %s" % (function, str(call)[:160]))
                return
            walk(fields["args"][0], depth + 1)
            seq.append(("o", x[0]))
            walk(fields["args"][1], depth + 1)
        walk(res, 0)
        want = []
        for j in range(n):
            want.append(("t", j))
            if j < n - 1:
                want.append(("o", ("opid", j)))
        probs = list(bad)
        if seq != want:
            probs.append("in-order reading of the tree is %s, expected the source order %s" % (seq[:12], want[:12]))
        # (the property does not prescribe the shape of the tree, only the order of its leaves; the depth is recorded, not required)
        cur_depths.append(depth_max[0])
        if probs:
            failures.append(dict(desc, problems=probs))
        else:
            stats["proved"] += 1
            if n in (2, 3, 7):
                samples.append(dict(desc, depth=depth_max[0], reading=[str(s) for s in seq[:7]]))
        stats["functions"] |= eng.stats["functions"]


    # ---------------- binary / ternary rules and chains through the visitor
    gen_src = open(os.path.join(repo, "antlr/src/gen/celparser.rs")).read()

    def ext_fields(rule):
        m = re.search(r"pub struct %sContextExt<'input>\s*\{(.*?)\n\}" % rule, gen_src, re.S)
        if not m:
            raise Unsupported("layout of %sContextExt" % rule)
        return [re.match(r"\s*(?:pub )?(\w+):", l).group(1) for l in m.group(1).splitlines() if re.match(r"\s*(?:pub )?(\w+):", l)]

    def token(text):
        return [[Ref({0: ("token", text)}, 0, ())]]

    def ided(k, shape):
        if shape == "ident":
            return [("id", k), ("enum", "Expr::Ident", [("string", "v%d" % k)])]
        if shape == "neg":
            inner = [("id", 100 + k), ("enum", "Expr::Ident", [("string", "w%d" % k)])]
            return [("id", k), ("enum", "Expr::Call", [[("string", ops["NEGATE"]), ("None",), ("vec", [inner])]])]
        return [("id", k), ("enum", "Expr::Literal", [("enum", "Val::Int", [k])])]

    def m_visit2(e, m, a):
        c = a[1].base if isinstance(a[1], SliceRef) else a[1]   # `&T as &dyn Trait` is printed as a pointer coercion
        c = deref(e, c)
        if not (isinstance(c, tuple) and c[0] == "ctxnode"):
            raise Unsupported("visit of %r" % (str(c)[:80],))
        cur["events"].append(("visit", c[1]))
        return cur["children"][c[1]]

    def m_call2(e, m, a):
        name = a[2][1] if isinstance(a[2], tuple) else a[2]
        cur["events"].append(("call", name))
        return [("id_call", a[1]), ("enum", "Expr::Call", [[("string", name), ("None",), a[3]]])]

    def m_get_text(e, m, a):
        t = deref(e, a[0])
        return ("str", t[1].encode())

    def m_attr(e, m, a):
        # child accessors generated by ANTLR: calc(i), relation(i), unary()
        which = m.group(1)
        if len(a) > 1:
            key = "%s%d" % (which, a[1])
        else:
            key = which
        if key in cur["attrs"]:
            return ("Some", ("ctxnode", cur["attrs"][key]))
        return ("None",)

    def m_array_into_iter(e, m, a):
        return ["array_iter", list(a[0]), 0]

    def m_array_next(e, m, a):
        it = deref(e, a[0])
        if it[2] < len(it[1]):
            it[2] += 1
            return ("Some", it[1][it[2] - 1])
        return ("None",)

    def m_str_eq(e, m, a):
        x, y = deref(e, a[0]), deref(e, a[1])
        tx = x[1].decode() if isinstance(x[1], bytes) else x[1]
        ty = y[1].decode() if isinstance(y[1], bytes) else y[1]
        if not (isinstance(tx, str) and isinstance(ty, str)):
            raise Unsupported("comparison of %r and %r" % (x, y))
        return tx == ty

    def m_tok_iter(e, m, a):
        v = deref(e, a[0])
        return ["tok_iter", a[0], 0, len(v[1])]

    def m_enum_next(e, m, a):
        it = deref(e, a[0])
        inner = it[1]
        if inner[2] < inner[3]:
            k = inner[2]
            inner[2] += 1
            r = inner[1]
            return ("Some", [k, Ref(r.frame, r.local, list(r.proj) + [("field", 1), ("idx", k)])])
        return ("None",)

    def m_vec_index2(e, m, a):
        r, k = a
        v = deref(e, r)
        if is_sym(k):
            raise Unsupported("symbolic index")
        if k >= len(v[1]):
            raise PanicFound("index out of bounds: %d of %d" % (k, len(v[1])), None)
        return Ref(r.frame, r.local, list(r.proj) + [("field", 1), ("idx", k)])

    def m_vec_push(e, m, a):
        deref(e, a[0])[1].append(a[1])
        return ("unit",)

    def m_vec_remove(e, m, a):
        v, k = deref(e, a[0]), a[1]
        if is_sym(k):
            raise Unsupported("symbolic index")
        if k >= len(v[1]):
            raise PanicFound("removal index (is %d) should be < len (is %d)" % (k, len(v[1])), None)
        return v[1].pop(k)

    def m_vec_insert(e, m, a):
        v, k = deref(e, a[0]), a[1]
        if is_sym(k):
            raise Unsupported("symbolic index")
        if k > len(v[1]):
            raise PanicFound("insertion index (is %d) should be <= len (is %d)" % (k, len(v[1])), None)
        v[1].insert(k, a[2])
        return ("unit",)

    def m_vec_truncate(e, m, a):
        v, k = deref(e, a[0]), a[1]
        if is_sym(k):
            raise Unsupported("symbolic length")
        del v[1][k:]
        return ("unit",)

    def m_inherent(e, m, a):
        name = m.group(1)
        c = [f for n, f in fns.items() if re.match(r"^parser::<impl at [^>]*>::%s(#\d+)?$" % name, n) and (name != "expr" or "LogicManager" in f.args[0])]
        if len(c) != 1:
            raise Unsupported("inherent method %s (%d candidates)" % (name, len(c)))
        return e.call_fn(c[0], a)

    rule_extern = [
        (r"^(?:LogicManager|parser::Parser)::(expr|add_term|new_logic_manager|balanced_tree)$", m_inherent),
        (r"^<BaseParserRuleContext<'_, \w+ContextExt<'_>> as Deref>::deref$", lambda e, m, a: Ref({0: cur["ext"]}, 0, ())),
        (r"^<BaseParserRuleContext<'_, \w+ContextExt<'_>> as celparser::\w+ContextAttrs<'_>>::(\w+)$", m_attr),
        (r"^<Rc<.*> as AsRef<.*>>::as_ref$", lambda e, m, a: Ref({0: deref(e, a[0])}, 0, ())),
        (r"^<Rc<.*> as Deref>::deref$", lambda e, m, a: Ref({0: deref(e, a[0])}, 0, ())),
        (r"^<Box<GenericToken<Cow<'_, str>>> as AsRef<GenericToken<Cow<'_, str>>>>::as_ref$", lambda e, m, a: deref(e, a[0])[0][0]),
        (r"^<GenericToken<Cow<'_, str>> as antlr4rust::token::Token>::get_text$", m_get_text),
        (r"^<parser::Parser as ParseTreeVisitorCompat<'_>>::visit$", m_visit2),
        (r"^parser::Parser::global_call_or_macro$", m_call2),
        (r"^ParserHelper::next_id$", lambda e, m, a: ("id_of", deref(e, a[1]))),
        (r"^Option::<.*>::(is_some|is_none)$", lambda e, m, a: (deref(e, a[0])[0] == "Some") == (m.group(1) == "is_some")),
        (r"^<\[\(&str, &str\); \d+\] as IntoIterator>::into_iter$", m_array_into_iter),
        (r"^<std::array::IntoIter<\(&str, &str\), \d+> as Iterator>::next$", m_array_next),
        (r"^<&str as PartialEq>::eq$", m_str_eq),
        (r"^<str as PartialEq>::eq$", m_str_eq),
        (r"^<String as PartialEq<(?:&)?str>>::eq$", m_str_eq),
        (r"^<String as PartialEq>::eq$", m_str_eq),
        (r"^String::as_str$", lambda e, m, a: deref(e, a[0])),
        (r"^<String as Deref>::deref$", lambda e, m, a: deref(e, a[0])),
        (r"^<Box<IdedExpr> as Deref>::deref$", lambda e, m, a: deref(e, a[0])[0][0]),
        (r"^<Vec<IdedExpr> as Deref>::deref$", lambda e, m, a: a[0]),
        (r"^Vec::<(?:IdedExpr|u64)>::clear$", lambda e, m, a: (deref(e, a[0])[1].clear(), ("unit",))[1]),
        (r"^Vec::<(?:IdedExpr|u64)>::remove$", m_vec_remove),
        (r"^Vec::<(?:IdedExpr|u64)>::insert$", m_vec_insert),
        (r"^Vec::<(?:IdedExpr|u64)>::truncate$", m_vec_truncate),
        (r"^<str as ToString>::to_string$", lambda e, m, a: ("string", a[0][1].decode())),
        (r"^Box::<\[IdedExpr; (\d+)\]>::new_uninit$", m_new_uninit),
        (r"^std::boxed::box_assume_init_into_vec_unsafe::<IdedExpr, \d+>$", m_assume_init),
        (r"^Vec::<.*>::is_empty$", lambda e, m, a: len(deref(e, a[0])[1]) == 0),
        (r"^Vec::<.*>::len$", lambda e, m, a: len(deref(e, a[0])[1])),
        (r"^<Vec<Box<GenericToken<Cow<'_, str>>>> as Deref>::deref$", lambda e, m, a: a[0]),
        (r"^core::slice::<impl \[Box<GenericToken<Cow<'_, str>>>\]>::iter$", m_tok_iter),
        (r"^<std::slice::Iter<'_, Box<GenericToken<Cow<'_, str>>>> as Iterator>::enumerate$", lambda e, m, a: ["enum", a[0]]),
        (r"^<Enumerate<std::slice::Iter<'_, Box<GenericToken<Cow<'_, str>>>>> as IntoIterator>::into_iter$", lambda e, m, a: a[0]),
        (r"^<Enumerate<std::slice::Iter<'_, Box<GenericToken<Cow<'_, str>>>>> as Iterator>::next$", m_enum_next),
        (r"^<Vec<Rc<.*>> as Index<usize>>::index$", m_vec_index2),
        (r"^Vec::<u64>::new$", lambda e, m, a: ("vec", [])),
        (r"^Vec::<(?:IdedExpr|u64)>::push$", m_vec_push),
    ] + chain_extern

    def rule_engine():
        e = Engine(fns, consts, rule_extern, max_steps=400000)
        e.ext_const = ext_const
        e.steps = 0
        e.discriminants = {"Expr::Unspecified": 0, "Expr::Call": 1, "Expr::Comprehension": 2, "Expr::Ident": 3, "Expr::List": 4,
                           "Expr::Literal": 5, "Expr::Map": 6, "Expr::Select": 7, "Expr::Struct": 8}
        return e

    def make_ext(rule, values):
        return [values.get(f, ("phantom",)) for f in ext_fields(rule)]

    def run_binary(method, rule, text, shapes):
        stats["scenarios"] += 1
        desc = {"method": method, "operator_text": text, "operand_shapes": list(shapes)}
        fn = find(r"^parser::<impl at [^>]*>::%s(#\d+)?$" % method)
        eng = rule_engine()
        children = {"lhs": ided(1, shapes[0]), "rhs": ided(2, shapes[1])}
        acc = "calc" if method == "visit_calc" else "relation"
        cur.clear()
        cur.update({"events": [], "children": children, "ext": make_ext(rule, {"op": ("Some", token(text))}),
                    "attrs": {acc + "0": "lhs", acc + "1": "rhs"}})
        try:
            res = eng.call_fn(fn, [Ref({0: [Opaque("parser"), Opaque("helper"), Opaque("x")]}, 0, ()), Opaque("ctx")])
        except PanicFound as p:
            failures.append(dict(desc, problems=["panic reachable: %s" % p.msg]))
            return
        stats["paths"] += 1
        table = dict(re.findall(r'\("([^"]+)", (\w+)\)', ops_src[ops_src.index("const OPERATORS"):]))
        want_name = ops[table[text]]
        probs = []
        if cur["events"] != [("visit", "lhs"), ("visit", "rhs"), ("call", want_name)]:
            probs.append("events %s, expected lhs, rhs, then one call of %s" % (cur["events"], want_name))
        want = ("enum", "Expr::Call", [[("string", want_name), ("None",), ("vec", [children["lhs"], children["rhs"]])]])
        if not (isinstance(res, list) and len(res) == 2 and res[1] == want):
            probs.append("the node is not %s(lhs, rhs) with the operands' expressions unchanged: %s" % (want_name, str(res)[:200]))
        if probs:
            failures.append(dict(desc, problems=probs))
        else:
            stats["proved"] += 1
            if len(samples) < 8 and shapes == ("ident", "neg"):
                samples.append(dict(desc, node="%s(lhs, rhs)" % want_name))
        stats["functions"] |= eng.stats["functions"]

    def run_conditional(shapes):
        stats["scenarios"] += 1
        desc = {"method": "visit_expr", "operator_text": "?:", "operand_shapes": list(shapes)}
        fn = find(r"^parser::<impl at [^>]*>::visit_expr(#\d+)?$")
        eng = rule_engine()
        children = {"c": ided(1, shapes[0]), "t": ided(2, shapes[1]), "f": ided(3, shapes[2])}
        cur.clear()
        cur.update({"events": [], "children": children, "attrs": {},
                    "ext": make_ext("Expr", {"e": ("Some", ("ctxnode", "c")), "op": ("Some", token("?")), "e1": ("Some", ("ctxnode", "t")), "e2": ("Some", ("ctxnode", "f"))})})
        try:
            res = eng.call_fn(fn, [Ref({0: [Opaque("parser"), Opaque("helper"), Opaque("x")]}, 0, ()), Opaque("ctx")])
        except PanicFound as p:
            failures.append(dict(desc, problems=["panic reachable: %s" % p.msg]))
            return
        stats["paths"] += 1
        name = ops["CONDITIONAL"]
        probs = []
        if cur["events"] != [("visit", "c"), ("visit", "t"), ("visit", "f"), ("call", name)]:
            probs.append("events %s, expected condition, then-branch, else-branch, one call" % (cur["events"],))
        want = ("enum", "Expr::Call", [[("string", name), ("None",), ("vec", [children["c"], children["t"], children["f"]])]])
        if not (isinstance(res, list) and len(res) == 2 and res[1] == want):
            probs.append("the node is not %s(cond, then, else): %s" % (name, str(res)[:200]))
        if probs:
            failures.append(dict(desc, problems=probs))
        else:
            stats["proved"] += 1
        stats["functions"] |= eng.stats["functions"]

    def run_visitor_chain(method, rule, function, n, group_at=None):
        """group_at: index of a term that is itself a parenthesised chain of the same operator (`a || (b || c)`): a term is a leaf
        whatever it contains; None: opaque terms"""
        stats["scenarios"] += 1
        desc = {"method": method, "chain_of": function, "terms": n, "parenthesised_same_operator_term": group_at}
        fn = find(r"^parser::<impl at [^>]*>::%s(#\d+)?$" % method)
        eng = rule_engine()
        eng.discriminants = dict(getattr(eng, "discriminants", {}) or {})
        eng.discriminants.update({"Expr::Unspecified": 0, "Expr::Call": 1, "Expr::Comprehension": 2, "Expr::Ident": 3, "Expr::List": 4,
                                  "Expr::Literal": 5, "Expr::Map": 6, "Expr::Select": 7, "Expr::Struct": 8})
        S_ = lambda t: ("string", t)

        def term_payload(j):
            if group_at is None:
                return ("term", j)
            if j == group_at:
                inner = [[("id", "g%d_%d" % (j, k)), ("enum", "Expr::Ident", [S_("p%d_%d" % (j, k))])] for k in range(2)]
                return ("enum", "Expr::Call", [[S_(function), ("None",), ("vec", inner)]])
            return ("enum", "Expr::Ident", [S_("v%d" % j)])
        children = {j: [("id", "t%d" % j), term_payload(j)] for j in range(n)}
        cur.clear()
        cur.update({"events": [], "children": children, "attrs": {},
                    "ext": make_ext(rule, {"e": ("Some", ("ctxnode", 0)), "s9": ("None",), "s8": ("None",), "conditionalAnd": ("None",), "relation": ("None",),
                                           "ops": ("vec", [token("op%d" % j) for j in range(n - 1)]),
                                           "e1": ("vec", [("ctxnode", j) for j in range(1, n)])})})
        try:
            res = eng.call_fn(fn, [Ref({0: [Opaque("parser"), Opaque("helper"), Opaque("x")]}, 0, ()), Opaque("ctx")])
        except PanicFound as p:
            failures.append(dict(desc, problems=["panic reachable: %s" % p.msg]))
            return
        stats["paths"] += 1
        seq, depth_max, bad = [], [0], []

        def walk(x, depth):
            depth_max[0] = max(depth_max[0], depth)
            if isinstance(x, (list, tuple)) and len(x) == 2 and isinstance(x[0], tuple) and x[0][0] == "id" and re.match(r"^t\d+$", str(x[0][1])):
                seq.append(("t", int(x[0][1][1:])))
                return
            if not (isinstance(x, list) and len(x) == 2 and isinstance(x[1], tuple) and x[1][0] == "enum" and x[1][1] == "Expr::Call"):
                bad.append("a node is neither a term nor a call: %s" % (str(x)[:120],))
                return
            call = x[1][2][0]
            func = [f[1] for f in call if isinstance(f, tuple) and f[0] == "string"]
            args = [f[1] for f in call if isinstance(f, tuple) and f[0] == "vec"]
            if func != [function] or ("None",) not in call or not args or len(args[0]) != 2:
                bad.append("an inner node is not a two-argument global call of %s: %s" % (function, str(call)[:160]))
                return
            walk(args[0][0], depth + 1)
            seq.append(("o", x[0]))
            walk(args[0][1], depth + 1)
        walk(res, 0)
        want = []
        for j in range(n):
            want.append(("t", j))
            if j < n - 1:
                want.append(("o", ("id_of", ("token", "op%d" % j))))
        probs = list(bad)
        visits = [x for x in cur["events"] if x[0] == "visit"]
        if visits != [("visit", j) for j in range(n)]:
            probs.append("operands visited %s, expected each once in source order" % (visits[:10],))
        if seq != want:
            probs.append("in-order reading of the tree is %s..., expected the source order %s..." % (seq[:9], want[:9]))
        # (the property does not prescribe the shape of the tree, only the order of its leaves; the depth is recorded, not required)
        cur_depths.append(depth_max[0])
        if probs:
            failures.append(dict(desc, problems=probs))
        else:
            stats["proved"] += 1
        stats["functions"] |= eng.stats["functions"]

    undecided = []
    try:

        def guarded(f):
            # a scenario that meets an unmodelled call is undecided (never a pass); the other scenarios are still decided
            def g(*a, **k):
                try:
                    return f(*a, **k)
                except Unsupported as u:
                    undecided.append("%s%r: %s" % (f.__name__, a, str(u)[:160]))
            return g
        run_prefix = guarded(run_prefix)
        run_visitor_chain_g = guarded(run_visitor_chain)
        run_prefix("visit_LogicalNot", "LOGICAL_NOT")
        run_prefix("visit_Negate", "NEGATE")
        # the operand as a real expression: a parenthesised prefix expression of either operator, an identifier, a literal
        for sh in ("not call", "negate call", "identifier", "literal"):
            run_prefix("visit_LogicalNot", "LOGICAL_NOT", sh)
            run_prefix("visit_Negate", "NEGATE", sh)
        for function in (ops["LOGICAL_AND"], ops["LOGICAL_OR"]):
            for n in range(1, (64 if DEPTH <= 3 else 160) + 1):
                run_chain(n, function)
        shapes3 = ("ident", "neg", "literal")
        for text in ("<", "<=", ">", ">=", "==", "!=", "in"):
            for sh in [(a, b) for a in shapes3 for b in shapes3]:
                run_binary("visit_relation", "Relation", text, sh)
        for text in ("*", "/", "%", "+", "-"):
            for sh in [(a, b) for a in shapes3 for b in shapes3]:
                run_binary("visit_calc", "Calc", text, sh)
        for sh in [(a, b, c) for a in shapes3 for b in shapes3 for c in shapes3]:
            run_conditional(sh)
        for method, rule, function in (("visit_conditionalOr", "ConditionalOr", ops["LOGICAL_OR"]), ("visit_conditionalAnd", "ConditionalAnd", ops["LOGICAL_AND"])):
            for n in range(1, (64 if DEPTH <= 3 else 160) + 1):
                run_visitor_chain_g(method, rule, function, n)
            # chains whose terms are real expressions, one of them a parenthesised chain of the same operator
            for n in range(2, 6):
                for g in range(n):
                    run_visitor_chain_g(method, rule, function, n, g)
    except Unsupported as u:
        status = 2
        print("INCONCLUSIVE: unsupported: %s" % u)
        if os.environ.get("MIRSYM_TRACE"):
            import traceback
            traceback.print_exc()
    if undecided:
        status = 2
        print("INCONCLUSIVE: %d scenarios undecided, e.g. unsupported: %s" % (len(undecided), " || ".join(u[:200] for u in undecided[:6])))
    if failures:  # a counterexample stands even if a later scenario met an unmodelled call (it is replayed natively anyway)
        status = 1
    out = {"max_chain_depth_seen": max(cur_depths) if cur_depths else 0, "functions_encoded": sorted(stats["functions"]), "scenarios": stats["scenarios"], "paths": stats["paths"], "paths_proved": stats["proved"],
           "queries": stats["queries"], "solver_s": round(stats["solver_s"], 2), "wall_s": round(time.time() - t0, 2), "failures": failures[:12], "samples": samples[:10]}
    if outp:
        json.dump(out, open(outp, "w"), indent=1)
    for f in failures[:6]:
        print("COUNTEREXAMPLE " + json.dumps(f)[:600])
    print("mirsym prefix_and_chains: %d scenarios, %d paths, %d proved, %d failures, %d queries, %.1fs solver, %.1fs wall" % (
        stats["scenarios"], stats["paths"], stats["proved"], len(failures), stats["queries"], stats["solver_s"], out["wall_s"]))
    return status


if __name__ == "__main__":
    sys.exit(main())
