#!/usr/bin/env python3
"""C18 (structure half), decided on the MIR of `Value::json` (interpreter/src/json.rs, feature json).

`json()` is executed from its entry on one value whose children are abstract: every recursive
`json()` call (directly, or through the closure handed to `map(..).collect()`) is an event that
returns what the scenario prescribes - a document or an error.  Proved per value kind:
  * list (0-3 children, every failing position): each child is exported at most once, left to
    right, none after the first failure; the result is the array of the children's documents in
    order, or the first child's error;
  * map (0-3 entries over int / uint / bool / string keys, including keys that render to the same
    text, every failing position): every entry is exported, the object has exactly one member per
    distinct key text - named by the key's text, holding the document of an entry with that key
    text - and an error of a child is the result; export itself never fails;
  * bytes: the string produced by the *standard* base64 engine applied to the bytes;
  * string / timestamp: the string itself / its RFC 3339 rendering; int, uint, double, bool,
    null: the corresponding scalar document built from the payload;
  * duration: `num_nanoseconds()` is `Some(n)` -> the number n, `None` -> DurationOverflow error;
  * function values: the error arm, never a panic.
By induction over the value this gives the structural correspondence at any depth.  Trusted:
serde_json's `Map::insert` / `From` conversions and the base64 crate's STANDARD engine (modelled
as constructors), `Key`'s Display (modelled from the key kinds: numbers in decimal, bools as
true/false, strings verbatim - the Kani harnesses of C17/C18 exercise the real ones on scalars).

usage: json_export.py <interpreter-mir-file (json feature)> <repo-root> [--json out.json]
"""
import itertools
import json
import os
import re
import sys
import time
import z3
sys.path.insert(0, os.path.dirname(os.path.abspath(__file__)))
# bound on the number of children / elements per node; the thorough tier of the driver raises it
DEPTH = int(os.environ.get("MIRSYM_DEPTH", "3"))
from mirsym import Engine, parse_mir, STD_MODELS, Unsupported, PanicFound, Ref, Opaque, is_sym


def enum_order(src, header, features=("chrono", "json")):
    body = src[src.index(header) + len(header):]
    body = body[:body.index("\n}")]
    names = []
    skip = False
    for line in body.splitlines():
        line = line.strip()
        m = re.match(r'^#\[cfg\(feature = "(\w+)"\)\]', line)
        if m:
            skip = m.group(1) not in features
            continue
        m = re.match(r"^([A-Z]\w*)\b", line)
        if m and not line.startswith("//"):
            if not skip:
                names.append(m.group(1))
            skip = False
    return names


def main():
    mir, repo = sys.argv[1], sys.argv[2]
    outp = sys.argv[sys.argv.index("--json") + 1] if "--json" in sys.argv else None
    t0 = time.time()
    fns, consts = parse_mir(open(mir).read())
    objects_src = open(os.path.join(repo, "interpreter/src/objects.rs")).read()
    value_names = enum_order(objects_src, "pub enum Value {")
    cands = [f for n, f in fns.items() if re.match(r"^json::<impl at [^>]*>::json(#\d+)?$", n)]
    if len(cands) != 1:
        print("INCONCLUSIVE: Value::json not found uniquely (%d)" % len(cands))
        return 2
    fn = cands[0]
    stats = {"scenarios": 0, "paths": 0, "proved": 0, "queries": 0, "solver_s": 0.0, "functions": set()}
    failures, samples = [], []
    status = 0
    cur = {}

    def deref(e, x):
        return e.read_path(x.frame, x.local, list(x.proj)) if isinstance(x, Ref) else x

    def m_child_json(e, m, a):
        v = deref(e, a[0])
        if not (isinstance(v, tuple) and v[0] == "child"):
            raise Unsupported("recursive json() on something that is not a child: %r" % (v,))
        cur["events"].append(("json", v[1]))
        return cur["child_results"][v[1]]

    def m_slice_iter(e, m, a):
        v = deref(e, a[0])
        return ["iter", [Ref({0: x}, 0, ()) for x in v[1]], 0]

    def m_iter_map(e, m, a):
        cty = re.search(r"(\{closure@[^}]*\})", m.group(0)).group(1)
        return ["mapiter", a[0], cty, a[1]]

    def m_iter_flat_map(e, m, a):
        """flat_map / filter_map over the elements: the mapped Result / Option is flattened (Err / None items vanish)"""
        return ["flatmapiter", a[0], a[1], m.group(0)]

    def m_collect_flat(e, m, a):
        it = a[0]
        inner, f, callee = it[1], it[2], it[3]
        out = []
        for ref in inner[1][inner[2]:]:
            if isinstance(f, tuple) and f[0] == "fnitem":
                r = e.call(f[1], [ref])
            else:
                cty = re.search(r"(\{closure@[^}]*\})", callee).group(1)
                r = e.call_fn(e.closure_fn(cty), [Ref({0: f}, 0, ()), ref])
            if isinstance(r, tuple) and r[0] == "Some":
                out.append(r[1])
            elif isinstance(r, tuple) and r[0] == "enum" and r[1].endswith("Ok"):
                out.append(r[2][0])
        return ("vec", out)

    def m_collect_result_vec(e, m, a):
        it = a[0]
        out = []
        inner = it[1]
        for ref in inner[1][inner[2]:]:
            r = e.call_fn(e.closure_fn(it[2]), [Ref({0: it[3]}, 0, ()), ref])
            if r[1].endswith("Err"):
                return ("enum", "Result::Err", [r[2][0]])
            out.append(r[2][0])
        return ("enum", "Result::Ok", [("vec", out)])

    def m_try_branch(e, m, a):
        r = a[0]
        if r[1].endswith("Ok"):
            return ("enum", "ControlFlow::Continue", [r[2][0]])
        return ("enum", "ControlFlow::Break", [("enum", "Result::Err", [r[2][0]])])

    def m_hm_iter(e, m, a):
        hm = deref(e, a[0])
        return ["hm_iter", hm[1], 0]

    def m_hm_next(e, m, a):
        it = deref(e, a[0])
        if it[2] < len(it[1]):
            k, v = it[1][it[2]]
            it[2] += 1
            return ("Some", [Ref({0: k}, 0, ()), Ref({0: v}, 0, ())])
        return ("None",)

    def key_text(k):
        v = k[2][0]
        if k[1] == "Key::String":
            return v[1]
        if k[1] == "Key::Bool":
            return "true" if v else "false"
        return str(v)

    def m_jmap_insert(e, m, a):
        jm = deref(e, a[0])
        name, doc = a[1], a[2]
        cur["events"].append(("insert", name[1]))
        old = None
        for ent in jm[1]:
            if ent[0] == name[1]:
                old = ent[1]
                ent[1] = doc
        if old is None:
            jm[1].append([name[1], doc])
            return ("None",)
        return ("Some", old)

    def m_jmap_contains(e, m, a):
        jm, name = deref(e, a[0]), deref(e, a[1])
        return any(ent[0] == name[1] for ent in jm[1])

    def m_jmap_get(e, m, a):
        jm, name = deref(e, a[0]), deref(e, a[1])
        for ent in jm[1]:
            if ent[0] == name[1]:
                return ("Some", Ref({0: ent[1]}, 0, ()))
        return ("None",)

    def m_num_nanos(e, m, a):
        if e.decide(z3.Bool("duration_fits_i64_ns")):
            return ("Some", z3.Int("duration_ns"))
        return ("None",)

    def m_ok_or(e, m, a):
        return ("enum", "Result::Ok", [a[0][1]]) if a[0][0] == "Some" else ("enum", "Result::Err", [a[1]])

    J = lambda kind, *payload: ("json", kind, list(payload))
    extern = [
        (r"^json::<impl objects::Value>::json$", m_child_json),
        (r"^<Arc<(?:Vec<objects::Value>|Vec<u8>|HashMap<Key, objects::Value>)> as Deref>::deref$", lambda e, m, a: Ref({0: deref(e, a[0])[1]}, 0, ())),
        (r"^<Vec<objects::Value> as Deref>::deref$", lambda e, m, a: a[0]),
        (r"^core::slice::<impl \[objects::Value\]>::iter$", m_slice_iter),
        (r"^<(i64|u64|f64|bool) as ToString>::to_string$", lambda e, m, a: ("display", m.group(1), deref(e, a[0]))),
        (r"^<(?:std::string::)?String as (?:std::convert::)?Into<serde_json::Value>>::into$", lambda e, m, a: ("json", "String", [a[0]])),
        (r"^<serde_json::Value as From<(?:std::string::)?String>>::from$", lambda e, m, a: ("json", "String", [a[0]])),
        (r"^<std::slice::Iter<'_, objects::Value> as Iterator>::map::<.*>$", m_iter_map),
        (r"^<std::slice::Iter<'_, objects::Value> as Iterator>::(?:flat_map|filter_map)::<.*>$", m_iter_flat_map),
        (r"^<(?:FlatMap|FilterMap|std::iter::FlatMap|std::iter::FilterMap)<std::slice::Iter<'_, objects::Value>, .*> as Iterator>::collect::<Vec<serde_json::Value>>$", m_collect_flat),
        (r"^<std::iter::Map<std::slice::Iter<'_, objects::Value>, \{closure@[^}]*\}> as Iterator>::collect::<std::result::Result<Vec<serde_json::Value>, ConvertToJsonError<'_>>>$", m_collect_result_vec),
        (r"^<std::result::Result<.*> as Try>::branch$", m_try_branch),
        (r"^<std::result::Result<.*> as FromResidual<std::result::Result<Infallible, ConvertToJsonError<'_>>>>::from_residual$", lambda e, m, a: ("enum", "Result::Err", [a[0][2][0]])),
        (r"^serde_json::Map::<std::string::String, serde_json::Value>::new$", lambda e, m, a: ["jsonmap", []]),
        (r"^serde_json::Map::<std::string::String, serde_json::Value>::insert$", m_jmap_insert),
        (r"^serde_json::Map::<std::string::String, serde_json::Value>::contains_key::<.*>$", m_jmap_contains),
        (r"^serde_json::Map::<std::string::String, serde_json::Value>::get::<.*>$", m_jmap_get),
        (r"^HashMap::<Key, objects::Value>::iter$", m_hm_iter),
        (r"^<std::collections::hash_map::Iter<'_, Key, objects::Value> as IntoIterator>::into_iter$", lambda e, m, a: a[0]),
        (r"^<std::collections::hash_map::Iter<'_, Key, objects::Value> as Iterator>::next$", m_hm_next),
        (r"^<Key as ToString>::to_string$", lambda e, m, a: ("string", key_text(deref(e, a[0])))),
        (r"^<(i64|u64|f64|bool) as (?:std::convert::)?Into<serde_json::Value>>::into$", lambda e, m, a: J(m.group(1), a[0])),
        (r"^<std::string::String as (?:std::convert::)?Into<serde_json::Value>>::into$", lambda e, m, a: J("String", a[0])),
        (r"^<Arc<std::string::String> as ToString>::to_string$", lambda e, m, a: ("string_copy_of", deref(e, a[0]))),
        (r"^<std::string::String as ToString>::to_string$", lambda e, m, a: deref(e, a[0])),
        (r"^Vec::<u8>::as_slice$", lambda e, m, a: ("slice_of", deref(e, a[0]))),
        (r"^<GeneralPurpose as base64::Engine>::encode::<.*>$", lambda e, m, a: ("base64", deref(e, a[0]), a[1])),
        (r"^DateTime::<FixedOffset>::to_rfc3339$", lambda e, m, a: ("rfc3339", deref(e, a[0]))),
        (r"^TimeDelta::num_nanoseconds$", m_num_nanos),
        (r"^std::option::Option::<i64>::ok_or::<ConvertToJsonError<'_>>$", m_ok_or),
        (r"^<serde_json::Number as From<i64>>::from$", lambda e, m, a: ("number_i64", a[0])),
    ] + STD_MODELS

    def ext_const(name):
        m = re.match(r"^base64::(?:prelude|engine::general_purpose)::(?:BASE64_)?(\w+)$", name)
        if m:
            return ("b64engine", m.group(1))
        return None

    def engine():
        e = Engine(fns, consts, extern)
        e.discriminants = {"Value::" + n: k for k, n in enumerate(value_names)}
        e.discriminants.update({"ControlFlow::Continue": 0, "ControlFlow::Break": 1, "Result::Ok": 0, "Result::Err": 1})
        e.ext_const = ext_const
        return e

    def jkind(doc):
        """variant name of a serde_json::Value aggregate as the engine builds it"""
        if isinstance(doc, tuple) and doc[0] in ("enum", "ctor"):
            return doc[1].split("::")[-1]
        return None

    undecided = []

    def run(desc, value, child_results, judge):
        stats["scenarios"] += 1
        eng = engine()

        def entry(e):
            cur.clear()
            cur.update({"events": [], "child_results": child_results})
            return e.call_fn(fn, [Ref({0: value}, 0, ())])

        def on_path(res, e):
            probs = judge(res, e, cur["events"])
            if probs:
                failures.append(dict(desc, problems=probs, events=[list(x) for x in cur["events"]]))
            else:
                stats["proved"] += 1
                if len(samples) < 24 and stats["scenarios"] % 9 == 0:
                    samples.append(dict(desc, events=[list(x) for x in cur["events"]], result=res[1]))
        try:
            eng.explore(entry, None, on_path, [])
        except Unsupported as u:
            # a scenario that meets an unmodelled operation is undecided (never a pass); the other scenarios are still decided
            undecided.append("%s: %s" % (json.dumps(desc), str(u)[:160]))
        except PanicFound as p:
            failures.append(dict(desc, problems=["panic reachable: %s" % p.msg]))
        for k in ("paths", "queries"):
            stats[k] += eng.stats[k]
        stats["solver_s"] += eng.stats["solver_s"]
        stats["functions"] |= eng.stats["functions"]

    V = lambda kind, *payload: ("enum", "Value::" + kind, list(payload))
    okdoc = lambda j: ("enum", "Result::Ok", [("doc", j)])
    errdoc = lambda j: ("enum", "Result::Err", [("child_error", j)])

    def is_ok_with(res, kind):
        return res[1] == "Result::Ok" and jkind(res[2][0]) == kind

    try:
        # ---- scalars and leaves
        pi, pb = z3.Int("payload"), z3.Bool("payload_b")
        def scalar(kind, payload, tag):
            def judge(res, e, evs):
                if evs:
                    return ["a scalar exported children: %s" % evs]
                ok = res[1] == "Result::Ok" and res[2][0] == ("json", tag, [payload])
                return [] if ok else ["%s is not exported as the %s document of its payload: %r" % (kind, tag, str(res)[:200])]
            run({"value": kind}, V(kind, payload), {}, judge)
        scalar("Int", pi, "i64")
        scalar("UInt", pi, "u64")
        scalar("Float", ("f64", "x"), "f64")
        scalar("Bool", pb, "bool")
        run({"value": "Null"}, V("Null"), {}, lambda res, e, evs: [] if res[1] == "Result::Ok" and res[2][0] == ("ctor", "Value::Null") and not evs else ["null is not exported as null: %r" % (str(res)[:200],)])
        run({"value": "String"}, V("String", ("arc", ("abs_string", "s"))), {},
            lambda res, e, evs: [] if res[1] == "Result::Ok" and res[2][0] == ("json", "String", [("string_copy_of", ("arc", ("abs_string", "s")))]) else ["a string is not exported as itself: %r" % (str(res)[:200],)])
        run({"value": "Timestamp"}, V("Timestamp", ("abs_ts", "t")), {},
            lambda res, e, evs: [] if res[1] == "Result::Ok" and res[2][0] == ("json", "String", [("rfc3339", ("abs_ts", "t"))]) else ["a timestamp is not exported as its RFC 3339 string: %r" % (str(res)[:200],)])

        def judge_bytes(res, e, evs):
            want = ("json", "String", [("base64", ("b64engine", "STANDARD"), ("slice_of", ("abs_bytes", "b")))])
            return [] if res[1] == "Result::Ok" and res[2][0] == want else ["bytes are not exported as their standard base64 string: %r" % (str(res)[:300],)]
        run({"value": "Bytes"}, V("Bytes", ("arc", ("abs_bytes", "b"))), {}, judge_bytes)

        def judge_duration(res, e, evs):
            mdl = e.solver.model() if e.check() else None
            fits = mdl is not None and z3.is_true(mdl.eval(z3.Bool("duration_fits_i64_ns"), model_completion=True))
            if fits:
                ok = is_ok_with(res, "Number") and res[2][0][2][0][0] == "number_i64" and not e.check(res[2][0][2][0][1] != z3.Int("duration_ns"))
                return [] if ok else ["a duration within 64-bit nanoseconds is not exported as its nanosecond count: %r" % (str(res)[:200],)]
            ok = res[1] == "Result::Err" and res[2][0][1].endswith("DurationOverflow")
            return [] if ok else ["a duration beyond 64-bit nanoseconds is not the DurationOverflow error: %r" % (str(res)[:200],)]
        run({"value": "Duration"}, V("Duration", ("abs_dur", "d")), {}, judge_duration)

        def judge_function(res, e, evs):
            ok = res[1] == "Result::Err" and res[2][0][1].endswith("ConvertToJsonError::<'_>::Value") or (res[1] == "Result::Err" and "Value" in res[2][0][1])
            return [] if ok else ["a function value is not the error arm: %r" % (str(res)[:200],)]
        run({"value": "Function"}, V("Function", ("arc", ("abs_string", "f")), ("None",)), {}, judge_function)

        # ---- lists
        for n in range(0, DEPTH + 1):
            for bad in [None] + list(range(n)):
                children = [("child", j) for j in range(n)]
                results = {j: (errdoc(j) if bad == j else okdoc(j)) for j in range(n)}
                def judge(res, e, evs, n=n, bad=bad):
                    want_ev = [("json", j) for j in range(n if bad is None else bad + 1)]
                    probs = []
                    if [tuple(x) for x in evs] != want_ev:
                        probs.append("children exported %s, expected %s" % (evs, want_ev))
                    if bad is None:
                        if not (is_ok_with(res, "Array") and res[2][0][2][0] == ("vec", [("doc", j) for j in range(n)])):
                            probs.append("the result is not the array of the children's documents in order: %r" % (str(res)[:300],))
                    elif not (res[1] == "Result::Err" and res[2][0] == ("child_error", bad)):
                        probs.append("the first failing child's error is not the result: %r" % (str(res)[:200],))
                    return probs
                run({"value": "List", "children": n, "failing": bad}, V("List", ("arc", ("vecv", children))), results, judge)

        # ---- maps
        S = lambda t: ("enum", "Key::String", [("string", t)])
        I = lambda k: ("enum", "Key::Int", [k])
        U = lambda k: ("enum", "Key::Uint", [k])
        B = lambda b: ("enum", "Key::Bool", [b])
        key_sets = [[], [S("a")], [I(1)], [U(2)], [B(True)], [S("a"), S("b")], [I(1), S("1")], [S("1"), I(1)], [U(1), I(1)], [B(True), S("true")],
                    [S("a"), I(-3), B(False)], [I(1), U(1), S("1")], [S("x"), S("1"), U(1)]]
        for keys in key_sets:
            n = len(keys)
            for bad in [None] + list(range(n)):
                entries = [(keys[j], ("child", j)) for j in range(n)]
                results = {j: (errdoc(j) if bad == j else okdoc(j)) for j in range(n)}
                def judge(res, e, evs, keys=keys, n=n, bad=bad):
                    probs = []
                    upto = n if bad is None else bad + 1
                    jev = [x for x in evs if x[0] == "json"]
                    if [tuple(x) for x in jev] != [("json", j) for j in range(upto)]:
                        probs.append("entries exported %s, expected each of the first %d once, in order" % (jev, upto))
                    if bad is None:
                        # members are named by the key's text; where several keys render to the same text any one of
                        # their documents may end up under it (map iteration order is unspecified)
                        want = {}
                        for j, k in enumerate(keys):
                            want.setdefault(key_text(k), []).append(("doc", j))
                        if not is_ok_with(res, "Object"):
                            probs.append("the result is not an object: %r" % (str(res)[:300],))
                        else:
                            jm = res[2][0][2][0]
                            got = {ent[0]: ent[1] for ent in jm[1]}
                            if set(got) != set(want) or len(jm[1]) != len(want) or any(got[t] not in want[t] for t in got):
                                probs.append("object members %s, expected one member per key text out of %s" % (sorted(got.items()), sorted(want.items())))
                    elif not (res[1] == "Result::Err" and res[2][0] == ("child_error", bad)):
                        probs.append("the failing entry's error is not the result: %r" % (str(res)[:200],))
                    return probs
                run({"value": "Map", "keys": [key_text(k) + ":" + k[1][5:] for k in keys], "failing": bad},
                    V("Map", [("arc", ("hashmap", entries))]), results, judge)
    except Unsupported as u:
        status = 2
        print("INCONCLUSIVE: unsupported: %s" % u)
        if os.environ.get("MIRSYM_TRACE"):
            import traceback
            traceback.print_exc()
    if undecided:
        status = 2
        print("INCONCLUSIVE: %d scenarios undecided, e.g. unsupported: %s" % (len(undecided), undecided[0][:300]))
    if failures:  # a counterexample stands even if a later scenario met an unmodelled call (it is replayed natively anyway)
        status = 1
    out = {"functions_encoded": sorted(stats["functions"]), "scenarios": stats["scenarios"], "paths": stats["paths"], "paths_proved": stats["proved"],
           "queries": stats["queries"], "solver_s": round(stats["solver_s"], 2), "wall_s": round(time.time() - t0, 2), "failures": failures[:12], "samples": samples}
    if outp:
        json.dump(out, open(outp, "w"), indent=1)
    for f in failures[:5]:
        print("COUNTEREXAMPLE " + json.dumps(f)[:700])
    print("mirsym json_export: %d scenarios, %d paths, %d proved, %d failures, %d queries, %.1fs solver, %.1fs wall" % (
        stats["scenarios"], stats["paths"], stats["proved"], len(failures), stats["queries"], stats["solver_s"], out["wall_s"]))
    return status


if __name__ == "__main__":
    sys.exit(main())
