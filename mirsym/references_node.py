#!/usr/bin/env python3
"""C19 (reported references), walker half, decided on the MIR of antlr/src/references.rs.

`IdedExpr::_references` is executed on one node of every kind whose children are abstract;
each recursive call is an event "child visited" and each `HashSet::insert` an event "name
reported".  Proved per node kind:
  * every child expression is visited exactly once (call: receiver and every argument;
    comprehension: range, initialiser, condition, step, result; list: every element; map and
    struct: every key and value; select: the operand), so by induction every identifier and call
    name of the tree reaches the walker;
  * an identifier node reports its name as a variable unless it starts with '@' (the macro
    accumulators), a call node reports its function name, nothing else is ever reported, and the
    iteration / accumulator variable *names* of a comprehension are not reported;
  * the walk takes no context: the report cannot depend on one.
The evaluator half - UndeclaredReference arises only from looking up an identifier node's name or
a call node's function name - is decided by resolve_node.py (call nodes) and context_chain.py
(variable lookup).

usage: references_node.py <parser-mir-file> <repo-root> [--json out.json]
"""
import json
import os
import re
import sys
import time
sys.path.insert(0, os.path.dirname(os.path.abspath(__file__)))
# bound on the number of children / elements per node; the thorough tier of the driver raises it
DEPTH = int(os.environ.get("MIRSYM_DEPTH", "3"))
from mirsym import Engine, parse_mir, STD_MODELS, Unsupported, PanicFound, Ref, Opaque


def main():
    mir, repo = sys.argv[1], sys.argv[2]
    outp = sys.argv[sys.argv.index("--json") + 1] if "--json" in sys.argv else None
    t0 = time.time()
    fns, consts = parse_mir(open(mir).read())
    cands = [f for n, f in fns.items() if n.split("#")[0].endswith("::_references")]
    if len(cands) != 1:
        print("INCONCLUSIVE: _references not found uniquely")
        return 2
    fn = cands[0]
    stats = {"scenarios": 0, "paths": 0, "proved": 0, "functions": set()}
    failures, samples = [], []
    status = 0
    cur = {}

    def deref(e, x):
        return e.read_path(x.frame, x.local, list(x.proj)) if isinstance(x, Ref) else x

    def m_visit(e, m, a):
        h = deref(e, a[0])
        which = "variables" if deref(e, a[1])[1] == "V" else "?"
        which2 = "functions" if deref(e, a[2])[1] == "F" else "?"
        # a child is either an opaque handle ("child", h) or a real expression whose id field carries the handle
        handle = h[0][1] if (isinstance(h, list) and isinstance(h[0], tuple) and h[0][0] == "cid") else h[1]
        cur["events"].append(("visit", handle, which, which2))
        return []

    def m_insert(e, m, a):
        s = deref(e, a[0])
        name = a[1]
        name = deref(e, name)
        text = name[1].decode() if isinstance(name[1], bytes) else name[1]
        cur["events"].append(("report", "variable" if s[1] == "V" else "function", text))
        return True

    def m_iter_next(e, m, a):
        it = deref(e, a[0])
        v = deref(e, it[1])
        if it[2] < len(v[1]):
            k = it[2]
            it[2] += 1
            r = it[1]
            return ("Some", Ref(r.frame, r.local, list(r.proj) + [("field", 1), ("idx", k)]))
        return ("None",)

    def m_box_deref(e, m, a):
        b = deref(e, a[0])
        return b[0][0]

    extern = [
        (r"^references::<impl IdedExpr>::_references$", m_visit),
        (r"^HashSet::<&str>::insert$", m_insert),
        (r"^<String as Deref>::deref$", lambda e, m, a: ("str", deref(e, a[0])[1].encode())),
        (r"^<&Vec<(?:IdedExpr|IdedEntryExpr)> as IntoIterator>::into_iter$", lambda e, m, a: ["iter", a[0], 0]),
        (r"^<std::slice::Iter<'_, (?:IdedExpr|IdedEntryExpr)> as Iterator>::next$", m_iter_next),
        (r"^<Box<IdedExpr> as Deref>::deref$", m_box_deref),
    ] + STD_MODELS
    disc = {"Expr::Unspecified": 0, "Expr::Call": 1, "Expr::Comprehension": 2, "Expr::Ident": 3, "Expr::List": 4, "Expr::Literal": 5,
            "Expr::Map": 6, "Expr::Select": 7, "Expr::Struct": 8, "EntryExpr::StructField": 0, "EntryExpr::MapEntry": 1}
    S = lambda t: ("string", t)
    child = lambda h: ("child", h)

    def boxed(h):
        return [[Ref({0: child(h)}, 0, ())]]

    def run(desc, expr, want):
        stats["scenarios"] += 1
        eng = Engine(fns, consts, extern)
        eng.discriminants = dict(disc)
        eng.steps = 0
        cur["events"] = []
        node = {0: [9, expr]}
        try:
            eng.call_fn(fn, [Ref(node, 0, ()), Ref({0: ("set", "V")}, 0, ()), Ref({0: ("set", "F")}, 0, ())])
        except PanicFound as p:
            failures.append(dict(desc, problems=["panic reachable: %s" % p.msg]))
            return
        stats["paths"] += 1
        got = [tuple(x) for x in cur["events"]]
        # visits must pass the two sets on unchanged; order among siblings is not prescribed
        ok = sorted(got, key=str) == sorted(want, key=str)
        if ok:
            stats["proved"] += 1
            if len(samples) < 10:
                samples.append(dict(desc, events=[list(map(str, x)) for x in got]))
        else:
            failures.append(dict(desc, problems=["events %s, expected %s" % (got, want)]))
        stats["functions"] |= eng.stats["functions"]

    V = lambda h: ("visit", h, "variables", "functions")
    undecided = []
    run_inner = run

    def run(desc, expr, want):
        # a scenario that meets an unmodelled operation is undecided (never a pass); the other scenarios are still decided
        try:
            return run_inner(desc, expr, want)
        except Unsupported as u:
            undecided.append("%s: %s" % (json.dumps(desc), str(u)[:160]))
    try:
        run({"node": "unspecified"}, ("enum", "Expr::Unspecified", []), [])
        run({"node": "literal"}, ("enum", "Expr::Literal", [("abs", "val")]), [])
        for name in ("x", "long_name", "_private", "_", "X9", "@result", "@x"):
            run({"node": "ident", "name": name}, ("enum", "Expr::Ident", [S(name)]),
                [] if name.startswith("@") else [("report", "variable", name)])
        for n in range(0, DEPTH + 1):
            for has_target in (False, True):
                tgt = ("Some", boxed("t")) if has_target else ("None",)
                run({"node": "call", "args": n, "receiver": has_target},
                    ("enum", "Expr::Call", [[S("f"), tgt, ("vec", [child(("a", j)) for j in range(n)])]]),
                    [("report", "function", "f")] + ([V("t")] if has_target else []) + [V(("a", j)) for j in range(n)])
            run({"node": "list", "elements": n}, ("enum", "Expr::List", [[("vec", [child(("e", j)) for j in range(n)])]]), [V(("e", j)) for j in range(n)])
            for kind in ("Map", "Struct"):
                for shape in ("MapEntry", "StructField"):
                    entries, want = [], []
                    for j in range(n):
                        if shape == "MapEntry":
                            entries.append([20 + j, ("enum", "EntryExpr::MapEntry", [[child(("k", j)), child(("v", j)), False]])])
                            want += [V(("k", j)), V(("v", j))]
                        else:
                            entries.append([20 + j, ("enum", "EntryExpr::StructField", [[S("fld%d" % j), child(("v", j)), False]])])
                            want += [V(("v", j))]
                    body = [("vec", entries)] if kind == "Map" else [S("T"), ("vec", entries)]
                    run({"node": kind.lower(), "entries": n, "entry_kind": shape}, ("enum", "Expr::" + kind, [body]), want)
        run({"node": "select"}, ("enum", "Expr::Select", [[boxed("op"), S("field"), False]]), [V("op")])
        run({"node": "select (has test)"}, ("enum", "Expr::Select", [[boxed("op"), S("field"), True]]), [V("op")])
        run({"node": "comprehension"},
            ("enum", "Expr::Comprehension", [[boxed("range"), S("x"), ("None",), S("@result"), boxed("init"), boxed("cond"), boxed("step"), boxed("result")]]),
            [V("range"), V("init"), V("cond"), V("step"), V("result")])
        # the same nodes with children that are real expressions of the shapes the parser and the macros produce (a walker
        # that looks into a child instead of visiting it is caught): each child is still one visit, whatever it contains
        def real(h, shape):
            ident = lambda n: ("enum", "Expr::Ident", [S(n)])
            sub = lambda j: [("cid", (h, "inner", j)), ident("inner_%s_%d" % (h if isinstance(h, str) else "x", j))]
            exprs = {
                "ident": ident("name_of_%s" % (h,)),
                "call": ("enum", "Expr::Call", [[S("g"), ("None",), ("vec", [sub(0), sub(1)])]]),
                "guarded step": ("enum", "Expr::Call", [[S("_?_:_"), ("None",), ("vec", [sub(0), sub(1), sub(2)])]]),
                "and step": ("enum", "Expr::Call", [[S("_&&_"), ("None",), ("vec", [sub(0), sub(1)])]]),
                "list": ("enum", "Expr::List", [[("vec", [sub(0)])]]),
                "literal": ("enum", "Expr::Literal", [("abs", "val")]),
            }
            return [("cid", h), exprs[shape]]

        def rboxed(h, shape):
            return [[Ref({0: real(h, shape)}, 0, ())]]
        for step_shape in ("guarded step", "and step", "call", "ident"):
            for range_shape in ("ident", "list", "call"):
                run({"node": "comprehension", "children": "real expressions", "step": step_shape, "range": range_shape},
                    ("enum", "Expr::Comprehension", [[rboxed("range", range_shape), S("x"), ("None",), S("@result"), rboxed("init", "literal"), rboxed("cond", "call"),
                                                      rboxed("step", step_shape), rboxed("result", "ident")]]),
                    [V("range"), V("init"), V("cond"), V("step"), V("result")])
        for arg_shape in ("ident", "call", "list", "literal"):
            for has_target in (False, True):
                tgt = ("Some", rboxed("t", arg_shape)) if has_target else ("None",)
                run({"node": "call", "children": "real expressions", "argument_shape": arg_shape, "receiver": has_target},
                    ("enum", "Expr::Call", [[S("f"), tgt, ("vec", [real(("a", j), arg_shape) for j in range(2)])]]),
                    [("report", "function", "f")] + ([V("t")] if has_target else []) + [V(("a", j)) for j in range(2)])
            run({"node": "select", "children": "real expressions", "operand_shape": arg_shape}, ("enum", "Expr::Select", [[rboxed("op", arg_shape), S("field"), False]]), [V("op")])
            run({"node": "list", "children": "real expressions", "element_shape": arg_shape}, ("enum", "Expr::List", [[("vec", [real(("e", j), arg_shape) for j in range(2)])]]), [V(("e", j)) for j in range(2)])
    except Unsupported as u:
        status = 2
        print("INCONCLUSIVE: unsupported: %s" % u)
    if undecided:
        status = 2
        print("INCONCLUSIVE: %d scenarios undecided, e.g. unsupported: %s" % (len(undecided), undecided[0][:300]))
    if failures:  # a counterexample stands even if a later scenario met an unmodelled call (it is replayed natively anyway)
        status = 1
    out = {"functions_encoded": sorted(stats["functions"]), "scenarios": stats["scenarios"], "paths": stats["paths"], "paths_proved": stats["proved"],
           "queries": 0, "solver_s": 0.0, "wall_s": round(time.time() - t0, 2), "failures": failures[:10], "samples": samples}
    if outp:
        json.dump(out, open(outp, "w"), indent=1)
    for f in failures[:4]:
        print("COUNTEREXAMPLE " + json.dumps(f)[:700])
    print("mirsym references_node: %d node scenarios, %d executions, %d proved, %d failures, %.1fs wall" % (stats["scenarios"], stats["paths"], stats["proved"], len(failures), out["wall_s"]))
    return status


if __name__ == "__main__":
    sys.exit(main())
