#!/usr/bin/env python3
"""C13 (literal half), decided on the MIR of antlr/src/parser.rs: visit_Int, visit_Uint, visit_Double.

The visitor methods are executed from their entry on an abstract parse-tree context whose text
is a *symbolic literal*: sign (the grammar's optional MINUS is part of the Int alternative's
text), radix (decimal / 0x), an unbounded symbolic magnitude, and for uint the trailing `u`.
The std text primitives the code uses (`strip_prefix`, `from_str_radix`, `str::parse`,
`truncate`, ...) are modelled on that representation with their documented behaviour
(accept an optional sign, reject a foreign character such as `x`, fail exactly outside the
target range).  Proved for every magnitude:
  * if the denoted number fits the target type the method yields exactly
    `Expr::Literal(Val::Int(n))` / `Val::UInt(n)` through `next_expr` - in particular for the
    most negative int in either radix - and otherwise it reports a parse error;
  * double literals: a finite parse result becomes `Val::Double` of that very value, an
    infinite (out of range) or failed one is a parse error;
  * no panic is reachable.
What is trusted: that the ANTLR grammar hands these methods the literal's text (C01/C04).

usage: numeric_literals.py <parser-mir-file> <repo-root> [--json out.json]
"""
import json
import os
import re
import sys
import time
import z3
sys.path.insert(0, os.path.dirname(os.path.abspath(__file__)))
from mirsym import (Engine, parse_mir, STD_MODELS, Unsupported, PanicFound, Ref, Opaque, is_sym,
                    ext_res_map, ext_res_map_err, ext_res_and_then, ext_res_ok, ext_option_map, ext_opt_and_then)


class Lit:
    """text of a literal: [-][0x]digits[u]; `mag` is the number the digits denote in their radix"""
    def __init__(self, neg, hex_prefix, radix, mag, usuffix=False):
        self.neg, self.hex_prefix, self.radix, self.mag, self.usuffix = neg, hex_prefix, radix, mag, usuffix

    def copy(self, **kw):
        d = dict(neg=self.neg, hex_prefix=self.hex_prefix, radix=self.radix, mag=self.mag, usuffix=self.usuffix)
        d.update(kw)
        return Lit(**d)

    def __repr__(self):
        return "%s%s<digits base %d>%s" % ("-" if self.neg else "", "0x" if self.hex_prefix else "", self.radix, "u" if self.usuffix else "")


LIMITS = {"i64": (-2 ** 63, 2 ** 63 - 1), "u64": (0, 2 ** 64 - 1), "i128": (-2 ** 127, 2 ** 127 - 1), "u128": (0, 2 ** 128 - 1),
          "i32": (-2 ** 31, 2 ** 31 - 1), "u32": (0, 2 ** 32 - 1)}


def main():
    mir, repo = sys.argv[1], sys.argv[2]
    outp = sys.argv[sys.argv.index("--json") + 1] if "--json" in sys.argv else None
    t0 = time.time()
    fns, consts = parse_mir(open(mir).read())
    stats = {"scenarios": 0, "paths": 0, "proved": 0, "queries": 0, "solver_s": 0.0, "functions": set()}
    failures, samples = [], []
    status = 0
    cur = {}

    def find(name):
        c = [f for n, f in fns.items() if re.match(r"^parser::<impl at [^>]*>::%s(#\d+)?$" % name, n)]
        if len(c) != 1:
            raise Unsupported("%s not found uniquely" % name)
        return c[0]

    def deref(e, x):
        return e.read_path(x.frame, x.local, list(x.proj)) if isinstance(x, Ref) else x

    def text_of(e, x):
        x = deref(e, x)
        x = deref(e, x)
        if not isinstance(x, Lit):
            raise Unsupported("text operation on %r" % (x,))
        return x

    def m_get_text(e, m, a):
        return cur["text"].copy()

    def m_ctx_deref(e, m, a):
        # the context's own fields (IntContextExt / DoubleContextExt { base, sign, tok, ph }, UintContextExt { base, tok, ph }): the
        # optional sign token is there exactly when the literal's text starts with '-', the number token's text is the literal
        # without its sign; every other slot answers as "the token is there"
        tok = Ref({0: ("token", "number")}, 0, ())
        box = [[tok]]
        slots = [("Some", box)] * 8
        mname = m.group(0)
        if re.search(r"(Int|Double)ContextExt", mname):
            sign_tok = Ref({0: ("token", "sign")}, 0, ())
            slots = list(slots)
            slots[1] = ("Some", [[sign_tok]]) if cur["text"].neg else ("None",)
        return Ref({0: slots}, 0, ())

    def m_token_text(e, m, a):
        t = deref(e, a[0])
        t = deref(e, t)
        if isinstance(t, tuple) and t[0] == "token" and len(t) > 1 and t[1] == "number":
            return cur["text"].copy(neg=False)
        raise Unsupported("text of token %r" % (t,))

    def m_as_ref(e, m, a):
        r = a[0]
        if deref(e, r)[0] != "Some":
            return ("None",)
        return ("Some", Ref(r.frame, r.local, list(r.proj) + [("field", 0)]))

    def m_expect(e, m, a):
        if a[0][0] != "Some":
            raise PanicFound("expect on None", None)
        return a[0][1]

    def m_strip_prefix(e, m, a):
        t = text_of(e, a[0])
        pre = a[1]
        pre = pre[1].decode() if isinstance(pre, tuple) and isinstance(pre[1], bytes) else pre
        if pre in ("0x", "0X"):
            if not t.neg and t.hex_prefix and pre == "0x":
                return ("Some", t.copy(hex_prefix=False))
            return ("None",)
        if pre in ("-", ord("-")):
            return ("Some", t.copy(neg=False)) if t.neg else ("None",)
        if pre == "-0x":
            return ("Some", t.copy(neg=False, hex_prefix=False)) if (t.neg and t.hex_prefix) else ("None",)
        raise Unsupported("strip_prefix(%r)" % (pre,))

    def m_starts_with(e, m, a):
        r = m_strip_prefix(e, m, a)
        return r[0] == "Some"

    def parse_int(e, t, ty, radix):
        lo, hi = LIMITS[ty]
        if t.usuffix or t.hex_prefix:
            # a foreign character ('u', 'x') is an invalid digit
            return ("enum", "Result::Err", [("ParseIntError", "InvalidDigit")])
        if t.neg and lo == 0:
            return ("enum", "Result::Err", [("ParseIntError", "InvalidDigit")])
        if t.radix != radix:
            if t.radix == 16:
                # hexadecimal digits read in a smaller radix: 'a'..'f' may or may not occur
                raise Unsupported("hexadecimal digits parsed in radix %d" % radix)
            raise Unsupported("decimal digits parsed in radix %d" % radix)
        v = -t.mag if t.neg else t.mag
        if e.decide(z3.And(v >= lo, v <= hi)):
            return ("enum", "Result::Ok", [v])
        return ("enum", "Result::Err", [("ParseIntError", "Overflow")])

    def m_from_str_radix(e, m, a):
        rdx = a[1]
        if is_sym(rdx):
            raise Unsupported("symbolic radix")
        return parse_int(e, text_of(e, a[0]), m.group(1), rdx)

    def m_parse_int(e, m, a):
        return parse_int(e, text_of(e, a[0]), m.group(1), 10)

    def m_len(e, m, a):
        text_of(e, a[0])
        return z3.Int("text_len")

    def m_truncate(e, m, a):
        t = text_of(e, a[0])
        n = a[1]
        if t.usuffix and not e.check(n != z3.Int("text_len") - 1):
            r = a[0]
            e.write_path(r.frame, r.local, list(r.proj), t.copy(usuffix=False))
            return ("unit",)
        raise Unsupported("truncate to something other than len - 1")

    def m_pop(e, m, a):
        t = text_of(e, a[0])
        if t.usuffix:
            r = a[0]
            e.write_path(r.frame, r.local, list(r.proj), t.copy(usuffix=False))
            return ("Some", ord("u"))
        raise Unsupported("pop of a digit")

    def m_strip_suffix(e, m, a):
        t = text_of(e, a[0])
        suf = a[1]
        suf = suf[1].decode() if isinstance(suf, tuple) and isinstance(suf[1], bytes) else suf
        if suf in ("u", ord("u")):
            return ("Some", t.copy(usuffix=False)) if t.usuffix else ("None",)
        raise Unsupported("strip_suffix(%r)" % (suf,))

    def m_next_expr(e, m, a):
        cur["events"].append(("next_expr", a[2]))
        return ("ided", a[2])

    def m_report_error(e, m, a):
        msg = a[3]
        cur["events"].append(("report_error", msg[1].decode() if isinstance(msg, tuple) and isinstance(msg[1], bytes) else str(msg)))
        return ("ided_error",)

    # the parsed double is an arbitrary IEEE-754 value that is not NaN (a literal's text is digits, a point, an exponent and
    # a sign: str::parse gives a finite double or, beyond the range, an infinity of the text's sign)
    PARSED = z3.FP("parsed_double", z3.Float64())
    fp_finite = lambda v: z3.Not(z3.Or(z3.fpIsNaN(v), z3.fpIsInf(v)))

    def m_parse_f64(e, m, a):
        cur["events"].append(("parse_f64",))
        if e.decide(z3.Bool("f64_parse_ok")):
            return ("enum", "Result::Ok", [PARSED])
        return ("enum", "Result::Err", [("ParseFloatError",)])

    def fp_pred(name):
        def f(e, m, a):
            v = a[0]
            if not (is_sym(v) and z3.is_fp(v)):
                raise Unsupported("%s of %r" % (name, v))
            return {"is_finite": fp_finite(v), "is_infinite": z3.fpIsInf(v), "is_nan": z3.fpIsNaN(v),
                    "is_sign_negative": z3.fpIsNegative(v), "is_sign_positive": z3.fpIsPositive(v), "is_normal": z3.fpIsNormal(v)}[name]
        return f

    def m_fp_abs(e, m, a):
        return z3.fpAbs(a[0])

    def m_fmt_arg(e, m, a):
        return ("fmt_arg", text_of(e, a[0]))

    def m_fmt_new(e, m, a):
        tpl, args = deref(e, a[0]), deref(e, a[1])
        raw = tpl[1] if isinstance(tpl, tuple) else tpl
        if isinstance(raw, str):
            # ("bytes_const", 'b"\\x01-\\xc0\\x00"') as printed in the MIR
            raw = bytes(raw[2:-1], "latin-1").decode("unicode_escape").encode("latin-1")
        raw = bytes(raw)
        pieces, k, nxt = [], 0, 0
        while k < len(raw) and raw[k] != 0:
            b = raw[k]
            if 1 <= b < 0x80:
                pieces.append(raw[k + 1:k + 1 + b].decode())
                k += 1 + b
            elif b == 0xc0:
                pieces.append(args[nxt])
                nxt += 1
                k += 1
            else:
                raise Unsupported("format template byte %#x" % b)
        return ("fmt_args", pieces)

    def m_format(e, m, a):
        pieces = a[0][1] if len(a[0]) > 1 else None
        if pieces and len(pieces) == 2 and pieces[0] == "-" and isinstance(pieces[1], tuple) and pieces[1][0] == "fmt_arg":
            t = pieces[1][1]
            if t.neg:
                raise Unsupported("a second sign")
            return t.copy(neg=True)
        if pieces and len(pieces) == 1 and isinstance(pieces[0], tuple):
            return pieces[0][1].copy()
        raise Unsupported("format of %r" % (pieces,))

    def m_checked_neg(e, m, a):
        lo, hi = LIMITS[m.group(1)]
        v = a[0]
        if e.decide(z3.And(-v >= lo, -v <= hi)):
            return ("Some", -v)
        return ("None",)

    def m_try_from_int(e, m, a):
        lo, hi = LIMITS[m.group(1)]
        v = a[0]
        if e.decide(z3.And(v >= lo, v <= hi)):
            return ("enum", "Result::Ok", [v])
        return ("enum", "Result::Err", [("TryFromIntError",)])

    extern = [
        (r"^<BaseParserRuleContext<'_, \w+ContextExt<'_>> as ParseTree<'_>>::get_text$", m_get_text),
        (r"^<BaseParserRuleContext<'_, \w+ContextExt<'_>> as Deref>::deref$", m_ctx_deref),
        (r"^<GenericToken<Cow<'_, str>> as antlr4rust::token::Token>::get_text$", m_token_text),
        (r"^Option::<.*>::(is_some|is_none)$", lambda e, m, a: (deref(e, a[0])[0] == "Some") == (m.group(1) == "is_some")),
        (r"^<Box<GenericToken<Cow<'_, str>>> as (?:AsRef<GenericToken<Cow<'_, str>>>>::as_ref|Deref>::deref)$", lambda e, m, a: deref(e, a[0])[0][0] if isinstance(deref(e, a[0]), list) else a[0]),
        (r"^Option::<Box<GenericToken<Cow<'_, str>>>>::as_ref$", m_as_ref),
        (r"^Option::<Box<GenericToken<Cow<'_, str>>>>::as_deref$", lambda e, m, a: ("Some", deref(e, a[0])[1][0][0]) if deref(e, a[0])[0] == "Some" else ("None",)),
        (r"^Option::<&(?:Box<)?GenericToken<Cow<'_, str>>>?>::expect$", m_expect),
        (r"^<String as Deref>::deref$", lambda e, m, a: a[0]),
        (r"^String::as_str$", lambda e, m, a: a[0]),
        (r"^core::str::<impl str>::strip_prefix::<(?:&str|char)>$", m_strip_prefix),
        (r"^core::str::<impl str>::starts_with::<(?:&str|char)>$", m_starts_with),
        (r"^core::str::<impl str>::strip_suffix::<(?:&str|char)>$", m_strip_suffix),
        (r"^core::num::<impl (i64|u64|i128|u128)>::from_str_radix$", m_from_str_radix),
        (r"^core::str::<impl str>::parse::<(i64|u64|i128|u128)>$", m_parse_int),
        (r"^<(i64|u64|i128|u128) as FromStr>::from_str$", m_parse_int),
        (r"^core::str::<impl str>::parse::<f64>$", m_parse_f64),
        (r"^(?:core|std)::f64::<impl f64>::(is_finite|is_infinite|is_nan|is_sign_negative|is_sign_positive|is_normal)$", lambda e, m, a: fp_pred(m.group(1))(e, m, a)),
        (r"^(?:core|std)::f64::<impl f64>::abs$", m_fp_abs),
        (r"^core::num::<impl (i64|i128)>::checked_neg$", m_checked_neg),
        (r"^<(i64|u64) as TryFrom<(?:i128|u128|u64|i64)>>::try_from$", m_try_from_int),
        (r"^String::len$", m_len),
        (r"^core::str::<impl str>::len$", m_len),
        (r"^String::truncate$", m_truncate),
        (r"^String::pop$", m_pop),
        (r"^core::fmt::rt::Argument::<'_>::new_display::<&str>$", m_fmt_arg),
        (r"^Arguments::<'_>::new::<\d+, \d+>$", m_fmt_new),
        (r"^(?:alloc::fmt::|std::fmt::)?format$", m_format),
        (r"^Result::<.*>::map::<.*\{closure@.*\}>$", ext_res_map),
        (r"^Result::<.*>::map_err::<.*\{closure@.*\}>$", ext_res_map_err),
        (r"^Result::<.*>::and_then::<.*\{closure@.*\}>$", ext_res_and_then),
        (r"^Result::<.*>::(ok|err)$", ext_res_ok),
        (r"^Option::<.*>::map::<.*>$", ext_option_map),
        (r"^Option::<.*>::and_then::<.*>$", ext_opt_and_then),
        (r"^ParserHelper::next_expr$", m_next_expr),
        (r"^parser::Parser::report_error::<.*>$", m_report_error),
    ] + STD_MODELS

    mag = z3.Int("magnitude")

    def run(method, neg, hexa, ty):
        stats["scenarios"] += 1
        desc = {"method": method, "negative": neg, "hex": hexa}
        fn = find(method)
        eng = Engine(fns, consts, extern)
        eng.discriminants = {"Result::Ok": 0, "Result::Err": 1}
        eng.model_inputs = lambda: {"magnitude": eng.solver.model().eval(mag, model_completion=True).as_long()}
        lo, hi = LIMITS[ty]
        variant = "Val::Int" if ty == "i64" else "Val::UInt"

        def entry(e):
            cur.clear()
            cur.update({"events": [], "text": Lit(neg, hexa, 16 if hexa else 10, mag, usuffix=(ty == "u64"))})
            return e.call_fn(fn, [Ref({0: [Opaque("parser"), Opaque("helper"), Opaque("x")]}, 0, ()), Opaque("ctx")])

        def on_path(res, e):
            denoted = -mag if neg else mag
            evs = cur["events"]
            probs = []
            in_range = z3.And(denoted >= lo, denoted <= hi)
            if len(evs) != 1:
                probs.append("the method does not end in exactly one of next_expr / report_error: %s" % [x[0] for x in evs])
            elif evs[0][0] == "next_expr":
                ex = evs[0][1]
                okshape = isinstance(ex, tuple) and ex[1] == "Expr::Literal" and ex[2][0][1] == variant
                if not okshape:
                    probs.append("the node is not a %s literal: %r" % (variant, str(ex)[:200]))
                else:
                    v = ex[2][0][2][0]
                    if e.check(z3.Not(z3.And(in_range, v == denoted))):
                        mdl = e.solver.model()
                        k = mdl.eval(mag, model_completion=True).as_long()
                        probs.append("for magnitude %d the literal evaluates to %s, not to the number it denotes (%d)" % (k, mdl.eval(v, model_completion=True), -k if neg else k))
                        desc2["magnitude"] = k
            else:
                if e.check(in_range):
                    k = e.solver.model().eval(mag, model_completion=True).as_long()
                    probs.append("a literal within range is rejected: magnitude %d (denotes %d)" % (k, -k if neg else k))
                    desc2["magnitude"] = k
            if probs:
                failures.append(dict(desc2, problems=probs))
            else:
                stats["proved"] += 1
                if len(samples) < 20:
                    samples.append(dict(desc, outcome=evs[0][0]))
        desc2 = dict(desc)
        try:
            eng.explore(entry, None, on_path, [mag >= 0, mag <= 2 ** 130])
        except PanicFound as p:
            mv = None
            if eng.violations and eng.violations[-1].get("model"):
                mv = eng.violations[-1]["model"].get("magnitude")
            failures.append(dict(desc, problems=["panic reachable: %s" % p.msg], magnitude=mv))
        for k in ("paths", "queries"):
            stats[k] += eng.stats[k]
        stats["solver_s"] += eng.stats["solver_s"]
        stats["functions"] |= eng.stats["functions"]

    def run_double():
        stats["scenarios"] += 1
        desc = {"method": "visit_Double"}
        fn = find("visit_Double")
        eng = Engine(fns, consts, extern)
        eng.discriminants = {"Result::Ok": 0, "Result::Err": 1}

        def entry(e):
            cur.clear()
            cur.update({"events": [], "text": Lit(False, False, 10, mag)})
            return e.call_fn(fn, [Ref({0: [Opaque("parser"), Opaque("helper"), Opaque("x")]}, 0, ()), Opaque("ctx")])

        def on_path(res, e):
            evs = [x for x in cur["events"] if x[0] != "parse_f64"]
            mdl = e.solver.model() if e.check() else None
            okp = mdl is not None and z3.is_true(mdl.eval(z3.Bool("f64_parse_ok"), model_completion=True))
            probs = []
            if len(evs) != 1:
                probs.append("not exactly one of next_expr / report_error")
            elif evs[0][0] == "next_expr":
                # accepted: only possible for a parse that succeeded, the node carries the parsed value itself, and no
                # non-finite value can have come this way
                ex = evs[0][1]
                if not okp or not (ex and ex[1] == "Expr::Literal" and ex[2][0][1] == "Val::Double" and is_sym(ex[2][0][2][0]) and ex[2][0][2][0].eq(PARSED)):
                    probs.append("an accepted double literal does not become Val::Double of the parsed value: %r" % (str(evs[0])[:200],))
                elif e.check(z3.Not(fp_finite(PARSED))):
                    w = e.solver.model().eval(PARSED, model_completion=True)
                    probs.append("an out-of-range (infinite) double literal is accepted: parse result %s" % w)
            elif evs[0][0] == "report_error":
                if okp and not e.check(z3.Not(fp_finite(PARSED))):
                    probs.append("a finite double literal is rejected")
            else:
                probs.append("neither a literal node nor a reported error: %r" % (str(evs[0])[:120],))
            if probs:
                failures.append(dict(desc, problems=probs))
            else:
                stats["proved"] += 1
        try:
            eng.explore(entry, None, on_path, [z3.Not(z3.fpIsNaN(PARSED))] if "visit_Double" in str(desc) or True else [])
        except PanicFound as p:
            failures.append(dict(desc, problems=["panic reachable: %s" % p.msg]))
        for k in ("paths", "queries"):
            stats[k] += eng.stats[k]
        stats["solver_s"] += eng.stats["solver_s"]
        stats["functions"] |= eng.stats["functions"]

    try:
        for neg in (False, True):
            for hexa in (False, True):
                run("visit_Int", neg, hexa, "i64")
        for hexa in (False, True):
            run("visit_Uint", False, hexa, "u64")
        run_double()
    except Unsupported as u:
        status = 2
        print("INCONCLUSIVE: unsupported: %s" % u)
    if failures:  # a counterexample stands even if a later scenario met an unmodelled call (it is replayed natively anyway)
        status = 1
    out = {"functions_encoded": sorted(stats["functions"]), "scenarios": stats["scenarios"], "paths": stats["paths"], "paths_proved": stats["proved"],
           "queries": stats["queries"], "solver_s": round(stats["solver_s"], 2), "wall_s": round(time.time() - t0, 2), "failures": failures[:12], "samples": samples}
    if outp:
        json.dump(out, open(outp, "w"), indent=1)
    for f in failures[:6]:
        print("COUNTEREXAMPLE " + json.dumps(f)[:700])
    print("mirsym numeric_literals: %d scenarios, %d paths, %d proved, %d failures, %d queries, %.1fs solver, %.1fs wall" % (
        stats["scenarios"], stats["paths"], stats["proved"], len(failures), stats["queries"], stats["solver_s"], out["wall_s"]))
    return status


if __name__ == "__main__":
    sys.exit(main())
