#!/usr/bin/env python3
"""C15 (format half) decided on the MIR of duration::format_duration / format_float / format_int.

For every i64 nanosecond count n (TimeDelta::num_nanoseconds modelled as returning Some(n), n an
unconstrained mathematical integer in the i64 range) every feasible path of the real MIR is
executed; on each path the produced bytes have a concrete shape (unit letters, '.', '-') with
symbolic digits, and z3 must prove (unsat of the negation) that
  * the text reads back to exactly n (exact integer arithmetic), and
  * it is the canonical Go spelling (unit sequence determined by the magnitude, no leading zeros,
    no trailing fraction zeros, minutes/seconds below 60 after a larger unit),
and that no overflow / bounds `assert` in the three functions can fail.

usage: c15_format.py <mir-file> [--json out.json] [--scenario in_range|beyond]
exit 0: all paths proved; 1: a counterexample (printed as JSON line `COUNTEREXAMPLE {...}`);
2: inconclusive (unsupported MIR construct, solver unknown).
"""
import json
import sys
import time
import z3
import os
sys.path.insert(0, os.path.dirname(os.path.abspath(__file__)))
from mirsym import Engine, parse_mir, STD_MODELS, Unsupported, PanicFound, is_sym

I64_MIN, I64_MAX = -2 ** 63, 2 ** 63 - 1


def digit_value(e, b):
    """b is a byte (int or z3 expr). returns (is_const_char, value) ; digits are returned as z3/int digit values"""
    if isinstance(b, int):
        if 48 <= b <= 57:
            return ("digit", b - 48)
        return ("char", b)
    # symbolic byte: must be a digit on this path
    if e.check(z3.Or(b < 48, b > 57)):
        return ("bad", b)
    return ("digit", b - 48)


def canonical_formula(e, bs, n):
    """returns (ok_formula or None if structurally wrong, description)"""
    toks = [digit_value(e, b) for b in bs]
    if any(t[0] == "bad" for t in toks):
        return None, "a symbolic byte that is not provably a digit"
    i = 0
    neg = False
    if toks and toks[0] == ("char", 45):
        neg = True
        i = 1
    terms = []  # (int_digits, frac_digits, unit)
    while i < len(toks):
        ints, fracs = [], []
        while i < len(toks) and toks[i][0] == "digit":
            ints.append(toks[i][1])
            i += 1
        if i < len(toks) and toks[i] == ("char", 46):
            i += 1
            while i < len(toks) and toks[i][0] == "digit":
                fracs.append(toks[i][1])
                i += 1
            if not fracs:
                return None, "'.' without digits"
        rest = [t[1] for t in toks[i:i + 3]]
        if rest[:2] == [110, 115]:
            unit, ul = "ns", 2
        elif rest[:3] == [0xC2, 0xB5, 115]:
            unit, ul = "us", 3
        elif rest[:2] == [109, 115]:
            unit, ul = "ms", 2
        elif rest[:1] == [115]:
            unit, ul = "s", 1
        elif rest[:1] == [109]:
            unit, ul = "m", 1
        elif rest[:1] == [104]:
            unit, ul = "h", 1
        else:
            return None, "unknown unit at byte %d" % i
        if not ints:
            return None, "unit without a number"
        terms.append((ints, fracs, unit))
        i += ul
    units = [t[2] for t in terms]
    if units not in (["h", "m", "s"], ["m", "s"], ["s"], ["ms"], ["us"], ["ns"]):
        return None, "unit sequence %s is not canonical" % units
    scale = {"h": 3600 * 10 ** 9, "m": 60 * 10 ** 9, "s": 10 ** 9, "ms": 10 ** 6, "us": 10 ** 3, "ns": 1}
    places = {"s": 9, "ms": 6, "us": 3, "ns": 0}
    conds = []
    total = 0
    for k, (ints, fracs, unit) in enumerate(terms):
        val = 0
        for d in ints:
            val = val * 10 + d
        if len(ints) > 1:
            conds.append(ints[0] != 0)  # no leading zero
        if fracs:
            if k != len(terms) - 1 or unit not in places or len(fracs) > places[unit]:
                return None, "fraction where none is allowed"
            conds.append(fracs[-1] != 0)  # no trailing zero
            f = 0
            for d in fracs:
                f = f * 10 + d
            f = f * 10 ** (places[unit] - len(fracs))
            total = total + f
        total = total + val * scale[unit]
        if k == 0:
            # the first term is non-zero, except for the text "0s"
            if not (units == ["s"] and len(ints) == 1 and not fracs and isinstance(ints[0], int) and ints[0] == 0):
                conds.append(val >= 1)
        if unit in ("ms", "us", "ns"):
            conds.append(val < 1000)
        if unit == "m" and k > 0:
            conds.append(val < 60)
        if unit == "m" and k == 0:
            conds.append(val < 60)
        if unit == "s":
            conds.append(val < 60)
    mag = z3.If(n < 0, -n, n)
    conds.append(total == mag)
    conds.append((n < 0) if neg else (n >= 0))
    if units == ["s"] and len(terms[0][0]) == 1 and not terms[0][1] and isinstance(terms[0][0][0], int) and terms[0][0][0] == 0:
        conds.append(n == 0)
        if neg:
            return None, "negative zero"
    return z3.And(*[c if is_sym(c) else z3.BoolVal(bool(c)) for c in conds]), "ok"


def render(bs, model):
    out = bytearray()
    for b in bs:
        if isinstance(b, int):
            out.append(b)
        else:
            out.append(model.eval(b, model_completion=True).as_long() % 256)
    return out.decode("utf-8", "replace")


CUTS = [0, 10 ** 3, 10 ** 6, 10 ** 9, 60 * 10 ** 9, 3600 * 10 ** 9, 36 * 10 ** 12, 36 * 10 ** 13, 36 * 10 ** 14,
        36 * 10 ** 15, 36 * 10 ** 16, 36 * 10 ** 17, 2 ** 63 + 1]
CUTS_CHRONO = CUTS[:-1] + [36 * 10 ** 18, 36 * 10 ** 19, 36 * 10 ** 20, 36 * 10 ** 21, 36 * 10 ** 22, 36 * 10 ** 23, 36 * 10 ** 24,
                           (2 ** 63 - 1) * 10 ** 6 + 1]


def run_parallel(mir, outp, jobs, scenario="in_range"):
    """partition the i64 domain into magnitude intervals x sign and run one process per part"""
    import subprocess
    from concurrent.futures import ThreadPoolExecutor
    t0 = time.time()
    parts = []
    cuts = CUTS if scenario == "in_range" else CUTS_CHRONO
    top = 2 ** 63 if scenario == "in_range" else (2 ** 63 - 1) * 10 ** 6
    for k in range(len(cuts) - 1):
        lo, hi = cuts[k], cuts[k + 1] - 1
        parts.append((lo, min(hi, top - 1 if scenario == "in_range" else top), "pos"))
        if hi >= 1:
            parts.append((max(lo, 1), min(hi, top), "neg"))
    max_mag = int(sys.argv[sys.argv.index("--max-mag") + 1]) if "--max-mag" in sys.argv else None
    if max_mag is not None:
        parts = [(lo, min(hi, max_mag - 1), sg) for lo, hi, sg in parts if lo < max_mag]
    # the expensive parts (large magnitudes) first, so that the pool stays busy
    parts.sort(key=lambda p: -p[0])
    tmpd = os.path.join(os.path.dirname(outp) if outp else "/tmp", "mirsym_parts")
    os.makedirs(tmpd, exist_ok=True)

    def one(part):
        lo, hi, sign = part
        pj = os.path.join(tmpd, "c15_%s_%d.json" % (sign, lo))
        if os.path.exists(pj):
            os.remove(pj)
        p = subprocess.run([sys.executable, os.path.abspath(__file__), mir, "--json", pj, "--mag-lo", str(lo), "--mag-hi", str(hi),
                            "--sign", sign, "--scenario", scenario], capture_output=True, text=True)
        r = json.load(open(pj)) if os.path.exists(pj) else {"note": "no result: " + p.stderr[-500:], "paths": 0, "paths_proved": 0, "queries": 0,
                                                              "assert_obligations": 0, "mir_steps": 0, "solver_s": 0, "counterexamples": [], "panics": [], "samples": [], "functions_encoded": []}
        r["part"] = {"magnitude": [lo, hi], "sign": sign}
        r["rc"] = p.returncode
        return r
    with ThreadPoolExecutor(max_workers=jobs) as ex:
        rs = list(ex.map(one, parts))
    agg = {"scenario": scenario, "parts": len(rs),
           "domain": "n: every %s%s; partitioned into %d magnitude intervals x sign, their union is the whole domain" % (
               "i64 nanosecond count" if scenario == "in_range" else "chrono duration (+-i64::MAX ms, as an exact nanosecond count)",
               (" with |n| < %d" % max_mag) if max_mag is not None else "", len(parts)),
           "functions_encoded": sorted({f for r in rs for f in r["functions_encoded"]}),
           "paths": sum(r["paths"] for r in rs), "paths_proved": sum(r["paths_proved"] for r in rs),
           "queries": sum(r["queries"] for r in rs), "assert_obligations": sum(r["assert_obligations"] for r in rs),
           "mir_steps": sum(r["mir_steps"] for r in rs), "solver_s": round(sum(r["solver_s"] for r in rs), 1),
           "wall_s": round(time.time() - t0, 1),
           "counterexamples": [c for r in rs for c in r["counterexamples"]][:20],
           "panics": [c for r in rs for c in r["panics"]][:20],
           "samples": [s for r in rs for s in r["samples"][:2]][:24],
           "notes": [r["note"] for r in rs if r.get("note")],
           "part_status": [{"part": r["part"], "rc": r["rc"], "paths": r["paths"]} for r in rs],
           "solver": rs[0].get("solver", "z3")}
    if outp:
        json.dump(agg, open(outp, "w"), indent=1)
    for c in agg["counterexamples"][:5]:
        print("COUNTEREXAMPLE " + json.dumps(c))
    for c in agg["panics"][:5]:
        print("PANIC " + json.dumps(c))
    print("mirsym c15_format: %d parts, %d paths, %d proved, %d counterexamples, %d reachable panics, %d queries, %.0fs solver, %.0fs wall" % (
        len(rs), agg["paths"], agg["paths_proved"], len(agg["counterexamples"]), len(agg["panics"]), agg["queries"], agg["solver_s"], agg["wall_s"]))
    if any(r["rc"] == 1 for r in rs):
        return 1
    if any(r["rc"] != 0 for r in rs):
        return 2
    return 0


def main():
    mir = sys.argv[1]
    if "--parallel" in sys.argv:
        return run_parallel(mir, sys.argv[sys.argv.index("--json") + 1] if "--json" in sys.argv else None,
                            int(sys.argv[sys.argv.index("--parallel") + 1]),
                            sys.argv[sys.argv.index("--scenario") + 1] if "--scenario" in sys.argv else "in_range")
    outp = sys.argv[sys.argv.index("--json") + 1] if "--json" in sys.argv else None
    scenario = sys.argv[sys.argv.index("--scenario") + 1] if "--scenario" in sys.argv else "in_range"
    t0 = time.time()
    fns, consts = parse_mir(open(mir).read())
    entry = fns.get("format_duration") or next((f for k, f in fns.items() if k.endswith("format_duration")), None)
    if entry is None:
        print("INCONCLUSIVE: format_duration not found in the MIR dump")
        return 2
    # n is the exact nanosecond count; chrono's accessors return whole seconds truncated toward zero
    # (secs) and the remaining nanoseconds of the same sign (subsec), tied to n by the base constraints
    n = z3.Int("n")
    secs = z3.Int("secs")
    subsec = z3.Int("subsec")
    counterexamples = []
    samples = []
    proved = [0]

    # the duration is described by the two accessors chrono offers: whole seconds truncated toward
    # zero and the sub-second nanoseconds carrying the same sign; n is the exact nanosecond count
    r = subsec
    CHRONO_MAX = (2 ** 63 - 1) * 10 ** 6  # i64::MAX milliseconds, in nanoseconds
    base = [n == secs * 10 ** 9 + subsec, subsec > -10 ** 9, subsec < 10 ** 9,
            z3.Or(z3.And(secs >= 0, subsec >= 0), z3.And(secs <= 0, subsec <= 0))]
    if scenario == "in_range":
        base += [n >= I64_MIN, n <= I64_MAX]
    else:
        base += [n >= -CHRONO_MAX, n <= CHRONO_MAX]
    if "--mag-lo" in sys.argv:
        lo = int(sys.argv[sys.argv.index("--mag-lo") + 1])
        hi = int(sys.argv[sys.argv.index("--mag-hi") + 1])
        sign = sys.argv[sys.argv.index("--sign") + 1]
        base += ([n <= -lo, n >= -hi] if sign == "neg" else [n >= lo, n <= hi])

    def m_num_nanoseconds(e, m, a):
        if e.decide(z3.And(n >= I64_MIN, n <= I64_MAX)):
            return ("Some", n)
        return ("None",)
    models = [(r"^TimeDelta::num_nanoseconds$", m_num_nanoseconds),
              (r"^TimeDelta::num_seconds$", lambda e, m, a: secs),
              (r"^TimeDelta::subsec_nanos$", lambda e, m, a: r),
              (r"^<i128 as (?:std::convert::)?From<i(?:64|32)>>::from$", lambda e, m, a: a[0]),
              (r"^core::num::<impl i128>::unsigned_abs$", lambda e, m, a: z3.If(a[0] < 0, -a[0], a[0]) if is_sym(a[0]) else abs(a[0]))]
    eng = Engine(fns, consts, models + STD_MODELS)

    def on_path(res, e):
        if not (isinstance(res, tuple) and res[0] == "bytes"):
            raise Unsupported("format_duration did not return text")
        bs = res[1]
        ok, why = canonical_formula(e, bs, n)
        if ok is None:
            assert e.check()
            mdl = e.solver.model()
            counterexamples.append({"n": mdl.eval(n, model_completion=True).as_long(), "text": render(bs, mdl), "why": why})
            return
        if e.check(z3.Not(ok)):
            mdl = e.solver.model()
            counterexamples.append({"n": mdl.eval(n, model_completion=True).as_long(), "text": render(bs, mdl),
                                    "why": "does not read back to n or is not the canonical spelling"})
        else:
            proved[0] += 1
            if len(samples) < 12:
                assert e.check()
                mdl = e.solver.model()
                samples.append({"shape": "".join(chr(b) if isinstance(b, int) else "D" for b in bs).replace("\xc2\xb5", "u"),
                                "witness_n": mdl.eval(n, model_completion=True).as_long(), "witness_text": render(bs, mdl)})

    status = 0
    note = ""
    try:
        eng.explore(entry, lambda e: [__import__("mirsym").Opaque("&TimeDelta")], on_path, base)
    except PanicFound as p:
        note = "panic reachable: " + p.msg
    except Unsupported as u:
        status = 2
        note = "unsupported: %s" % u
    # panics found on the way (overflow / bounds asserts that can fail)
    panics = eng.violations
    for v in panics:
        # attach a concrete input
        pass
    if counterexamples or panics:
        status = 1 if status == 0 else status
    res = {
        "scenario": scenario,
        "functions_encoded": sorted(eng.stats["functions"]),
        "paths": eng.stats["paths"], "paths_proved": proved[0], "queries": eng.stats["queries"],
        "assert_obligations": eng.stats["assert_obligations"], "mir_steps": eng.stats["steps"],
        "solver_s": round(eng.stats["solver_s"], 2), "wall_s": round(time.time() - t0, 2),
        "counterexamples": counterexamples[:10], "panics": panics[:10], "samples": samples, "note": note,
        "solver": "z3 " + z3.get_version_string() + " (linear integer arithmetic with div/mod by constants)",
    }
    if outp:
        json.dump(res, open(outp, "w"), indent=1)
    for c in counterexamples[:5]:
        print("COUNTEREXAMPLE " + json.dumps(c))
    for p in panics[:5]:
        print("PANIC " + json.dumps(p))
    print("mirsym c15_format [%s]: %d paths, %d proved, %d counterexamples, %d reachable panics, %d queries, %.1fs solver, %.1fs wall %s" % (
        scenario, res["paths"], proved[0], len(counterexamples), len(panics), res["queries"], res["solver_s"], res["wall_s"], note))
    return status


if __name__ == "__main__":
    sys.exit(main())
