#!/usr/bin/env python3
"""Node-level semantics of the evaluator, decided on the MIR of `Value::resolve`.

`Value::resolve` is executed symbolically from its entry for ONE `Expr::Call` node whose operator
name is concrete and whose operand expressions are abstract handles.  Every recursive
`Value::resolve(operand, ctx)` call is an *event* (recorded in order) that returns an arbitrary
result supplied by the scenario: an error value or `Ok(v)` with v of an enumerated scalar kind and a
symbolic payload.  Calls to the operator implementations on `Value` (`add`, `eq`, `partial_cmp`,
...) are uninterpreted applications - those functions are decided separately by the Kani harnesses
(C08, C09) - so what is proved here is the evaluator's own contribution, one inductive step of it:

  * operands are evaluated at most once, left to right, and the first error aborts the node;
  * `a && b` does not evaluate b when a is falsy, `a || b` does not evaluate b when a is truthy,
    `c ? x : y` evaluates exactly one of x and y (C06, at any nesting depth by induction on the
    tree: a skipped operand's `resolve` is never called, so nothing inside it happens);
  * each operator name is dispatched to its implementation with (left, right) in that order, the
    six relations map `partial_cmp` to Bool / ValuesNotComparable as CEL prescribes, `!=` is the
    negation of `==` (C09 evaluator half), unary minus is exact or an overflow error, never a
    panic (C08), `!` and `@not_strictly_false` follow truthiness.

usage: resolve_node.py <mir-file> <repo-root> [--json out.json]
exit 0 all scenarios proved / 1 counterexample / 2 inconclusive
"""
import itertools
import json
import os
import re
import sys
import time
import z3
sys.path.insert(0, os.path.dirname(os.path.abspath(__file__)))
import mirsym
from mirsym import Engine, parse_mir, STD_MODELS, Unsupported, PanicFound, Ref, Opaque, is_sym

EXPR_DISC = {"Expr::Unspecified": 0, "Expr::Call": 1, "Expr::Comprehension": 2, "Expr::Ident": 3, "Expr::List": 4,
             "Expr::Literal": 5, "Expr::Map": 6, "Expr::Select": 7, "Expr::Struct": 8}


def enum_order(src, decl):
    body = src[src.index(decl):]
    body = body[:body.index("\n}")]
    return re.findall(r"^\s{4}([A-Z]\w*)[\(,\n {]", body, re.M)


def operator_consts(repo):
    src = open(os.path.join(repo, "antlr/src/ast/operators.rs")).read()
    return dict(re.findall(r"pub const (\w+): &str = \"([^\"]*)\";", src))


class Node:
    """one scenario: operator name, operand results"""
    def __init__(self, name, results):
        self.name, self.results = name, results
        self.events = []


def truthy(v):
    """documented truthiness of scalar kinds (Value::to_bool) as a formula / bool"""
    kind, payload = v[1], v[2]
    if kind == "Value::Bool":
        return payload[0]
    if kind in ("Value::Int", "Value::UInt"):
        return payload[0] != 0
    if kind == "Value::Null":
        return False
    raise Unsupported("truthiness of " + kind)


def main():
    mir, repo = sys.argv[1], sys.argv[2]
    outp = sys.argv[sys.argv.index("--json") + 1] if "--json" in sys.argv else None
    t0 = time.time()
    fns, consts = parse_mir(open(mir).read())
    ops = operator_consts(repo)
    objects_src = open(os.path.join(repo, "interpreter/src/objects.rs")).read()
    ast_src = open(os.path.join(repo, "antlr/src/ast/mod.rs")).read()
    expr_names = enum_order(ast_src, "pub enum Expr {")
    if ["Expr::" + n for n in expr_names] != list(EXPR_DISC):
        print("INCONCLUSIVE: Expr variants changed: %s" % expr_names)
        return 2
    value_names = enum_order(objects_src, "pub enum Value {")
    cands = [f for n, f in fns.items() if n.endswith("::resolve") and n.startswith("objects")]
    if len(cands) != 1:
        print("INCONCLUSIVE: Value::resolve not found uniquely")
        return 2
    fn = cands[0]
    stats = {"scenarios": 0, "paths": 0, "proved": 0, "queries": 0, "solver_s": 0.0, "assert_obligations": 0, "functions": set()}
    failures, samples = [], []
    status = 0
    cur = {}

    # ---------------- models specific to this spec
    def m_vec_len(e, m, a):
        v = e.read_path(a[0].frame, a[0].local, list(a[0].proj))
        return len(v[1])

    def m_vec_index(e, m, a):
        r, k = a
        v = e.read_path(r.frame, r.local, list(r.proj))
        if k >= len(v[1]):
            e.violations.append({"kind": "panic", "message": "index out of bounds on call.args", "function": fn.name, "model": None})
            raise PanicFound("args index", None)
        return Ref(r.frame, r.local, list(r.proj) + [("field", 1), ("idx", k)])

    def m_string_eq_str(e, m, a):
        s = e.read_path(a[0].frame, a[0].local, list(a[0].proj))
        t = e.read_path(a[1].frame, a[1].local, list(a[1].proj))
        t = e.read_path(t.frame, t.local, list(t.proj)) if isinstance(t, Ref) else t
        return s[1] == t[1].decode()

    def m_as_str(e, m, a):
        s = e.read_path(a[0].frame, a[0].local, list(a[0].proj))
        if isinstance(s, tuple) and s[0] == "abs_string":
            return Ref({0: s}, 0, ())
        return ("str", s[1].encode())

    def m_str_eq(e, m, a):
        return a[0][1] == a[1][1]

    def m_strip_prefix(e, m, a):
        s = deref(e, a[0])
        if not (isinstance(s, tuple) and s[0] in ("str", "string")):
            raise Unsupported("strip_prefix on %r" % (str(s)[:60],))
        t = s[1].decode() if isinstance(s[1], bytes) else s[1]
        p = a[1][1] if isinstance(a[1], tuple) and a[1][0] == "char" else (a[1][1].decode() if isinstance(a[1][1], bytes) else a[1][1])
        return ("Some", ("str", t[len(p):].encode())) if t.startswith(p) else ("None",)

    def handle_of(h):
        """operands are real IdedExpr values of various shapes; their handle is the id field"""
        if isinstance(h, list) and len(h) == 2 and isinstance(h[0], tuple) and h[0][0] == "opid":
            return h[0][1]
        return h[1]

    def m_get_variable(e, m, a):
        # a variable lookup on behalf of an operand counts as evaluating that operand
        name = deref(e, a[1])
        idx = cur.get("ident_owner", {}).get(name[1] if isinstance(name, tuple) else name)
        cur["node"].events.append(("resolve", idx))
        if idx is None:
            raise Unsupported("lookup of an unknown identifier %r" % (name,))
        return cur["node"].results[idx] if not isinstance(idx, str) else cur["node"].results_by_handle[idx]

    def m_resolve(e, m, a):
        h = e.read_path(a[0].frame, a[0].local, list(a[0].proj))
        idx = handle_of(h)
        cur["node"].events.append(("resolve", idx))
        if cur["node"].events.count(("resolve", idx)) > 1:
            cur["double"] = True
        if isinstance(idx, str):
            return cur["node"].results_by_handle[idx]
        return cur["node"].results[idx]

    def m_try_branch(e, m, a):
        r = a[0]
        if r[1].endswith("Ok"):
            return ("enum", "ControlFlow::Continue", [r[2][0]])
        return ("enum", "ControlFlow::Break", [("enum", "Result::Err", [r[2][0]])])

    def m_from_residual(e, m, a):
        return ("enum", "Result::Err", [a[0][2][0]])

    def m_binop(opname):
        def f(e, m, a):
            cur["node"].events.append(("op", opname))
            return ("app", opname, a[0], a[1])
        return f

    def deref(e, x):
        return e.read_path(x.frame, x.local, list(x.proj)) if isinstance(x, Ref) else x

    def elem_index(v):
        """index of a numlist element (identified by its payload symbol), or None"""
        if isinstance(v, tuple) and len(v) == 3 and v[0] == "enum" and v[2] and is_sym(v[2][0]):
            mm = re.match(r"^le\d_(\d)$", str(v[2][0]))
            if mm:
                return int(mm.group(1))
        return None

    def m_eq(e, m, a):
        l, r = deref(e, a[0]), deref(e, a[1])
        j = elem_index(l) if elem_index(l) is not None else elem_index(r)
        if j is not None:
            cur["node"].events.append(("elem_eq", j, r if elem_index(l) is not None else l))
            return z3.Bool("elem_eq_%d" % j)
        cur["node"].events.append(("op", "eq"))
        cur["eq_args"] = (l, r)
        return cur["eq"]

    def m_ne(e, m, a):
        # PartialEq::ne is not overridden for Value: the language defines it as !eq
        l, r = deref(e, a[0]), deref(e, a[1])
        cur["node"].events.append(("op", "ne"))
        cur["eq_args"] = (l, r)
        return z3.Not(cur["eq"])

    def m_partial_cmp(e, m, a):
        l, r = deref(e, a[0]), deref(e, a[1])
        cur["node"].events.append(("op", "partial_cmp"))
        cur["cmp_args"] = (l, r)
        if e.decide(cur["cmp_some"]):
            return ("Some", ("enum", "Ordering", [cur["ord"]]))
        return ("None",)

    def m_option_ok_or_cmp(e, m, a):
        opt, err = a
        if opt[0] == "Some":
            return ("enum", "Result::Ok", [opt[1]])
        return ("enum", "Result::Err", [err])

    def m_ordering_eq(e, m, a):
        l, r = deref(e, a[0]), deref(e, a[1])
        l, r = deref(e, l), deref(e, r)
        return l[2][0] == r[2][0]

    def m_ordering_ne(e, m, a):
        l, r = deref(e, a[0]), deref(e, a[1])
        l, r = deref(e, l), deref(e, r)
        return l[2][0] != r[2][0]

    def m_value_into_result(e, m, a):
        return ("enum", "Result::Ok", [a[0]])

    def m_err_into_result(e, m, a):
        return ("enum", "Result::Err", [a[0]])

    def m_get_function(e, m, a):
        cur["node"].events.append(("get_function", a[1][1].decode()))
        if cur.get("declared") is None:
            raise Stop("function-call path")
        return ("Some", ("fnref",)) if cur["declared"] else ("None",)

    def m_ok_or_else(e, m, a):
        opt, clo = a
        if opt[0] == "Some":
            return ("enum", "Result::Ok", [opt[1]])
        cty = re.search(r"(\{closure@[^}]*\})>?$", m.group(0).replace("ExecutionError, ", "")).group(1)
        return ("enum", "Result::Err", [e.call_fn(e.closure_fn(cty), [clo])])

    def m_clone_identity(e, m, a):
        return deref(e, a[0])

    def vec_items(e, x):
        x = deref(e, x)
        if isinstance(x, tuple) and x[0] == "arc":
            x = x[1]
        if isinstance(x, tuple) and x[0] in ("vec", "vecv"):
            return x[1]
        raise Unsupported("vector expected: %r" % (str(x)[:60],))

    def m_vec_push(e, m, a):
        vec_items(e, a[0]).append(a[1])
        return ("unit",)

    def m_vec_extend(e, m, a):
        src = a[1]
        items = src[1] if isinstance(src, list) and src and src[0] == "expr_iter" else vec_items(e, src)
        vec_items(e, a[0]).extend(list(items))
        return ("unit",)

    def m_fctx_new(e, m, a):
        return [a[0], a[1], a[2], a[3], 0]

    def m_dyn_call(e, m, a):
        fctx = deref(e, a[1][0])
        cur["node"].events.append(("invoke",))
        if "fctx" not in cur:
            cur["fctx"] = list(fctx)   # the FunctionContext of the first invocation is what the obligations look at
        return cur.get("fn_result", ("enum", "Result::Ok", [("abs_val", "returned")]))

    def m_box_deref(e, m, a):
        b = deref(e, a[0])
        return b[0][0]

    class Stop(Exception):
        pass

    def m_mem_discriminant(e, m, a):
        v = deref(e, a[0])
        if not (isinstance(v, tuple) and v[0] == "enum" and v[1] in e.discriminants):
            raise Unsupported("mem::discriminant of %r" % (str(v)[:60],))
        return ("disc", e.discriminants[v[1]])

    def m_disc_cmp(e, m, a):
        l, r = deref(e, a[0]), deref(e, a[1])
        return (l[1] == r[1]) if m.group(1) == "eq" else (l[1] != r[1])

    def m_arc_deref(e, m, a):
        v = deref(e, a[0])
        return Ref({0: v[1]}, 0, ()) if isinstance(v, tuple) and v[0] == "arc" else a[0]

    def m_slice_get(e, m, a):
        v = deref(e, a[0])
        items = v[1]
        k = a[1]
        if is_sym(k):
            for j in range(len(items)):
                if e.decide(k == j):
                    return ("Some", Ref({0: items[j]}, 0, ()))
            e.solver.add(z3.Or(k < 0, k >= len(items)))
            return ("None",)
        return ("Some", Ref({0: items[k]}, 0, ())) if 0 <= k < len(items) else ("None",)

    def m_opt_cloned(e, m, a):
        o = a[0]
        return ("Some", deref(e, o[1])) if o[0] == "Some" else o

    def m_str_get_range(e, m, a):
        s_, rng = deref(e, a[0]), a[1]
        cur["node"].events.append(("str_get", rng[0], rng[1]))
        b = z3.Bool("str_get_is_some_%d" % len(cur["node"].events))
        if e.decide(b):
            return ("Some", ("abs_substr", s_, rng[0], rng[1]))
        return ("None",)

    def m_str_index_range(e, m, a):
        # slicing panics exactly where str::get would return None (out of range, not a char boundary)
        r = m_str_get_range(e, m, a)
        if r[0] == "None":
            e.violations.append({"kind": "panic", "message": "string slice index is out of range or not on a char boundary", "function": "index", "model": e.model_inputs() if e.check() else None})
            raise PanicFound("str slicing", None)
        return r[1]

    def m_str_index_incl(e, m, a):
        # `s[a..=b]` is `s[a..b+1]`
        rng = a[1]
        return m_str_index_range(e, m, [a[0], [rng[1], rng[2] + 1]])

    def m_str_len(e, m, a):
        s_ = deref(e, a[0])
        if isinstance(s_, tuple) and s_[0] in ("abs_string",):
            return z3.Int("strlen")
        if isinstance(s_, tuple) and s_[0] in ("str", "string"):
            return len(s_[1])
        raise Unsupported("len of %r" % (str(s_)[:60],))

    def m_map_get(e, m, a):
        mp, key = deref(e, a[0]), deref(e, a[1])
        cur["node"].events.append(("map_get", mp, key))
        b = z3.Bool("map_get_is_some_%d" % len(cur["node"].events))
        if e.decide(b):
            return ("Some", Ref({0: ("abs_val", "found")}, 0, ()))
        return ("None",)

    def m_list_contains(e, m, a):
        """<[Value]>::contains(needle): some element equals the needle (per-element outcomes for typed elements)"""
        x, y = deref(e, a[0]), deref(e, a[1])
        items = x[1] if isinstance(x, tuple) and x[0] == "vecv" else None
        if items and all(elem_index(it) is not None for it in items):
            out = []
            for it in items:
                cur["node"].events.append(("elem_eq", elem_index(it), y))
                out.append(z3.Bool("elem_eq_%d" % elem_index(it)))
            cur["node"].events.append(("list_contains", x, y))
            return z3.Or(*out)
        cur["node"].events.append(("list_contains", x, y))
        return z3.Bool("list_contains_%d" % len(cur["node"].events))

    def m_slice_iter(e, m, a):
        x = deref(e, a[0])
        if not (isinstance(x, tuple) and x[0] == "vecv"):
            raise Unsupported("iteration over %r" % (str(x)[:60],))
        return ["slice_iter", list(x[1]), 0]

    def m_iter_quantifier(e, m, a):
        it = deref(e, a[0])
        cty = re.search(r"(\{closure@[^}]*\})", m.group(0)).group(1)
        f = e.closure_fn(cty)
        want = m.group(1) == "any"
        while it[2] < len(it[1]):
            it[2] += 1
            r = e.call_fn(f, [Ref({0: a[1]}, 0, ()), Ref({0: it[1][it[2] - 1]}, 0, ())])
            if e.decide(r) == want:
                return want
        return not want

    def m_discriminant(e, m, a):
        v = deref(e, a[0])
        if isinstance(v, tuple) and v[0] == "enum":
            return ("discr", v[1])
        raise Unsupported("mem::discriminant of %r" % (str(v)[:60],))

    def m_sym_bool(tag):
        def f(e, m, a):
            x, y = deref(e, a[0]), deref(e, a[1])
            cur["node"].events.append((tag, x, y))
            return z3.Bool("%s_%d" % (tag, len(cur["node"].events)))
        return f

    # ---- concrete maps for the field-selection scenarios
    def key_text(k):
        v = k[2][0]
        if k[1] == "Key::String":
            return v[1]
        if k[1] == "Key::Bool":
            return "true" if v else "false"
        return str(v)

    def m_hm_keys(e, m, a):
        hm = deref(e, a[0])
        return ["keys_iter", [k for k, _ in hm[1]], 0]

    def m_keys_next(e, m, a):
        it = deref(e, a[0])
        if it[2] < len(it[1]):
            it[2] += 1
            return ("Some", Ref({0: it[1][it[2] - 1]}, 0, ()))
        return ("None",)

    def m_keys_any(e, m, a):
        it = deref(e, a[0])
        cty = re.search(r"(\{closure@[^}]*\})", m.group(0)).group(1)
        f = e.closure_fn(cty)
        want = m.group(1) == "any"
        while it[2] < len(it[1]):
            it[2] += 1
            r = e.call_fn(f, [Ref({0: a[1]}, 0, ()), Ref({0: it[1][it[2] - 1]}, 0, ())])
            if e.decide(r) == want:
                return want
        return not want

    def m_key_to_string(e, m, a):
        return ("string", key_text(deref(e, a[0])))

    def m_string_eq(e, m, a):
        return deref(e, a[0])[1] == deref(e, a[1])[1]

    def m_hm_get(e, m, a):
        hm, key = deref(e, a[0]), deref(e, a[1])
        cur["node"].events.append(("hm_get", key))
        for k, v in hm[1]:
            if k[1] == key[1] and k[2][0] == key[2][0]:
                return ("Some", Ref({0: v}, 0, ()))
        return ("None",)

    def m_has_function(e, m, a):
        nm = a[1]
        cur["node"].events.append(("has_function", nm[1].decode() if isinstance(nm[1], bytes) else nm[1]))
        return e.decide(z3.Bool("has_function"))

    def m_into_key(e, m, a):
        k = {"Arc<std::string::String>": "String", "bool": "Bool", "i64": "Int", "u64": "Uint"}[m.group(1)]
        return ("enum", "Key::" + k, [a[0]])

    extern = [
        (r"^<Arc<(?:Vec<Value>|std::string::String|HashMap<Key, Value>)> as Deref>::deref$", m_arc_deref),
        (r"^<Vec<Value> as Deref>::deref$", lambda e, m, a: a[0]),
        (r"^core::slice::<impl \[Value\]>::get::<usize>$", m_slice_get),
        (r"^std::option::Option::<&Value>::cloned$", m_opt_cloned),
        (r"^std::option::Option::<Value>::unwrap_or$", lambda e, m, a: a[0][1] if a[0][0] == "Some" else a[1]),
        (r"^core::str::<impl str>::get::<std::ops::Range<usize>>$", m_str_get_range),
        (r"^<str as Index<std::ops::Range<usize>>>::index$", m_str_index_range),
        (r"^<(?:str|std::string::String) as Index<std::ops::RangeInclusive<usize>>>::index$", m_str_index_incl),
        (r"^std::ops::RangeInclusive::<usize>::new$", lambda e, m, a: ("range_incl", a[0], a[1])),
        (r"^(?:std::string::String|core::str::<impl str>)::len$", m_str_len),
        (r"^<std::string::String as Index<std::ops::Range<usize>>>::index$", m_str_index_range),
        (r"^<str as ToString>::to_string$", lambda e, m, a: ("string_of", a[0])),
        (r"^(?:objects::)?Map::get$", m_map_get),
        (r"^HashMap::<Key, Value>::keys$", m_hm_keys),
        (r"^<std::collections::hash_map::Keys<'_, Key, Value> as IntoIterator>::into_iter$", lambda e, m, a: a[0]),
        (r"^<std::collections::hash_map::Keys<'_, Key, Value> as Iterator>::next$", m_keys_next),
        (r"^<std::collections::hash_map::Keys<'_, Key, Value> as Iterator>::(any|all)::<.*>$", m_keys_any),
        (r"^<Key as ToString>::to_string$", m_key_to_string),
        (r"^<std::string::String as PartialEq>::eq$", m_string_eq),
        (r"^HashMap::<Key, Value>::get::<Key>$", m_hm_get),
        (r"^context::Context::<'_>::has_function$", m_has_function),
        (r"^<str as ToOwned>::to_owned$", lambda e, m, a: ("string", a[0][1].decode() if isinstance(a[0][1], bytes) else a[0][1])),
        (r"^<Value as (?:std::convert::)?Into<Box<Value>>>::into$", lambda e, m, a: ("box", a[0])),
        (r"^HashMap::<Key, Value>::contains_key::<Key>$", m_sym_bool("contains_key")),
        (r"^core::slice::<impl \[Value\]>::contains$", m_list_contains),
        (r"^core::slice::<impl \[Value\]>::iter$", m_slice_iter),
        (r"^<std::slice::Iter<'_, Value> as Iterator>::(any|all)::<.*>$", m_iter_quantifier),
        (r"^core::str::<impl str>::contains::<&(?:str|std::string::String)>$", m_sym_bool("str_contains")),
        (r"^core::str::<impl str>::len$", lambda e, m, a: z3.Int("strlen")),
        (r"^std::string::String::len$", lambda e, m, a: z3.Int("strlen")),
        (r"^<(Arc<std::string::String>|bool|i64|u64) as (?:std::convert::)?Into<Key>>::into$", m_into_key),
        (r"^<&std::string::String as Deref>::deref$", lambda e, m, a: deref(e, a[0])),
        (r"^std::option::Option::<&Box<dyn .*>>::ok_or_else::<ExecutionError, \{closure@.*\}>$", m_ok_or_else),
        (r"^<std::string::String as Clone>::clone$", m_clone_identity),
        (r"^<std::string::String as (?:std::convert::)?Into<Arc<std::string::String>>>::into$", lambda e, m, a: a[0]),
        (r"^<Vec<Expression> as Clone>::clone$", m_clone_identity),
        (r"^FunctionContext::<'_>::new$", m_fctx_new),
        (r"^<Box<dyn .*> as Fn<\(&mut FunctionContext<'_>,\)>>::call$", m_dyn_call),
        (r"^<Box<Expression> as Deref>::deref$", m_box_deref),
        (r"^(?:std::mem::)?discriminant::<Value>$", m_mem_discriminant),
        (r"^<(?:std::mem::)?Discriminant<Value> as PartialEq>::(eq|ne)$", m_disc_cmp),
        (r"^Vec::<Expression>::len$", m_vec_len),
        (r"^<Vec<Expression> as Index<usize>>::index$", m_vec_index),
        (r"^<std::string::String as PartialEq<&str>>::eq$", m_string_eq_str),
        (r"^std::string::String::as_str$", m_as_str),
        (r"^Vec::<Expression>::(?:with_capacity|new)$", lambda e, m, a: ("vec", [])),
        (r"^Vec::<Expression>::push$", m_vec_push),
        (r"^Vec::<Expression>::len$", lambda e, m, a: len(vec_items(e, a[0]))),
        (r"^Vec::<Expression>::is_empty$", lambda e, m, a: len(vec_items(e, a[0])) == 0),
        (r"^HashMap::<Key, Value>::len$", lambda e, m, a: z3.Int("maplen")),
        (r"^Vec::<u8>::len$", lambda e, m, a: z3.Int("byteslen")),
        (r"^(?:Vec::<Value>|core::slice::<impl \[Value\]>)::len$", lambda e, m, a: len(vec_items(e, deref(e, a[0])[1] if isinstance(deref(e, a[0]), tuple) and deref(e, a[0])[0] == "arc" else a[0])) if True else 0),
        (r"^<Vec<Expression> as Deref>::deref$", lambda e, m, a: a[0]),
        (r"^core::slice::<impl \[Expression\]>::iter$", lambda e, m, a: ["expr_iter", list(vec_items(e, a[0]))]),
        (r"^<std::slice::Iter<'_, Expression> as Iterator>::cloned::<.*>$", lambda e, m, a: a[0]),
        (r"^<Vec<Expression> as Extend<Expression>>::extend::<.*>$", m_vec_extend),
        (r"^Vec::<Expression>::extend_from_slice$", m_vec_extend),
        (r"^Vec::<Expression>::insert$", lambda e, m, a: (vec_items(e, a[0]).insert(a[1], a[2]), ("unit",))[1]),
        (r"^<(?:IdedExpr|Expression) as Clone>::clone$", lambda e, m, a: deref(e, a[0])),
        (r"^core::str::<impl str>::strip_prefix::<(?:char|&str)>$", m_strip_prefix),
        (r"^std::option::Option::<&str>::unwrap_or$", lambda e, m, a: a[0][1] if a[0][0] == "Some" else a[1]),
        (r"^<std::string::String as Deref>::deref$", m_as_str),
        (r"^<str as PartialEq>::eq$", m_str_eq),
        (r"^Value::resolve$", m_resolve),
        (r"^context::Context::<'_>::get_variable::<.*>$", m_get_variable),
        (r"^<std::result::Result<.*, ExecutionError> as Try>::branch$", m_try_branch),
        (r"^<std::result::Result<Value, ExecutionError> as FromResidual<std::result::Result<Infallible, ExecutionError>>>::from_residual$", m_from_residual),
        (r"^<Value as Add>::add$", m_binop("add")), (r"^<Value as Sub>::sub$", m_binop("sub")),
        (r"^<Value as Mul>::mul$", m_binop("mul")), (r"^<Value as Div>::div$", m_binop("div")),
        (r"^<Value as Rem>::rem$", m_binop("rem")),
        (r"^<Value as PartialEq>::eq$", m_eq), (r"^<Value as PartialEq>::ne$", m_ne),
        (r"^<Value as PartialOrd>::partial_cmp$", m_partial_cmp),
        (r"^std::option::Option::<std::cmp::Ordering>::ok_or::<ExecutionError>$", m_option_ok_or_cmp),
        (r"^<std::cmp::Ordering as PartialEq>::eq$", m_ordering_eq),
        (r"^<std::cmp::Ordering as PartialEq>::ne$", m_ordering_ne),
        (r"^<Value as (?:std::convert::)?Into<std::result::Result<Value, ExecutionError>>>::into$", m_value_into_result),
        (r"^<ExecutionError as (?:std::convert::)?Into<std::result::Result<Value, ExecutionError>>>::into$", m_err_into_result),
        (r"^context::Context::<'_>::get_function$", m_get_function),
    ] + STD_MODELS

    def ext_const(name):
        short = name.split("::")[-1]
        if "operators::" in name and short in ops:
            return ("str", ops[short].encode())
        m = re.match(r"^std::cmp::Ordering::(Less|Equal|Greater)$", name)
        if m:
            return ("enum", "Ordering", [{"Less": -1, "Equal": 0, "Greater": 1}[m.group(1)]])
        return None

    def new_engine():
        e = Engine(fns, consts, extern)
        e.discriminants = dict(EXPR_DISC)
        e.discriminants.update({"Value::" + n: k for k, n in enumerate(value_names)})
        e.discriminants.update({"ControlFlow::Continue": 0, "ControlFlow::Break": 1, "Result::Ok": 0, "Result::Err": 1})
        e.ext_const = ext_const

        def model_inputs():
            mdl = e.solver.model()
            return {"ints": [mdl.eval(x, model_completion=True).as_long() for x in (i0, i1, i2)],
                    "bools": [z3.is_true(mdl.eval(x, model_completion=True)) for x in (b0, b1, b2)]}
        e.model_inputs = model_inputs
        e.unit_variants = {k: ("enum", "Ordering", [v]) for k, v in (("Less", -1), ("Equal", 0), ("Greater", 1))}
        e.unit_variants.update({"std::cmp::Ordering::" + k: v for k, v in list(e.unit_variants.items())})
        e.unit_variants.update({"Value::Null": ("enum", "Value::Null", []), "objects::Value::Null": ("enum", "Value::Null", [])})
        return e

    # ---------------- scenarios
    i0, i1, i2 = z3.Int("p0"), z3.Int("p1"), z3.Int("p2")
    b0, b1, b2 = z3.Bool("b0"), z3.Bool("b1"), z3.Bool("b2")

    def results_for(k, pay_i, pay_b):
        return {
            "err": ("enum", "Result::Err", [("abs_err", k)]),
            "bool": ("enum", "Result::Ok", [("enum", "Value::Bool", [pay_b])]),
            "int": ("enum", "Result::Ok", [("enum", "Value::Int", [pay_i])]),
            "uint": ("enum", "Result::Ok", [("enum", "Value::UInt", [pay_i])]),
            "null": ("enum", "Result::Ok", [("enum", "Value::Null", [])]),
            # a double with an arbitrary IEEE-754 payload (unary minus scenarios)
            "float": ("enum", "Result::Ok", [("enum", "Value::Float", [z3.FP("f%d" % k, z3.Float64())])]),
            # heap-backed kinds, used by the index / membership scenarios: a list of two abstract
            # elements, an abstract string, an abstract map
            "list": ("enum", "Result::Ok", [("enum", "Value::List", [("arc", ("vecv", [("abs_val", "l%d_0" % k), ("abs_val", "l%d_1" % k)]))])]),
            # a list of two numbers of different kinds with symbolic payloads (membership scenarios): whether an element
            # equals the needle is a free boolean per element (numeric equality across kinds is decided under C09)
            "numlist": ("enum", "Result::Ok", [("enum", "Value::List", [("arc", ("vecv", [("enum", "Value::UInt", [z3.Int("le%d_0" % k)]), ("enum", "Value::Int", [z3.Int("le%d_1" % k)])]))])]),
            "string": ("enum", "Result::Ok", [("enum", "Value::String", [("arc", ("abs_string", "s%d" % k))])]),
            "map": ("enum", "Result::Ok", [("enum", "Value::Map", [[("arc", ("abs_map", "m%d" % k))]])]),
        }
    R = [results_for(0, i0, b0), results_for(1, i1, b1), results_for(2, i2, b2)]
    base = [i0 >= -2 ** 63, i0 <= 2 ** 63 - 1, i1 >= -2 ** 63, i1 <= 2 ** 63 - 1, i2 >= -2 ** 63, i2 <= 2 ** 63 - 1]
    kinds = ["err", "bool", "int", "uint", "null"]
    eq_sym, cmp_some, ord_sym = z3.Bool("eq_result"), z3.Bool("cmp_is_some"), z3.Int("ordering")
    base += [ord_sym >= -1, ord_sym <= 1]

    binary = ["ADD", "SUBSTRACT", "MULTIPLY", "DIVIDE", "MODULO", "EQUALS", "NOT_EQUALS", "LESS", "LESS_EQUALS", "GREATER",
              "GREATER_EQUALS", "LOGICAL_OR", "LOGICAL_AND"]
    unary = ["LOGICAL_NOT", "NEGATE", "NOT_STRICTLY_FALSE"]
    missing = [o for o in binary + unary + ["CONDITIONAL", "INDEX", "IN"] if o not in ops]
    if missing:
        print("INCONCLUSIVE: operator constants not found: %s" % missing)
        return 2

    def val(res):
        return res[2][0]

    def expect(opc, ks, node, e):
        """returns (formula that must hold of (result, events), description) for this scenario on this path"""
        r = [R[j][ks[j]] for j in range(len(ks))]
        ev = [x for x in node.events if x[0] == "resolve"]
        evs = [x[1] for x in ev]
        want_events, want = None, None
        T = True
        if opc == "CONDITIONAL":
            if ks[0] == "err":
                want_events, want = [0], r[0]
            else:
                c = truthy(val(r[0]))
                c = e.decide(c) if is_sym(c) else c
                want_events, want = ([0, 1], r[1]) if c else ([0, 2], r[2])
        elif opc in unary:
            if ks[0] == "err":
                want_events, want = [0], r[0]
            else:
                v = val(r[0])
                want_events = [0]
                if opc == "LOGICAL_NOT":
                    want = ("okbool", z3.Not(truthy(v)) if is_sym(truthy(v)) else (not truthy(v)))
                elif opc == "NOT_STRICTLY_FALSE":
                    want = ("okbool", v[2][0]) if v[1] == "Value::Bool" else ("okbool", True)
                else:
                    if v[1] == "Value::Int":
                        want = ("neg", v[2][0])
                    elif v[1] == "Value::Float":
                        want = ("negf", v[2][0])
                    else:
                        want = ("err_any",)
        else:
            if ks[0] == "err":
                want_events, want = [0], r[0]
            elif opc == "LOGICAL_OR":
                c = truthy(val(r[0]))
                c = e.decide(c) if is_sym(c) else c
                want_events, want = ([0], ("ok", val(r[0]))) if c else ([0, 1], r[1])
            elif opc == "LOGICAL_AND":
                c = truthy(val(r[0]))
                c = e.decide(c) if is_sym(c) else c
                if not c:
                    want_events, want = [0], ("okbool", False)
                elif ks[1] == "err":
                    want_events, want = [0, 1], r[1]
                else:
                    t = truthy(val(r[1]))
                    want_events, want = [0, 1], ("okbool", t)
            elif ks[1] == "err":
                want_events, want = [0, 1], r[1]
            else:
                want_events = [0, 1]
                a, b = val(r[0]), val(r[1])
                if opc in ("ADD", "SUBSTRACT", "MULTIPLY", "DIVIDE", "MODULO"):
                    want = ("app", {"ADD": "add", "SUBSTRACT": "sub", "MULTIPLY": "mul", "DIVIDE": "div", "MODULO": "rem"}[opc], a, b)
                elif opc == "EQUALS":
                    want = ("okbool_eq", eq_sym, a, b)
                elif opc == "NOT_EQUALS":
                    want = ("okbool_eq", z3.Not(eq_sym), a, b)
                else:
                    rel = {"LESS": ord_sym == -1, "LESS_EQUALS": ord_sym != 1, "GREATER": ord_sym == 1, "GREATER_EQUALS": ord_sym != -1}[opc]
                    want = ("cmp", rel, a, b)
        return want_events, want, evs

    def same(x, y):
        """structural equality of result terms -> formula/bool"""
        if is_sym(x) or is_sym(y):
            return x == y
        if isinstance(x, (tuple, list)) and isinstance(y, (tuple, list)):
            if len(x) != len(y):
                return False
            parts = [same(a, b) for a, b in zip(x, y)]
            if any(p is False for p in parts):
                return False
            sym = [p for p in parts if is_sym(p)]
            return z3.And(*sym) if sym else True
        return x == y

    def surely(x):
        if x is True:
            return True
        if is_sym(x):
            return z3.is_true(z3.simplify(x))
        return False

    def judge(opc, ks, node, res, e):
        want_events, want, evs = expect(opc, ks, node, e)
        problems = []
        if cur.get("double"):
            problems.append("an operand was evaluated twice")
        if evs != want_events:
            problems.append("operand evaluations %s, expected %s" % (evs, want_events))
        ok = None
        if isinstance(want, tuple) and want and want[0] == "enum":
            ok = same(res, want)
        elif want[0] == "ok":
            ok = same(res, ("enum", "Result::Ok", [want[1]]))
        elif want[0] == "okbool":
            ok = same(res, ("enum", "Result::Ok", [("enum", "Value::Bool", [want[1]])]))
        elif want[0] == "app":
            ok = same(res, want)
        elif want[0] == "okbool_eq":
            ok = same(res, ("enum", "Result::Ok", [("enum", "Value::Bool", [want[1]])]))
            if cur.get("eq_args") is None or not surely(same(cur["eq_args"], (want[2], want[3]))):
                problems.append("== / != was not applied to (left, right)")
        elif want[0] == "cmp":
            if cur.get("cmp_args") is None or not surely(same(cur["cmp_args"], (want[2], want[3]))):
                problems.append("partial_cmp was not applied to (left, right)")
            some = e.decide(cmp_some)
            if some:
                ok = same(res, ("enum", "Result::Ok", [("enum", "Value::Bool", [want[1]])]))
            else:
                ok = (res[1] == "Result::Err" and res[2][0][1] == "ExecutionError::ValuesNotComparable"
                      and surely(same(tuple(res[2][0][2]), (want[2], want[3]))))
        elif want[0] == "neg":
            i = want[1]
            if res[1] == "Result::Ok":
                v = res[2][0]
                ok = z3.And(i != -2 ** 63, v[2][0] == -i) if v[1] == "Value::Int" else False
            else:
                ok = i == -2 ** 63
        elif want[0] == "negf":
            # IEEE-754 negation: the sign bit flips, also for zeros, infinities and NaN payload-free z3 NaN (structural equality)
            ok = False
            if res[1] == "Result::Ok" and res[2][0][1] == "Value::Float" and is_sym(res[2][0][2][0]) and z3.is_fp(res[2][0][2][0]):
                ok = not e.check(res[2][0][2][0] != z3.fpNeg(want[1]))
        elif want[0] == "err_any":
            ok = res[1] == "Result::Err"
        if ok is False:
            problems.append("result %r is not the specified one" % (res[1],))
        elif is_sym(ok):
            if e.check(z3.Not(ok)):
                mdl = e.solver.model()
                problems.append("result differs from the specification for p0=%s p1=%s b0=%s b1=%s" % (
                    mdl.eval(i0, model_completion=True), mdl.eval(i1, model_completion=True), mdl.eval(b0, model_completion=True), mdl.eval(b1, model_completion=True)))
        return problems

    def operand_expr(j, shape):
        """an operand expression of the given syntactic shape whose id field carries the handle"""
        hid = ("opid", j)
        if shape == "ident":
            return [hid, ("enum", "Expr::Ident", [("string", "v%d" % j)])]
        if shape == "select":
            inner = {0: [("opid", "inner%d" % j), ("enum", "Expr::Ident", [("string", "w%d" % j)])]}
            return [hid, ("enum", "Expr::Select", [[[[Ref(inner, 0, ())]], ("string", "field"), False]])]
        if shape == "literal":
            return [hid, ("enum", "Expr::Literal", [("enum", "Val::Null", [])])]
        if shape.startswith("op:"):
            # the operand is itself an operator node (`a ? x : (b ? y : z)`, `a && (b && c)`, `-(-x)`): it is evaluated as a whole -
            # its own operands (handles innerJ_K) are not this node's to evaluate
            nm = shape[3:]
            n_inner = 3 if nm == ops.get("CONDITIONAL") else (1 if nm in (ops.get("LOGICAL_NOT"), ops.get("NEGATE")) else 2)
            inner = [[("opid", "inner%d_%d" % (j, k)), ("enum", "Expr::Ident", [("string", "u%d_%d" % (j, k))])] for k in range(n_inner)]
            return [hid, ("enum", "Expr::Call", [[("string", nm), ("None",), ("vec", inner)]])]
        return [hid, ("enum", "Expr::Call", [[("string", "g%d" % j), ("None",), ("vec", [])]])]

    def run_scenario(opc, ks, shapes=None):
        nonlocal status
        name = ops[opc]
        nargs = len(ks)
        shapes = shapes or ["call"] * nargs
        node = Node(name, [R[j][ks[j]] for j in range(nargs)] + [R[j]["null"] for j in range(nargs, 3)])
        node.results_by_handle = {"inner%d_%d" % (j, k): ("enum", "Result::Ok", [("enum", "Value::Bool", [z3.Bool("inner_%d_%d" % (j, k))])]) for j in range(3) for k in range(3)}
        expr = [7, ("enum", "Expr::Call", [[("string", name), ("None",), ("vec", [operand_expr(j, shapes[j]) for j in range(nargs)])]])]
        pseudo = {0: expr}
        eng = new_engine()
        stats["scenarios"] += 1

        def entry(e):
            cur.clear()
            cur.update({"node": node, "eq": eq_sym, "cmp_some": cmp_some, "ord": ord_sym,
                        "ident_owner": dict([("v%d" % j, j) for j in range(3)] + [("w%d" % j, j) for j in range(3)])})
            node.events = []
            return e.call_fn(fn, [Ref(pseudo, 0, ()), Opaque("ctx")])

        def replay_vector(e):
            order = ["ADD", "SUBSTRACT", "MULTIPLY", "DIVIDE", "MODULO", "EQUALS", "NOT_EQUALS", "LESS", "LESS_EQUALS", "GREATER",
                     "GREATER_EQUALS", "LOGICAL_OR", "LOGICAL_AND", "LOGICAL_NOT", "NEGATE", "NOT_STRICTLY_FALSE", "CONDITIONAL"]
            kc = {"err": 0, "bool": 1, "int": 2, "uint": 3, "null": 4}
            if not e.check() or any(x not in kc for x in ks):
                return None
            mdl = e.solver.model()
            iv = [mdl.eval(x, model_completion=True).as_long() for x in (i0, i1, i2)]
            bv = [z3.is_true(mdl.eval(x, model_completion=True)) for x in (b0, b1, b2)]
            k = [kc[x] for x in ks] + [4] * (3 - len(ks))
            sc = {"call": 0, "ident": 1, "select": 2, "literal": 3}
            if any(x not in sc for x in shapes):
                return {"nested_operator": True, "op": order.index(opc), "kinds": [kc.get(x, 4) for x in ks] + [4] * (3 - len(ks)), "bools": bv}
            return {"op": order.index(opc), "kinds": k, "ints": iv, "bools": bv, "shapes": [sc[x] for x in shapes] + [0] * (3 - len(shapes))}

        def on_path(res, e):
            probs = judge(opc, ks, node, res, e)
            if probs:
                failures.append({"operator": name, "opcode": opc, "operands": ks, "problems": probs, "events": [list(x) for x in node.events],
                                 "replay": replay_vector(e)})
            else:
                stats["proved"] += 1
                if len(samples) < 30 and stats["scenarios"] % 7 == 0:
                    samples.append({"operator": name, "operand_results": ks, "events": [list(x) for x in node.events], "result": res[1]})
        try:
            eng.explore(entry, None, on_path, base)
        except PanicFound as p:
            failures.append({"operator": name, "opcode": opc, "operands": ks, "problems": ["panic reachable: %s" % p.msg], "panics": eng.violations[:2]})
        except Stop as s:
            failures.append({"operator": name, "operands": ks, "problems": ["left the operator dispatch: %s" % s]})
        if eng.violations and not any(f.get("panics") for f in failures[-1:]):
            failures.append({"operator": name, "opcode": opc, "operands": ks, "problems": ["panic reachable"], "panics": eng.violations[:2]})
        for k in ("paths", "queries", "assert_obligations"):
            stats[k] += eng.stats[k]
        stats["solver_s"] += eng.stats["solver_s"]
        stats["functions"] |= eng.stats["functions"]

    def run_access_scenario(opc, lk, rk):
        """index `a[b]` and membership `a in b` on heap-backed operands"""
        nonlocal status
        name = ops[opc]
        node = Node(name, [R[0][lk], R[1][rk], R[2]["null"]])
        expr = [7, ("enum", "Expr::Call", [[("string", name), ("None",), ("vec", [operand_expr(0, "call"), operand_expr(1, "call")])]])]
        pseudo = {0: expr}
        eng = new_engine()
        eng.discriminants.update({"Key::Int": 0, "Key::Uint": 1, "Key::Bool": 2, "Key::String": 3})
        stats["scenarios"] += 1
        desc = {"operator": name, "opcode": opc, "operands": [lk, rk]}

        def entry(e):
            cur.clear()
            cur.update({"node": node, "eq": eq_sym, "cmp_some": cmp_some, "ord": ord_sym, "ident_owner": {}})
            node.events = []
            return e.call_fn(fn, [Ref(pseudo, 0, ()), Opaque("ctx")])

        def val_of(k, kind):
            return R[k][kind][2][0]

        def on_path(res, e):
            probs = []
            evs = [x[1] for x in node.events if x[0] == "resolve"]
            aux = [x for x in node.events if x[0] in ("map_get", "list_contains", "str_contains", "str_get", "contains_key")]
            if lk == "err":
                want_ev, ok = [0], surely(same(res, R[0]["err"]))
            elif rk == "err":
                want_ev, ok = [0, 1], surely(same(res, R[1]["err"]))
            else:
                want_ev = [0, 1]
                a, b = val_of(0, lk), val_of(1, rk)
                okv = lambda v: surely(same(res, ("enum", "Result::Ok", [v])))
                isnull = okv(("enum", "Value::Null", []))
                key_kinds = {"int": "Key::Int", "uint": "Key::Uint", "bool": "Key::Bool", "string": "Key::String"}
                if opc == "INDEX":
                    if lk == "list" and rk == "int":
                        idx = b[2][0]
                        items = a[2][0][1][1]
                        hit = [j for j in range(len(items)) if e.check(idx == j) and not e.check(idx != j)]
                        ok = okv(items[hit[0]]) if hit else (isnull and not e.check(z3.And(idx >= 0, idx < len(items))))
                    elif lk == "string" and rk == "int":
                        got_some = [x for x in aux if x[0] == "str_get"]
                        idx = b[2][0]
                        if got_some:
                            ok = len(got_some) == 1 and surely(got_some[0][1] == idx) and surely(got_some[0][2] == idx + 1) \
                                and (isnull or (res[1] == "Result::Ok" and res[2][0][1] == "Value::String"))
                        else:
                            # without consulting the string only an index that cannot be a position may be answered
                            ok = isnull and not e.check(z3.And(idx >= 0, idx < z3.Int("strlen")))
                    elif lk == "map" and rk in key_kinds:
                        mg = [x for x in aux if x[0] == "map_get"]
                        ok = len(mg) == 1 and surely(same(mg[0][2], ("enum", key_kinds[rk], [b[2][0]]))) and (isnull or okv(("abs_val", "found")))
                        if isnull and mg and e.check(z3.Bool("map_get_is_some_%d" % (node.events.index(mg[0]) + 1))):
                            ok = False
                    elif lk == "map":
                        ok = res[1] == "Result::Err" and res[2][0][1] == "ExecutionError::UnsupportedMapIndex"
                    elif lk == "list":
                        ok = res[1] == "Result::Err" and res[2][0][1] == "ExecutionError::UnsupportedListIndex"
                    else:
                        ok = res[1] == "Result::Err" and res[2][0][1] == "ExecutionError::UnsupportedIndex"
                else:  # IN
                    if lk == "string" and rk == "string":
                        sc = [x for x in aux if x[0] == "str_contains"]
                        ok = len(sc) == 1 and res[1] == "Result::Ok" and res[2][0][1] == "Value::Bool"
                    elif rk == "numlist":
                        # `x in l` holds iff some element of l equals x, whatever the kinds involved
                        want_b = z3.Or(z3.Bool("elem_eq_0"), z3.Bool("elem_eq_1"))
                        ee = [x for x in node.events if x[0] == "elem_eq"]
                        ok = res[1] == "Result::Ok" and res[2][0][1] == "Value::Bool" and all(surely(same(x[2], a)) for x in ee) \
                            and not e.check((res[2][0][2][0] if is_sym(res[2][0][2][0]) else z3.BoolVal(res[2][0][2][0])) != want_b)
                    elif rk == "list":
                        lc = [x for x in aux if x[0] == "list_contains"]
                        ok = len(lc) == 1 and surely(same(lc[0][2], a)) and res[1] == "Result::Ok" and res[2][0][1] == "Value::Bool"
                    elif rk == "map":
                        mg = [x for x in aux if x[0] in ("map_get", "contains_key")]
                        if lk in key_kinds:
                            # presence must be asked through Map::get (which knows int/uint twins), with the key built from the left operand
                            ok = len(mg) == 1 and mg[0][0] == "map_get" and surely(same(mg[0][2], ("enum", key_kinds[lk], [a[2][0]]))) \
                                and res[1] == "Result::Ok" and res[2][0][1] == "Value::Bool"
                        else:
                            ok = not mg and okv(("enum", "Value::Bool", [False]))
                    else:
                        ok = res[1] == "Result::Err" and res[2][0][1] == "ExecutionError::ValuesNotComparable"
            if evs != want_ev:
                probs.append("operand evaluations %s, expected %s" % (evs, want_ev))
            if not ok:
                probs.append("result %r / lookups %s are not the specified ones" % (str(res)[:300], [x[0] for x in aux]))
            if probs:
                failures.append(dict(desc, problems=probs, events=[str(x)[:120] for x in node.events], replay=None, access_replay=[order_access(opc), lk, rk]))
            else:
                stats["proved"] += 1
                if len(samples) < 60 and stats["scenarios"] % 5 == 0:
                    samples.append(dict(desc, events=[str(x)[:80] for x in node.events], result=res[1]))
        try:
            eng.explore(entry, None, on_path, base + [z3.Int("strlen") >= 0])
        except PanicFound as p:
            failures.append(dict(desc, problems=["panic reachable: %s" % p.msg], panics=eng.violations[:2], replay=None, access_replay=[order_access(opc), lk, rk]))
        if eng.violations and not (failures and failures[-1].get("panics") and failures[-1].get("operands") == [lk, rk]):
            failures.append(dict(desc, problems=["panic reachable: %s" % eng.violations[0]["message"]], panics=eng.violations[:2], replay=None,
                                 access_replay=[order_access(opc), lk, rk]))
        for k in ("paths", "queries", "assert_obligations"):
            stats[k] += eng.stats[k]
        stats["solver_s"] += eng.stats["solver_s"]
        stats["functions"] |= eng.stats["functions"]

    SELECT_MAPS = [[], ["field"], ["other"], ["field", "other"], ["other", "field"], [1], [True, "other"], [1, "field"]]

    def run_select_scenario(test, lk, mapcfg=None, opshape="call"):
        """field selection `x.field` and presence test `has(x.field)` on one node; the operand is a call or itself a
        field selection / presence test (a chain `a.b.field`): the node may evaluate its operand only - never the
        operand's own operand"""
        stats["scenarios"] += 1
        desc = {"node": "select", "operator": "select", "opcode": "SELECT", "operands": [lk], "test": test, "map_keys": mapcfg, "operand_shape": opshape}

        def mk_key(k):
            if isinstance(k, bool):
                return ("enum", "Key::Bool", [k])
            if isinstance(k, int):
                return ("enum", "Key::Int", [k])
            return ("enum", "Key::String", [("string", k)])
        if lk == "map":
            entries = [(mk_key(k), ("abs_val", "entry_%d" % j)) for j, k in enumerate(mapcfg)]
            left = ("enum", "Result::Ok", [("enum", "Value::Map", [[("arc", ("hashmap", entries))]])])
        else:
            left = R[0][lk]
        node = Node("select", [left, R[1]["null"], R[2]["null"]])
        expr = [7, ("enum", "Expr::Select", [[[[Ref({0: operand_expr(0, opshape)}, 0, ())]], ("string", "field"), test]])]
        pseudo = {0: expr}
        eng = new_engine()
        eng.discriminants.update({"Key::Int": 0, "Key::Uint": 1, "Key::Bool": 2, "Key::String": 3})
        # the operand's own operand (`w0` in `w0.field.field`): evaluating it here is an evaluation outside this node
        node.results_by_handle = {"inner0": ("enum", "Result::Ok", [("enum", "Value::Map", [[("arc", ("hashmap", [(mk_key("field"), ("abs_val", "grandchild_entry"))]))]])])}

        def entry(e):
            cur.clear()
            cur.update({"node": node, "eq": eq_sym, "cmp_some": cmp_some, "ord": ord_sym, "ident_owner": {"w0": "inner0"}})
            node.events = []
            return e.call_fn(fn, [Ref(pseudo, 0, ()), Opaque("ctx")])

        def on_path(res, e):
            probs = []
            evs = [x[1] for x in node.events if x[0] == "resolve"]
            if evs != [0]:
                probs.append("operand evaluations %s, expected [0]" % evs)
            hf = [x for x in node.events if x[0] == "has_function"]
            present = lk == "map" and "field" in [k for k in mapcfg if isinstance(k, str)]
            if lk == "err":
                ok = surely(same(res, left))
            elif test:
                # presence is a property of the map alone: registered functions play no part
                ok = surely(same(res, ("enum", "Result::Ok", [("enum", "Value::Bool", [present])])))
            elif present:
                ok = surely(same(res, ("enum", "Result::Ok", [("abs_val", "entry_%d" % mapcfg.index("field"))])))
            else:
                fdecl = bool(hf) and z3.is_true(e.solver.model().eval(z3.Bool("has_function"), model_completion=True)) if e.check() else False
                if fdecl:
                    ok = res[1] == "Result::Ok" and res[2][0][1] == "Value::Function" and surely(same(res[2][0][2][0], ("string", "field"))) \
                        and surely(same(res[2][0][2][1], ("Some", ("box", left[2][0]))))
                else:
                    ok = res[1] == "Result::Err" and res[2][0][1] == "ExecutionError::NoSuchKey" and surely(same(res[2][0][2][0], ("string", "field")))
                if any(x[1] != "field" for x in hf):
                    ok = False
            if not ok:
                probs.append("result %r is not the specified one (field present: %s)" % (str(res)[:300], present))
            if probs:
                failures.append(dict(desc, problems=probs, events=[str(x)[:120] for x in node.events], replay=None,
                                     select_replay=[1 if test else 0, ["err", "int", "null", "string", "list", "map"].index(lk),
                                                    SELECT_MAPS.index(mapcfg) if mapcfg is not None else 0,
                                                    1 if (hf and e.check() and z3.is_true(e.solver.model().eval(z3.Bool("has_function"), model_completion=True))) else 0]))
            else:
                stats["proved"] += 1
                if len(samples) < 80 and stats["scenarios"] % 4 == 0:
                    samples.append(dict(desc, events=[str(x)[:80] for x in node.events], result=res[1]))
        try:
            eng.explore(entry, None, on_path, base)
        except PanicFound as p:
            failures.append(dict(desc, problems=["panic reachable: %s" % p.msg], panics=eng.violations[:2], replay=None,
                                 select_replay=[1 if test else 0, ["err", "int", "null", "string", "list", "map"].index(lk),
                                                SELECT_MAPS.index(mapcfg) if mapcfg is not None else 0, 0]))
        for k in ("paths", "queries", "assert_obligations"):
            stats[k] += eng.stats[k]
        stats["solver_s"] += eng.stats["solver_s"]
        stats["functions"] |= eng.stats["functions"]

    def order_access(opc):
        return 0 if opc == "INDEX" else 1

    # what the invoked function returns: a value, or one of the errors a call site could be tempted to react to
    FN_RESULTS = {"value": ("enum", "Result::Ok", [("abs_val", "returned")]),
                  "InvalidArgumentCount": ("enum", "Result::Err", [("enum", "ExecutionError::InvalidArgumentCount", [2, 1])]),
                  "MissingArgumentOrTarget": ("enum", "Result::Err", [("enum", "ExecutionError::MissingArgumentOrTarget", [])]),
                  "UndeclaredReference": ("enum", "Result::Err", [("enum", "ExecutionError::UndeclaredReference", [("arc", ("string", "inner"))])]),
                  "FunctionError": ("enum", "Result::Err", [("enum", "ExecutionError::FunctionError", [("string", "f"), ("string", "msg")])])}
    src_lib = open(os.path.join(repo, "interpreter/src/lib.rs")).read()
    ebody = src_lib[src_lib.index("pub enum ExecutionError {"):]
    ebody = ebody[:ebody.index("\n}")]
    EXEC_ERR_DISC = {"ExecutionError::" + nme: k_ for k_, nme in enumerate(re.findall(r"^\s{4}([A-Z]\w*)\b", ebody, re.M))}

    def run_call_scenario(nargs, has_target, declared, target_kind, name="f", fn_outcome="value"):
        """a call to a non-operator function"""
        nonlocal status
        node = Node(name, [("enum", "Result::Ok", [("abs_val", "arg%d" % j)]) for j in range(nargs)])
        tres = R[0][target_kind]
        node.results_by_handle = {"T": tres}
        tbox = {0: ("operand", "T")}
        target = ("Some", [[Ref(tbox, 0, ())]]) if has_target else ("None",)
        expr = [7, ("enum", "Expr::Call", [[("string", name), target, ("vec", [("operand", j) for j in range(nargs)])]])]
        pseudo = {0: expr}
        eng = new_engine()
        eng.discriminants.update(EXEC_ERR_DISC)
        stats["scenarios"] += 1
        desc = {"operator": "call %s/%d %s target, %s%s" % (name, nargs, "with" if has_target else "no", "declared" if declared else "undeclared", "" if fn_outcome == "value" else ", the function returns " + fn_outcome),
                "opcode": "CALL", "operands": [target_kind] if has_target else [], "function_outcome": fn_outcome,
                "call_replay": [nargs, int(has_target), int(declared), int(target_kind == "err"), {"f": 0, "_f": 1, "@f": 2, ".f": 3}.get(name, 0)], "function_name": name}

        def entry(e):
            cur.clear()
            cur.update({"node": node, "eq": eq_sym, "cmp_some": cmp_some, "ord": ord_sym, "declared": declared, "fn_result": FN_RESULTS[fn_outcome]})
            node.events = []
            return e.call_fn(fn, [Ref(pseudo, 0, ()), Opaque("ctx")])

        def on_path(res, e):
            probs = []
            evs = [x for x in node.events if x[0] in ("resolve", "invoke")]
            if not declared:
                want = []
                ok = res[1] == "Result::Err" and res[2][0][1] == "ExecutionError::UndeclaredReference" and surely(same(res[2][0][2][0], ("string", name)))
                if not ok:
                    probs.append("an undeclared function is not reported as UndeclaredReference(name)")
            elif has_target and target_kind == "err":
                want = [("resolve", "T")]
                if not surely(same(res, tres)):
                    probs.append("an error in the receiver is not the result")
            else:
                want = ([("resolve", "T")] if has_target else []) + [("invoke",)]
                fc = cur.get("fctx")
                if fc is None:
                    probs.append("the function was not invoked")
                else:
                    if not surely(same(fc[0], ("string", name))):
                        probs.append("FunctionContext.name is not the called name")
                    want_this = ("Some", tres[2][0]) if has_target else ("None",)
                    if not surely(same(fc[1], want_this)):
                        probs.append("FunctionContext.this is not the resolved receiver")
                    if not surely(same(fc[3], ("vec", [("operand", j) for j in range(nargs)]))):
                        probs.append("FunctionContext.args are not the node's argument expressions, unevaluated and in order")
                    if fc[4] != 0:
                        probs.append("FunctionContext.arg_idx does not start at 0")
                if not surely(same(res, FN_RESULTS[fn_outcome])):
                    probs.append("the node's result is not what the function returned (%s): %s" % (fn_outcome, str(res)[:160]))
            if [tuple(x) for x in evs] != want:
                probs.append("evaluation events %s, expected %s (each receiver/argument at most once; arguments are left to the function's extractors)" % (evs, want))
            if probs:
                failures.append(dict(desc, problems=probs, events=[list(x) for x in node.events], replay=None))
            else:
                stats["proved"] += 1
                if len(samples) < 40 and stats["scenarios"] % 5 == 0:
                    samples.append(dict(desc, events=[list(x) for x in node.events], result=res[1]))
        try:
            eng.explore(entry, None, on_path, base)
        except PanicFound as p:
            failures.append(dict(desc, problems=["panic reachable: %s" % p.msg], panics=eng.violations[:2]))
        for k in ("paths", "queries", "assert_obligations"):
            stats[k] += eng.stats[k]
        stats["solver_s"] += eng.stats["solver_s"]
        stats["functions"] |= eng.stats["functions"]

    undecided = []

    def guarded(f):
        # a scenario that meets an unmodelled call is undecided (never a pass); the other scenarios are still decided
        def g(*a, **k):
            try:
                return f(*a, **k)
            except Unsupported as u:
                undecided.append("%s%r: %s" % (f.__name__, a, str(u)[:160]))
                if os.environ.get("MIRSYM_TRACE"):
                    import traceback
                    traceback.print_exc()
        return g
    run_scenario, run_access_scenario, run_select_scenario, run_call_scenario = (guarded(run_scenario), guarded(run_access_scenario),
                                                                                 guarded(run_select_scenario), guarded(run_call_scenario))
    try:
        akinds = ["err", "int", "uint", "bool", "null", "string", "list", "map"]
        for opc in ("INDEX", "IN"):
            for lk in akinds:
                for rk in akinds:
                    run_access_scenario(opc, lk, rk)
        for lk in ("int", "uint"):
            run_access_scenario("IN", lk, "numlist")
        if True:
            for test in (False, True):
                for lk in ("err", "int", "null", "string", "list"):
                    run_select_scenario(test, lk)
                for cfg in SELECT_MAPS:
                    run_select_scenario(test, "map", cfg)
                for lk in ("err", "null"):
                    run_select_scenario(test, lk, None, "select")
                for cfg in SELECT_MAPS[:3]:
                    run_select_scenario(test, "map", cfg, "select")
        for nargs in range(0, 4):
            for has_target in (False, True):
                for declared in (True, False):
                    for tk in (["int", "err"] if has_target else ["null"]):
                        run_call_scenario(nargs, has_target, declared, tk)
                        if declared:
                            # host functions may be named like the parser's internal operators
                            run_call_scenario(nargs, has_target, declared, tk, "_f")
                            run_call_scenario(nargs, has_target, declared, tk, "@f")
                        if not has_target:
                            # the root-qualified spelling `.f(..)`: the name with its dot is what is looked up and reported
                            run_call_scenario(nargs, has_target, declared, tk, ".f")
                        if declared and has_target and nargs <= 1:
                            # a function named like a built-in is a function like any other at the call site (a host function
                            # registered under that name has replaced the built-in): receivers of the kinds the built-ins act on
                            for bname in ("size", "contains", "string", "max"):
                                for rk in ("list", "string", "map", "int"):
                                    if tk == "int":
                                        run_call_scenario(nargs, has_target, declared, rk, bname)
                        if declared and tk != "err":
                            # whatever the function returns - an error about its arguments included - is the node's result; the
                            # call is made once
                            for outcome in ("InvalidArgumentCount", "MissingArgumentOrTarget", "UndeclaredReference", "FunctionError"):
                                run_call_scenario(nargs, has_target, declared, tk, "f", outcome)
        for opc in binary:
            for ks in itertools.product(kinds, kinds):
                run_scenario(opc, list(ks))
        # the same nodes with operands of other syntactic shapes (identifier, field selection, literal):
        # an evaluator that peeks at an operand's shape must still evaluate nothing it may skip
        for opc in ("LOGICAL_AND", "LOGICAL_OR", "ADD", "EQUALS"):
            for sh in itertools.product(["ident", "select", "literal"], repeat=2):
                for ks in (["bool", "bool"], ["bool", "err"], ["int", "int"]):
                    run_scenario(opc, list(ks), list(sh))
        for sh in itertools.product(["ident", "select", "literal"], repeat=3):
            for ks in (["bool", "int", "bool"], ["bool", "err", "err"]):
                run_scenario("CONDITIONAL", list(ks), list(sh))
        for opc in unary:
            for k in kinds:
                run_scenario(opc, [k])
        run_scenario("NEGATE", ["float"])
        # an operand that is itself a node of the same operator (nested conditionals / else-if ladders, chains, double negation)
        cond_shape = "op:" + ops["CONDITIONAL"]
        for pos in range(3):
            sh = ["call", "call", "call"]
            sh[pos] = cond_shape
            for ks in (["bool", "int", "bool"], ["bool", "err", "int"], ["bool", "int", "err"], ["err", "int", "int"]):
                run_scenario("CONDITIONAL", list(ks), list(sh))
        for opc in ("LOGICAL_AND", "LOGICAL_OR"):
            for pos in range(2):
                sh = ["call", "call"]
                sh[pos] = "op:" + ops[opc]
                for ks in (["bool", "bool"], ["bool", "err"], ["err", "bool"]):
                    run_scenario(opc, list(ks), list(sh))
        for opc in ("LOGICAL_NOT", "NEGATE"):
            for k in ("bool", "int", "err"):
                run_scenario(opc, [k], ["op:" + ops[opc]])
        for ks in itertools.product(kinds, ["err", "int"], ["err", "bool"]):
            run_scenario("CONDITIONAL", list(ks))
    except Unsupported as u:
        status = 2
        if os.environ.get("MIRSYM_TRACE"): import traceback; traceback.print_exc()
        print("INCONCLUSIVE: unsupported: %s" % u)
    if undecided:
        status = 2
        print("INCONCLUSIVE: %d scenarios undecided, e.g. unsupported: %s" % (len(undecided), undecided[0][:300]))
    if failures:  # a counterexample stands even if another scenario met an unmodelled call (it is replayed natively anyway)
        status = 1
    out = {"functions_encoded": sorted(stats["functions"]), "scenarios": stats["scenarios"], "paths": stats["paths"], "paths_proved": stats["proved"],
           "queries": stats["queries"], "assert_obligations": stats["assert_obligations"], "solver_s": round(stats["solver_s"], 2),
           "wall_s": round(time.time() - t0, 2), "failures": failures[:20], "samples": samples,
           "operators": {o: ops[o] for o in binary + unary + ["CONDITIONAL"]}, "operand_kinds": kinds}
    # panics carry their own model: turn it into a replay vector
    order = ["ADD", "SUBSTRACT", "MULTIPLY", "DIVIDE", "MODULO", "EQUALS", "NOT_EQUALS", "LESS", "LESS_EQUALS", "GREATER",
             "GREATER_EQUALS", "LOGICAL_OR", "LOGICAL_AND", "LOGICAL_NOT", "NEGATE", "NOT_STRICTLY_FALSE", "CONDITIONAL"]
    kc = {"err": 0, "bool": 1, "int": 2, "uint": 3, "null": 4}
    for f in out["failures"]:
        if f.get("replay") is None and f.get("panics") and f["panics"][0].get("model") and f.get("opcode") in order:
            mdl = f["panics"][0]["model"]
            f["replay"] = {"op": order.index(f["opcode"]), "kinds": [kc[x] for x in f["operands"]] + [4] * (3 - len(f["operands"])),
                           "ints": mdl["ints"], "bools": mdl["bools"], "shapes": [0, 0, 0]}
    if outp:
        json.dump(out, open(outp, "w"), indent=1)
    for f in failures[:6]:
        print("COUNTEREXAMPLE " + json.dumps(f)[:600])
    print("mirsym resolve_node: %d scenarios, %d paths, %d proved, %d failures, %d queries, %.1fs solver, %.1fs wall" % (
        stats["scenarios"], stats["paths"], stats["proved"], len(failures), stats["queries"], stats["solver_s"], out["wall_s"]))
    return status


if __name__ == "__main__":
    sys.exit(main())
