#!/usr/bin/env python3
"""C14 (size / startsWith / endsWith), decided on the MIR of interpreter/src/functions.rs: `size`, `starts_with`, `ends_with`.

  * size(x) for a list is the number of its elements, for a map the number of its entries, for a string / bytes value the
    length of its buffer - a quantity that is additive over `+` because concatenation (value_concat.py) returns exactly
    the left contents followed by the right ones; every other kind is an error, never a panic.  The lengths are symbolic
    (any usize that fits an i64: the cast to int is checked to be lossless on that domain).
  * startsWith / endsWith return std's `str::starts_with` / `str::ends_with` of (receiver, argument), in that order, and
    nothing else (std's predicates are uninterpreted).
usage: size_and_affixes.py <interpreter-mir-file> <repo-root> [--json out.json]
"""
import json
import os
import re
import sys
import time
import z3
sys.path.insert(0, os.path.dirname(os.path.abspath(__file__)))
from mirsym import Engine, parse_mir, STD_MODELS, Unsupported, PanicFound, Ref, Opaque, is_sym


def main():
    mir, repo = sys.argv[1], sys.argv[2]
    outp = sys.argv[sys.argv.index("--json") + 1] if "--json" in sys.argv else None
    t0 = time.time()
    fns, consts = parse_mir(open(mir).read())
    src = open(os.path.join(repo, "interpreter/src/objects.rs")).read()
    body = src[src.index("pub enum Value {"):]
    body = body[:body.index("\n}")]
    names, skip = [], False
    for line in body.splitlines():
        line = line.strip()
        m = re.match(r'^#\[cfg\(feature = "(\w+)"\)\]', line)
        if m:
            skip = m.group(1) not in ("chrono",)
            continue
        m = re.match(r"^([A-Z]\w*)\b", line)
        if m and not line.startswith("//"):
            if not skip:
                names.append(m.group(1))
            skip = False
    stats = {"scenarios": 0, "paths": 0, "proved": 0, "queries": 0, "solver_s": 0.0, "functions": set()}
    failures, samples, undecided = [], [], []
    L = z3.Int("length")

    def deref(e, x):
        k = 0
        while isinstance(x, Ref) and k < 5:
            x = e.read_path(x.frame, x.local, list(x.proj))
            k += 1
        return x

    def unarc(x):
        return x[1] if isinstance(x, tuple) and x[0] == "arc" else x

    def m_len(e, m, a):
        x = unarc(deref(e, a[0]))
        if isinstance(x, tuple) and x[0] in ("abs_vec", "abs_map", "abs_string", "abs_bytes"):
            return z3.Int("length")
        raise Unsupported("len of %r" % (str(x)[:60],))

    def m_affix(e, m, a):
        return ("app", m.group(1), unarc(deref(e, a[0])), unarc(deref(e, a[1])))

    extern = [
        (r"^<Arc<.*> as Deref>::deref$", lambda e, m, a: Ref({0: unarc(deref(e, a[0]))}, 0, ())),
        (r"^<(?:Vec<Value>|Vec<u8>|std::string::String) as Deref>::deref$", lambda e, m, a: a[0]),
        (r"^(?:Vec::<Value>|Vec::<u8>|std::string::String|HashMap::<Key, Value>|core::str::<impl str>|core::slice::<impl \[(?:Value|u8)\]>)::len$", m_len),
        (r"^std::string::String::as_str$", lambda e, m, a: Ref({0: unarc(deref(e, a[0]))}, 0, ())),
        (r"^core::str::<impl str>::(starts_with|ends_with)::<&str>$", m_affix),
        (r"^FunctionContext::<'_>::error::<.*>$", lambda e, m, a: ("function_error",)),
        (r"^(?:functions::)?FunctionContext::<'_>::error::<.*>$", lambda e, m, a: ("function_error",)),
    ] + STD_MODELS

    def find(name, nargs):
        c = [f for n, f in fns.items() if n.split("#")[0] in ("functions::" + name, name) and len(f.args) == nargs]
        if len(c) != 1:
            raise Unsupported("functions::%s not found uniquely (%d)" % (name, len(c)))
        return c[0]

    def run(desc, fn, args, judge, cons):
        stats["scenarios"] += 1
        eng = Engine(fns, consts, extern)
        eng.discriminants = {"Value::" + n: k for k, n in enumerate(names)}
        eng.discriminants.update({"Result::Ok": 0, "Result::Err": 1})

        def on_path(res, e):
            p = judge(res, e)
            if p:
                failures.append(dict(desc, problems=[p]))
            else:
                stats["proved"] += 1
                samples.append(dict(desc, result=str(res)[:80]))
        try:
            eng.explore(lambda e: e.call_fn(fn, list(args)), None, on_path, cons)
        except PanicFound as p:
            failures.append(dict(desc, problems=["panic reachable: %s" % p.msg]))
        except Unsupported as u:
            undecided.append("%s: %s" % (json.dumps(desc), str(u)[:160]))
        for k in ("paths", "queries"):
            stats[k] += eng.stats[k]
        stats["solver_s"] += eng.stats["solver_s"]
        stats["functions"] |= eng.stats["functions"]

    status = 0
    try:
        fsize = find("size", 2)
        V = lambda kind, *payload: ("enum", "Value::" + kind, list(payload))
        this = lambda v: ("enum", "This", [v])
        sized = {"List": V("List", ("arc", ("abs_vec", "l"))), "Map": V("Map", [("arc", ("abs_map", "m"))]),
                 "String": V("String", ("arc", ("abs_string", "s"))), "Bytes": V("Bytes", ("arc", ("abs_bytes", "b")))}

        def judge_size(res, e):
            if not (isinstance(res, tuple) and res[0] == "enum" and res[1].endswith("Ok")):
                return "size of a list / map / string / bytes value is not Ok: %s" % (str(res)[:100],)
            v = res[2][0]
            if e.check(v != L):
                return "size is not the container's length: %s for length %s" % (e.solver.model().eval(v, model_completion=True), e.solver.model().eval(L, model_completion=True))
            return None
        for kind, val in sized.items():
            run({"function": "size", "receiver": kind}, fsize, [Opaque("ftx"), this(val)], judge_size, [L >= 0, L <= 2 ** 63 - 1])
        others = {"Int": V("Int", z3.Int("i")), "UInt": V("UInt", z3.Int("u")), "Bool": V("Bool", z3.Bool("b")), "Null": V("Null"), "Float": V("Float", z3.FP("f", z3.Float64()))}
        for kind, val in others.items():
            run({"function": "size", "receiver": kind}, fsize, [Opaque("ftx"), this(val)],
                lambda res, e: None if (isinstance(res, tuple) and res[0] == "enum" and res[1].endswith("Err")) else "size of a scalar is not an error: %s" % (str(res)[:100],), [])
        for name in ("starts_with", "ends_with"):
            f = find(name, 2)
            recv, arg = ("arc", ("abs_string", "receiver")), ("arc", ("abs_string", "argument"))
            run({"function": name}, f, [this(recv), arg],
                lambda res, e, name=name: None if res == ("app", name, ("abs_string", "receiver"), ("abs_string", "argument")) else
                "%s is not std's predicate applied to (receiver, argument): %s" % (name, str(res)[:160]), [])
    except Unsupported as u:
        status = 2
        print("INCONCLUSIVE: unsupported: %s" % u)
    if undecided:
        status = 2
        print("INCONCLUSIVE: %d scenarios undecided, e.g. unsupported: %s" % (len(undecided), undecided[0][:300]))
    if failures:
        status = 1
    out = {"functions_encoded": sorted(stats["functions"]), "scenarios": stats["scenarios"], "paths": stats["paths"], "paths_proved": stats["proved"],
           "queries": stats["queries"], "solver_s": round(stats["solver_s"], 2), "wall_s": round(time.time() - t0, 2), "failures": failures[:12], "samples": samples[:8]}
    if outp:
        json.dump(out, open(outp, "w"), indent=1)
    for f in failures[:4]:
        print("COUNTEREXAMPLE " + json.dumps(f)[:400])
    print("mirsym size_and_affixes: %d scenarios, %d paths, %d proved, %d failures, %d queries, %.1fs wall" % (
        stats["scenarios"], stats["paths"], stats["proved"], len(failures), stats["queries"], out["wall_s"]))
    return status


if __name__ == "__main__":
    sys.exit(main())
