#!/usr/bin/env python3
"""C11 (context half) decided on the MIR of context.rs: `Context::get_variable` and
`Context::add_variable_from_value` over chains of scopes.

A chain root <- child <- grandchild (1 to 3 levels) is modelled structurally; every level defines
an arbitrary subset of the names {a, b, c} (all 8^levels configurations), each bound to a distinct
abstract value.  std's HashMap is modelled as a finite map with concrete keys (get / insert /
Option::cloned); everything else is the real MIR.  Proved for every configuration and name:
  * lookup returns the value bound in the innermost scope that defines the name, walking outward,
    and UndeclaredReference(name) when no scope defines it;
  * defining or redefining a name in the innermost scope changes that scope's map only: every
    enclosing scope is left exactly as it was, and a following lookup sees the new binding.

usage: context_chain.py <mir-file> <repo-root> [--json out.json]
"""
import copy
import itertools
import json
import os
import re
import sys
import time
sys.path.insert(0, os.path.dirname(os.path.abspath(__file__)))
from mirsym import Engine, parse_mir, STD_MODELS, Unsupported, PanicFound, Ref, Opaque


def main():
    mir, repo = sys.argv[1], sys.argv[2]
    outp = sys.argv[sys.argv.index("--json") + 1] if "--json" in sys.argv else None
    t0 = time.time()
    fns, consts = parse_mir(open(mir).read())
    stats = {"scenarios": 0, "paths": 0, "proved": 0, "queries": 0, "solver_s": 0.0, "functions": set()}
    failures, samples = [], []
    status = 0

    def find(suffix):
        c = [f for n, f in fns.items() if n.split("#")[0].endswith(suffix) and n.startswith("context")]
        if len(c) != 1:
            raise Unsupported("%s: %d candidates" % (suffix, len(c)))
        return c[0]

    def deref(e, x):
        return e.read_path(x.frame, x.local, list(x.proj)) if isinstance(x, Ref) else x

    def m_map_get(e, m, a):
        mp, key = deref(e, a[0]), deref(e, a[1])
        d = mp[1]
        k = key[1]
        if k in d:
            return ("Some", Ref({0: d[k]}, 0, ()))
        return ("None",)

    def m_map_insert(e, m, a):
        mp = deref(e, a[0])
        old = mp[1].get(a[1][1])
        mp[1][a[1][1]] = a[2]
        return ("Some", old) if old is not None else ("None",)

    def m_cloned(e, m, a):
        o = a[0]
        return ("Some", deref(e, o[1])) if o[0] == "Some" else o

    def m_ok_or_else(e, m, a):
        opt, clo = a
        if opt[0] == "Some":
            return ("enum", "Result::Ok", [opt[1]])
        cty = re.search(r"(\{closure@[^}]*\})>?$", m.group(0)).group(1)
        return ("enum", "Result::Err", [e.call_fn(e.closure_fn(cty), [clo])])

    def m_self_call(name):
        def f(e, m, a):
            return e.call_fn(find(name), a)
        return f

    ident = lambda e, m, a: deref(e, a[0]) if isinstance(a[0], Ref) and False else a[0]
    def m_registry_get(e, m, a):
        name = a[1]
        text = name[1].decode() if isinstance(name[1], bytes) else name[1]
        if m.group(1) == "has":
            return text in ("a", "size")
        return ("Some", ("fnref", text)) if text in ("a", "size") else ("None",)

    extern = [
        (r"^(?:magic::)?FunctionRegistry::(get|has)$", m_registry_get),
        (r"^context::Context::<'_>::(?:get_function|has_function)$", lambda e, m, a: e.call_fn(find("::" + m.group(0).split("::")[-1]), a)),
        (r"^<S as (?:std::convert::)?Into<std::string::String>>::into$", lambda e, m, a: deref(e, a[0])),
        (r"^<V as (?:std::convert::)?Into<Value>>::into$", ident),
        # the host value's conversion succeeds (conv_ok) with the converted value or fails with an abstract error
        (r"^<V as TryIntoValue>::try_into_value$", lambda e, m, a: ("enum", "Result::Ok", [a[0]]) if not (isinstance(a[0], tuple) and a[0][0] == "bad_host_value") else ("enum", "Result::Err", [("conversion_error",)])),
        (r"^<std::string::String as (?:std::convert::)?Into<Arc<std::string::String>>>::into$", ident),
        (r"^<std::string::String as Clone>::clone$", lambda e, m, a: deref(e, a[0])),
        (r"^<std::string::String as Deref>::deref$", lambda e, m, a: (lambda s_: ("str", s_[1].encode() if isinstance(s_[1], str) else s_[1]))(deref(e, a[0]))),
        (r"^std::string::String::as_str$", lambda e, m, a: (lambda s_: ("str", s_[1].encode() if isinstance(s_[1], str) else s_[1]))(deref(e, a[0]))),
        (r"^<&std::string::String as (?:std::convert::)?Into<std::string::String>>::into$", lambda e, m, a: deref(e, a[0])),
        (r"^<&str as (?:std::convert::)?Into<std::string::String>>::into$", lambda e, m, a: ("string", a[0][1].decode())),
        (r"^<str as ToString>::to_string$", lambda e, m, a: ("string", a[0][1].decode())),
        (r"^HashMap::<std::string::String, Value>::get::<std::string::String>$", m_map_get),
        (r"^HashMap::<std::string::String, Value>::insert$", m_map_insert),
        (r"^HashMap::<std::string::String, Value>::contains_key::<.*>$", lambda e, m, a: (lambda k: (k[1].decode() if isinstance(k[1], bytes) else k[1]) in deref(e, a[0])[1])(deref(e, a[1]))),
        (r"^std::option::Option::<&Value>::cloned$", m_cloned),
        (r"^<Value as Clone>::clone$", lambda e, m, a: deref(e, a[0])),
        (r"^std::option::Option::<Value>::ok_or_else::<ExecutionError, \{closure@.*\}>$", m_ok_or_else),
        (r"^context::Context::<'_>::get_variable::<std::string::String>$", m_self_call("::get_variable")),
    ] + STD_MODELS
    try:
        f_get = find("::get_variable")
        f_add = find("::add_variable_from_value")
        f_add_conv = find("::add_variable")
        names = ["a", "b", "c"]
        src_o = open(os.path.join(repo, "interpreter/src/objects.rs")).read()
        vbody = src_o[src_o.index("pub enum Value {"):]
        vbody = vbody[:vbody.index("\n}")]
        VALUE_DISC = {"Value::" + nme: k_ for k_, nme in enumerate(re.findall(r"^\s{4}([A-Z]\w*)[\(,\n {]", vbody, re.M))}

        def bound(n, lv):
            """what scope `lv` binds name `n` to: values of different kinds, among them the ones a lookup could be tempted to treat as
            'unset' (null, zero, false) in inner scopes over ordinary values outside"""
            if n == "c" and lv == 1:
                return ("enum", "Value::Null", [])
            if n == "b" and lv == 2:
                return ("enum", "Value::Bool", [False])
            if n == "a" and lv == 1:
                return ("enum", "Value::Int", [0])
            return ("enum", "Value::Int", [100 * (lv + 1) + "abc".index(n)])
        subsets = [[n for k, n in enumerate(names) if (mask >> k) & 1] for mask in range(8)]
        for levels in (1, 2, 3):
            for combo in itertools.product(subsets, repeat=levels):
                stats["scenarios"] += 1
                holders = []
                parent_ref = None
                for lv, defined in enumerate(combo):
                    vars_ = ("map", {n: bound(n, lv) for n in defined})
                    if lv == 0:
                        node = ("enum", "Context::Root", [("registry",), vars_])
                    else:
                        node = ("enum", "Context::Child", [parent_ref, vars_])
                    h = {0: node}
                    holders.append(h)
                    parent_ref = Ref(h, 0, ())
                inner = parent_ref

                def expected(name, combo=combo):
                    for lv in range(len(combo) - 1, -1, -1):
                        if name in combo[lv]:
                            return ("enum", "Result::Ok", [bound(name, lv)])
                    return None
                eng = Engine(fns, consts, extern)
                eng.discriminants = {"Context::Root": 0, "Context::Child": 1, "Result::Ok": 0, "Result::Err": 1, "ControlFlow::Continue": 0, "ControlFlow::Break": 1}
                eng.discriminants.update(VALUE_DISC)
                eng.unit_variants = {"Value::Null": ("enum", "Value::Null", []), "objects::Value::Null": ("enum", "Value::Null", [])}
                eng.steps = 0
                probs = []
                for name in names:
                    got = eng.call_fn(f_get, [inner, ("string", name)])
                    stats["paths"] += 1
                    want = expected(name)
                    if want is not None:
                        if got != want:
                            probs.append("lookup of %s gives %r, expected %r" % (name, got, want))
                    elif not (got[1] == "Result::Err" and got[2][0][1] == "ExecutionError::UndeclaredReference" and got[2][0][2][0] == ("string", name)):
                        probs.append("lookup of undefined %s is not UndeclaredReference(%s): %r" % (name, name, got))
                # functions live in the root registry only: a variable of the same name, in any scope, neither
                # hides a function nor makes one appear (the registry here knows `a` and `size`)
                for fname in ("a", "b", "size"):
                    gotf = eng.call_fn(find("::get_function"), [inner, ("str", fname.encode())])
                    hasf = eng.call_fn(find("::has_function"), [inner, ("str", fname.encode())])
                    stats["paths"] += 2
                    wantf = fname in ("a", "size")
                    if (gotf[0] == "Some") != wantf or bool(hasf) != wantf:
                        probs.append("function lookup of %s is %r/%r although the registry %s it" % (fname, gotf[0], hasf, "has" if wantf else "lacks"))
                # define / redefine in the innermost scope
                for name in names:
                    before = [copy.deepcopy(h[0][2][1][1]) for h in holders[:-1]]
                    eng.call_fn(f_add, [inner, ("string", name), ("enum", "Value::Int", [7000 + "abc".index(name)])])
                    stats["paths"] += 1
                    after = [h[0][2][1][1] for h in holders[:-1]]
                    if before != after:
                        probs.append("defining %s in the innermost scope changed an enclosing scope" % name)
                    got = eng.call_fn(f_get, [inner, ("string", name)])
                    if got != ("enum", "Result::Ok", [("enum", "Value::Int", [7000 + "abc".index(name)])]):
                        probs.append("after defining %s the lookup gives %r" % (name, got))
                # the host-facing definition (`add_variable`, with a conversion): define and redefine in the innermost scope;
                # a failing conversion defines nothing
                for name in names:
                    for round_ in (1, 2):
                        before = [copy.deepcopy(h[0][2][1][1]) for h in holders[:-1]]
                        r_add = eng.call_fn(f_add_conv, [inner, ("string", name), ("enum", "Value::Int", [8000 + 10 * round_ + "abc".index(name)])])
                        stats["paths"] += 1
                        if before != [h[0][2][1][1] for h in holders[:-1]]:
                            probs.append("add_variable(%s) in the innermost scope changed an enclosing scope" % name)
                        if not (isinstance(r_add, tuple) and r_add[1] == "Result::Ok"):
                            probs.append("add_variable(%s) with a convertible value is not Ok: %r" % (name, r_add))
                        got = eng.call_fn(f_get, [inner, ("string", name)])
                        if got != ("enum", "Result::Ok", [("enum", "Value::Int", [8000 + 10 * round_ + "abc".index(name)])]):
                            probs.append("after add_variable(%s) (definition %d) the lookup gives %r" % (name, round_, got))
                    r_bad = eng.call_fn(f_add_conv, [inner, ("string", name), ("bad_host_value",)])
                    got = eng.call_fn(f_get, [inner, ("string", name)])
                    if not (isinstance(r_bad, tuple) and r_bad[1] == "Result::Err") or got != ("enum", "Result::Ok", [("enum", "Value::Int", [8020 + "abc".index(name)])]):
                        probs.append("add_variable(%s) with an inconvertible value: result %r, lookup afterwards %r" % (name, r_bad, got))
                if probs:
                    failures.append({"levels": levels, "defined": [list(x) for x in combo], "problems": probs[:4]})
                else:
                    stats["proved"] += 1
                    if stats["scenarios"] % 97 == 0 and len(samples) < 8:
                        samples.append({"levels": levels, "defined_per_level": [list(x) for x in combo], "lookups": {n: (expected(n) or ["UndeclaredReference"])[-1] if expected(n) is None else expected(n)[2][0][1] for n in names}})
                stats["functions"] |= eng.stats["functions"]
        # ---- the function registry itself (C20: a host function registered under a built-in's name replaces it; lookups go to the root)
        reg = {n.split("::")[-1].split("#")[0]: f for n, f in fns.items() if re.match(r"^magic::<impl at [^>]*>::(add|get|has)(#\d+)?$", n)}
        f_addfn = find("::add_function")
        if set(reg) != {"add", "get", "has"}:
            raise Unsupported("FunctionRegistry::add/get/has not found (%s)" % sorted(reg))

        def txt(x):
            x = x if not isinstance(x, Ref) else None
            return None

        def key_of(e, k):
            k = deref(e, k)
            return k[1].decode() if isinstance(k[1], bytes) else k[1]
        rext = [
            (r"^<F as IntoFunction<T>>::into_function$", lambda e, m, a: ("boxed_fn", a[0])),
            (r"^HashMap::<std::string::String, Box<dyn .*>>::insert$", lambda e, m, a: (lambda hm, k, v: (("Some", hm[1].pop(k)) if k in hm[1] else ("None",), hm[1].__setitem__(k, v))[0])(deref(e, a[0]), key_of(e, a[1]), a[2])),
            (r"^HashMap::<std::string::String, Box<dyn .*>>::get::<str>$", lambda e, m, a: (lambda hm, k: ("Some", Ref({0: hm[1][k]}, 0, ())) if k in hm[1] else ("None",))(deref(e, a[0]), key_of(e, a[1]))),
            (r"^HashMap::<std::string::String, Box<dyn .*>>::contains_key::<str>$", lambda e, m, a: key_of(e, a[1]) in deref(e, a[0])[1]),
            (r"^FunctionRegistry::add::<F, T>$", lambda e, m, a: e.call_fn(reg["add"], a)),
            (r"^(?:magic::)?FunctionRegistry::(get|has)$", lambda e, m, a: e.call_fn(reg[m.group(1)], a)),
            (r"^<str as ToString>::to_string$", lambda e, m, a: ("string", a[0][1].decode())),
        ] + [x for x in extern if "FunctionRegistry" not in x[0]]
        for levels in (1, 2, 3):
            stats["scenarios"] += 1
            functions = ("map", {"size": ("boxed_fn", ("builtin", "size")), "max": ("boxed_fn", ("builtin", "max"))})
            root = {0: ("enum", "Context::Root", [[functions], ("map", {})])}
            top = Ref(root, 0, ())
            holders_ = [root]
            for lv in range(1, levels):
                h = {0: ("enum", "Context::Child", [top, ("map", {})])}
                holders_.append(h)
                top = Ref(h, 0, ())
            eng = Engine(fns, consts, rext)
            eng.discriminants = {"Context::Root": 0, "Context::Child": 1, "Result::Ok": 0, "Result::Err": 1, "ControlFlow::Continue": 0, "ControlFlow::Break": 1}
            eng.steps = 0
            probs = []
            look = lambda nm: eng.call_fn(find("::get_function"), [top, ("str", nm.encode())])
            has = lambda nm: eng.call_fn(find("::has_function"), [top, ("str", nm.encode())])
            got = look("size")
            if not (got[0] == "Some" and deref(eng, got[1]) == ("boxed_fn", ("builtin", "size"))):
                probs.append("lookup of a built-in from scope depth %d gives %r" % (levels, got))
            # registration happens on the root context
            eng.call_fn(f_addfn, [Ref(root, 0, ()), ("str", b"size"), ("host", "my_size")])
            eng.call_fn(f_addfn, [Ref(root, 0, ()), ("str", b"fresh"), ("host", "fresh")])
            stats["paths"] += 6
            got = look("size")
            if not (got[0] == "Some" and deref(eng, got[1]) == ("boxed_fn", ("host", "my_size"))):
                probs.append("a host function registered under a built-in's name does not replace it: lookup gives %r" % (got,))
            got = look("fresh")
            if not (got[0] == "Some" and deref(eng, got[1]) == ("boxed_fn", ("host", "fresh"))) or not has("fresh"):
                probs.append("a newly registered function is not found from scope depth %d" % levels)
            got = look("max")
            if not (got[0] == "Some" and deref(eng, got[1]) == ("boxed_fn", ("builtin", "max"))):
                probs.append("registering one function changed another: max is now %r" % (got,))
            if look("absent")[0] != "None" or has("absent"):
                probs.append("a name that was never registered is found")
            if probs:
                failures.append({"levels": levels, "defined": "function registry", "problems": probs[:4]})
            else:
                stats["proved"] += 1
            stats["functions"] |= eng.stats["functions"]
    except (Unsupported, PanicFound) as u:
        status = 2
        print("INCONCLUSIVE: %s" % u)
    if failures:  # a counterexample stands even if a later scenario met an unmodelled call (it is replayed natively anyway)
        status = 1
    out = {"functions_encoded": sorted(stats["functions"]), "scenarios": stats["scenarios"], "paths": stats["paths"], "paths_proved": stats["paths"] if not failures else 0,
           "configurations_proved": stats["proved"], "queries": 0, "solver_s": 0.0, "wall_s": round(time.time() - t0, 2), "failures": failures[:10], "samples": samples}
    if outp:
        json.dump(out, open(outp, "w"), indent=1)
    for f in failures[:4]:
        print("COUNTEREXAMPLE " + json.dumps(f)[:600])
    print("mirsym context_chain: %d scope configurations, %d executions, %d proved, %d failures, %.1fs wall" % (stats["scenarios"], stats["paths"], stats["proved"], len(failures), out["wall_s"]))
    return status


if __name__ == "__main__":
    sys.exit(main())
