#!/usr/bin/env python3
"""C20 (argument binding) decided on the MIR of the extractors in interpreter/src/magic.rs and the
resolvers in interpreter/src/resolvers.rs.

A `FunctionContext` is modelled structurally: name, `this` (None or an abstract receiver value),
the parent context, `args` (a vector of 0..3 abstract argument expressions) and `arg_idx`.  Each
extractor is executed on every such context; `Value::resolve(arg, ptx)` is an event returning an
arbitrary result (an error or an abstract value), `<T as FromValue>::from_value` an uninterpreted
conversion.  Proved per extractor:

  * This<T>: takes the receiver when there is one (no argument consumed, nothing evaluated),
    otherwise consumes exactly the next argument; with neither it is MissingArgumentOrTarget;
  * positional extractors (Value, and through it every typed parameter): consume the argument at
    `arg_idx`, evaluate it exactly once against the parent context, advance `arg_idx` by one; a
    missing argument is InvalidArgumentCount{expected: idx+1, actual: n}, never a panic;
  * Expression / Identifier: return the unevaluated argument expression at `arg_idx`; a missing
    argument is an error value, never a panic;
  * Arguments: evaluates every argument once, in order, first error aborts.

usage: extractors.py <mir-file> <repo-root> [--json out.json]; exit 0 proved / 1 counterexample / 2 inconclusive
"""
import json
import os
import re
import sys
import time
import z3
sys.path.insert(0, os.path.dirname(os.path.abspath(__file__)))
# bound on the number of children / elements per node; the thorough tier of the driver raises it
DEPTH = int(os.environ.get("MIRSYM_DEPTH", "3"))
from mirsym import Engine, parse_mir, STD_MODELS, Unsupported, PanicFound, Ref, Opaque, is_sym


def main():
    mir, repo = sys.argv[1], sys.argv[2]
    outp = sys.argv[sys.argv.index("--json") + 1] if "--json" in sys.argv else None
    t0 = time.time()
    fns, consts = parse_mir(open(mir).read())
    stats = {"scenarios": 0, "paths": 0, "proved": 0, "queries": 0, "solver_s": 0.0, "assert_obligations": 0, "functions": set()}
    failures, samples = [], []
    status = 0
    cur = {}

    def by_sig(suffix, argty=None, ret=None):
        c = [f for n, f in fns.items() if (n.split("#")[0].endswith(suffix))
             and (argty is None or (f.args and f.args[0].split(": ", 1)[1] == argty)) and (ret is None or ret in f.ret)]
        if len(c) != 1:
            raise Unsupported("function %s (arg %s, ret %s): %d candidates" % (suffix, argty, ret, len(c)))
        return c[0]

    def deref(e, x):
        return e.read_path(x.frame, x.local, list(x.proj)) if isinstance(x, Ref) else x

    def m_resolve(e, m, a):
        h = deref(e, a[0])
        ctx = a[1]
        cur["events"].append(("resolve", h[1], "ptx" if isinstance(ctx, Opaque) and ctx.what == "ptx" else "other"))
        return cur["results"][h[1]]

    def m_from_value(e, m, a):
        v = deref(e, a[0])
        cur["events"].append(("from_value",))
        if cur["conv_ok"]:
            return ("enum", "Result::Ok", [("converted", v)])
        return ("enum", "Result::Err", [("abs_err", "conversion")])

    def m_try_branch(e, m, a):
        r = a[0]
        if r[1].endswith("Ok"):
            return ("enum", "ControlFlow::Continue", [r[2][0]])
        return ("enum", "ControlFlow::Break", [("enum", "Result::Err", [r[2][0]])])

    def m_from_residual(e, m, a):
        return ("enum", "Result::Err", [a[0][2][0]])

    def m_map_err(e, m, a):
        r = a[0]
        if r[1].endswith("Ok"):
            return r
        cty = re.search(r"(\{closure@[^}]*\})", m.group(0)).group(1)
        return ("enum", "Result::Err", [e.call_fn(e.closure_fn(cty), [a[1], r[2][0]])])

    def m_fctx_resolve(e, m, a):
        # FunctionContext::resolve::<R>(self, resolver) is `resolver.resolve(self)`
        kind = m.group(1)
        f = by_sig("::resolve", "&" + kind)
        tmp = {0: a[1]}
        return e.call_fn(f, [Ref(tmp, 0, ()), a[0]])

    def m_vec_deref(e, m, a):
        v = deref(e, a[0])
        return ("slice", a[0])

    def m_slice_get(e, m, a):
        s, k = a
        v = deref(e, s[1])
        if is_sym(k):
            raise Unsupported("symbolic index")
        if k < len(v[1]):
            r = s[1]
            return ("Some", Ref(r.frame, r.local, list(r.proj) + [("field", 1), ("idx", k)]))
        return ("None",)

    def m_slice_get_mut(e, m, a):
        s_, k = a
        base = s_[1] if isinstance(s_, tuple) and s_[0] == "slice" else s_
        v = deref(e, base)
        if is_sym(k):
            raise Unsupported("symbolic index")
        if k < len(v[1]):
            return ("Some", Ref(base.frame, base.local, list(base.proj) + [("field", 1), ("idx", k)]))
        return ("None",)

    def m_mem_take(e, m, a):
        r = a[0]
        old = e.read_path(r.frame, r.local, list(r.proj))
        e.write_path(r.frame, r.local, list(r.proj), ("default", m.group(1)))
        return old

    def m_mem_replace(e, m, a):
        r = a[0]
        old = e.read_path(r.frame, r.local, list(r.proj))
        e.write_path(r.frame, r.local, list(r.proj), a[1])
        return old

    def m_vec_len(e, m, a):
        return len(deref(e, a[0])[1])

    def m_vec_index(e, m, a):
        r, k = a
        v = deref(e, r)
        if k >= len(v[1]):
            e.violations.append({"kind": "panic", "message": "index out of bounds: args[%d] with %d arguments" % (k, len(v[1])), "function": "arg_expr_from_context", "model": None})
            raise PanicFound("index out of bounds on FunctionContext.args", None)
        return Ref(r.frame, r.local, list(r.proj) + [("field", 1), ("idx", k)])

    def m_option_ok_or(e, m, a):
        opt, err = a
        if opt[0] == "Some":
            return ("enum", "Result::Ok", [opt[1]])
        return ("enum", "Result::Err", [err])

    def m_invalid_argument_count(e, m, a):
        return ("enum", "ExecutionError::InvalidArgumentCount", [a[0], a[1]])

    def m_missing(e, m, a):
        return ("enum", "ExecutionError::MissingArgumentOrTarget", [])

    def m_clone(e, m, a):
        return deref(e, a[0])

    def m_with_capacity(e, m, a):
        return ("vecv", [])

    def m_vec_iter(e, m, a):
        v = deref(e, a[0])
        if isinstance(v, tuple) and v[0] == "slice":
            return ["iter", v[1], v[2] if len(v) > 2 else 0]
        return ["iter", a[0], 0]

    def m_index_range_from(e, m, a):
        r, rng = a
        v = deref(e, r)
        start = rng[0]
        base, off = (v[1], v[2] if len(v) > 2 else 0) if isinstance(v, tuple) and v[0] == "slice" else (r, 0)
        n = len(deref(e, base)[1])
        if off + start > n:
            e.violations.append({"kind": "panic", "message": "range start index out of range for slice", "function": "index", "model": None})
            raise PanicFound("slice index", None)
        return Ref({0: ("slice", base, off + start)}, 0, ())

    def m_iter_next(e, m, a):
        it = deref(e, a[0])
        v = deref(e, it[1])
        if it[2] < len(v[1]):
            r = it[1]
            k = it[2]
            it[2] += 1
            return ("Some", Ref(r.frame, r.local, list(r.proj) + [("field", 1), ("idx", k)]))
        return ("None",)

    def m_vec_push(e, m, a):
        v = deref(e, a[0])
        v[1].append(a[1])
        return []

    def m_into_list(e, m, a):
        return ("arc", a[0])

    extern = [
        (r"^Value::resolve$", m_resolve),
        (r"^<T as (?:magic::)?FromValue>::from_value$", m_from_value),
        (r"^<std::result::Result<.*> as Try>::branch$", m_try_branch),
        (r"^<std::result::Result<.*> as FromResidual<std::result::Result<Infallible, ExecutionError>>>::from_residual$", m_from_residual),
        (r"^std::result::Result::<Value, ExecutionError>::map_err::<ExecutionError, \{closure@.*\}>$", m_map_err),
        (r"^FunctionContext::<'_>::resolve::<(\w+)>$", m_fctx_resolve),
        (r"^<Vec<Expression> as Deref>::deref$", m_vec_deref),
        (r"^core::slice::<impl \[Expression\]>::get::<usize>$", m_slice_get),
        (r"^core::slice::<impl \[Expression\]>::get_mut::<usize>$", m_slice_get_mut),
        (r"^<Vec<Expression> as DerefMut>::deref_mut$", lambda e, m, a: ("slice", a[0])),
        (r"^std::mem::take::<(.*)>$", m_mem_take),
        (r"^std::mem::replace::<(.*)>$", m_mem_replace),
        (r"^core::slice::<impl \[Expression\]>::first$", lambda e, m, a: m_slice_get(e, m, [a[0], 0])),
        (r"^core::slice::<impl \[Expression\]>::len$", lambda e, m, a: len(deref(e, a[0][1])[1])),
        (r"^core::slice::<impl \[Expression\]>::is_empty$", lambda e, m, a: len(deref(e, a[0][1])[1]) == 0),
        (r"^Vec::<Expression>::is_empty$", lambda e, m, a: len(deref(e, a[0])[1]) == 0),
        (r"^Vec::<Expression>::len$", m_vec_len),
        (r"^<Vec<Expression> as Index<usize>>::index$", m_vec_index),
        (r"^<(?:Vec<Expression>|\[Expression\]) as Index<std::ops::RangeFrom<usize>>>::index$", m_index_range_from),
        (r"^<&\[Expression\] as IntoIterator>::into_iter$", m_vec_iter),
        (r"^std::option::Option::<&Expression>::ok_or::<ExecutionError>$", m_option_ok_or),
        (r"^ExecutionError::invalid_argument_count$", m_invalid_argument_count),
        (r"^ExecutionError::missing_argument_or_target$", m_missing),
        (r"^<Expression as Clone>::clone$", m_clone),
        (r"^Vec::<Value>::with_capacity$", m_with_capacity),
        (r"^core::slice::<impl \[Expression\]>::iter$", m_vec_iter),
        (r"^<std::slice::Iter<'_, Expression> as IntoIterator>::into_iter$", lambda e, m, a: a[0]),
        (r"^<std::slice::Iter<'_, Expression> as Iterator>::next$", m_iter_next),
        (r"^Vec::<Value>::push$", m_vec_push),
        (r"^<Arc<Vec<Value>> as Clone>::clone$", m_clone),
        (r"^<Vec<Value> as (?:std::convert::)?Into<Arc<Vec<Value>>>>::into$", m_into_list),
    ] + STD_MODELS

    def new_engine():
        e = Engine(fns, consts, extern)
        e.discriminants = {"ControlFlow::Continue": 0, "ControlFlow::Break": 1, "Result::Ok": 0, "Result::Err": 1}
        src = open(os.path.join(repo, "interpreter/src/objects.rs")).read()
        body = src[src.index("pub enum Value {"):]
        body = body[:body.index("\n}")]
        for k, nme in enumerate(re.findall(r"^\s{4}([A-Z]\w*)[\(,\n {]", body, re.M)):
            e.discriminants["Value::" + nme] = k
        return e

    def scenario(label, fn, n, idx, has_this, results, conv_ok, spec):
        stats["scenarios"] += 1
        eng = new_engine()
        desc = {"extractor": label, "args": n, "arg_idx": idx, "receiver": has_this, "results": results, "conversion_ok": conv_ok}

        def entry(e):
            cur.clear()
            res = [("enum", "Result::Ok", [("abs_val", "arg%d" % j)]) if results[j] == "ok" else ("enum", "Result::Err", [("abs_err", j)]) for j in range(n)]
            fctx = [("string", "f"), ("Some", ("abs_val", "receiver")) if has_this else ("None",), Opaque("ptx"),
                    ("vec", [("operand", j) for j in range(n)]), idx]
            cur.update({"events": [], "results": res, "conv_ok": conv_ok, "fctx": fctx})
            hold = {0: fctx}
            return e.call_fn(fn, [Ref(hold, 0, ())])

        def on_path(res, e):
            probs = spec(res, cur["events"], cur["fctx"], cur["results"])
            # an extractor hands data out; the call's argument expressions, function name and receiver stay what the call site put there
            if cur["fctx"][3] != ("vec", [("operand", j) for j in range(n)]):
                probs = list(probs) + ["the FunctionContext's argument expressions were modified: %r" % (cur["fctx"][3],)]
            if cur["fctx"][0] != ("string", "f") or cur["fctx"][1] != (("Some", ("abs_val", "receiver")) if has_this else ("None",)):
                probs = list(probs) + ["the FunctionContext's name / receiver were modified"]
            if probs:
                failures.append(dict(desc, problems=probs, events=[list(x) for x in cur["events"]]))
            else:
                stats["proved"] += 1
                if stats["scenarios"] % 9 == 0 and len(samples) < 20:
                    samples.append(dict(desc, events=[list(x) for x in cur["events"]], result=res[1] if isinstance(res, tuple) else str(type(res))))
        try:
            eng.explore(entry, None, on_path, [])
        except PanicFound as p:
            failures.append(dict(desc, problems=["panic reachable: %s" % p.msg], panics=eng.violations[:1]))
        for k in ("paths", "queries", "assert_obligations"):
            stats[k] += eng.stats[k]
        stats["solver_s"] += eng.stats["solver_s"]
        stats["functions"] |= eng.stats["functions"]

    # ---------------- specifications
    def spec_positional(res, ev, fctx, results, idx, n):
        p = []
        if fctx[4] != idx + 1:
            p.append("arg_idx is %r after the extractor, expected %d" % (fctx[4], idx + 1))
        if idx < n:
            if ev != [("resolve", idx, "ptx")]:
                p.append("evaluation events %s, expected exactly one evaluation of argument %d against the parent context" % (ev, idx))
            if res != results[idx]:
                p.append("the extractor did not return the argument's result")
        else:
            if ev:
                p.append("something was evaluated although the argument is missing: %s" % ev)
            if not (res[1] == "Result::Err" and res[2][0][1] == "ExecutionError::InvalidArgumentCount" and res[2][0][2] == [idx + 1, n]):
                p.append("a missing argument is not InvalidArgumentCount{expected: %d, actual: %d}: %r" % (idx + 1, n, res))
        return p

    try:
        f_value = by_sig("arg_value_from_context")
        f_expr = by_sig("arg_expr_from_context")
        f_this = by_sig("::from_context", "&mut FunctionContext<'_>", "This<T>")
        f_args = by_sig("::from_context", "&mut FunctionContext<'_>", "magic::Arguments")
        f_exprx = by_sig("::from_context", "&mut FunctionContext<'_>", "Result<Expression")
        for n in range(0, DEPTH + 1):
            for idx in range(0, n + 2):
                for rk in (["ok", "err"] if idx < n else ["ok"]):
                    results = ["ok"] * n
                    if idx < n:
                        results[idx] = rk
                    # positional value extractor
                    scenario("Value / typed parameter (arg_value_from_context)", f_value, n, idx, False, results, True,
                             lambda res, ev, fctx, rs, idx=idx, n=n: spec_positional(res, ev, fctx, rs, idx, n))
                    # This<T> without a receiver behaves like a positional extractor followed by the conversion
                    for conv_ok in (True, False):
                        def spec_this_noreceiver(res, ev, fctx, rs, idx=idx, n=n, conv_ok=conv_ok, rk=rk):
                            p = []
                            if idx < n:
                                want_ev = [("resolve", idx, "ptx")] + ([("from_value",)] if rk == "ok" else [])
                                if ev != want_ev:
                                    p.append("events %s, expected %s" % (ev, want_ev))
                                if rk == "err":
                                    if not (res[1] == "Result::Err" and res[2][0][1] == "ExecutionError::MissingArgumentOrTarget"):
                                        p.append("an erroring first argument without receiver is reported as %r (documented: MissingArgumentOrTarget)" % (res[2][0],))
                                elif conv_ok:
                                    if res != ("enum", "Result::Ok", [("enum", "This::<T>", [("converted", ("abs_val", "arg%d" % idx))])]):
                                        p.append("This(..) is not the converted first argument: %r" % (res,))
                                elif res[1] != "Result::Err":
                                    p.append("a failed conversion is not an error")
                            else:
                                if ev:
                                    p.append("something was evaluated although there is neither receiver nor argument")
                                if not (res[1] == "Result::Err" and res[2][0][1] == "ExecutionError::MissingArgumentOrTarget"):
                                    p.append("neither receiver nor argument is not MissingArgumentOrTarget: %r" % (res,))
                            return p
                        scenario("This<T>, no receiver", f_this, n, idx, False, results, conv_ok, spec_this_noreceiver)
                        # with a receiver: nothing consumed, nothing evaluated
                        def spec_this_receiver(res, ev, fctx, rs, idx=idx, conv_ok=conv_ok):
                            p = []
                            if ev != [("from_value",)]:
                                p.append("events %s, expected only the conversion of the receiver" % ev)
                            if fctx[4] != idx:
                                p.append("an argument was consumed although a receiver is present")
                            if conv_ok and res != ("enum", "Result::Ok", [("enum", "This::<T>", [("converted", ("abs_val", "receiver"))])]):
                                p.append("This(..) is not the converted receiver")
                            if not conv_ok and res[1] != "Result::Err":
                                p.append("a failed conversion of the receiver is not an error")
                            return p
                        scenario("This<T>, receiver present", f_this, n, idx, True, results, conv_ok, spec_this_receiver)
                # unevaluated-expression extractor
                def spec_expr(res, ev, fctx, rs, idx=idx, n=n):
                    p = []
                    if ev:
                        p.append("the Expression extractor evaluated something: %s" % ev)
                    if idx < n:
                        if not (isinstance(res, tuple) and res[1] == "Result::Ok" and res[2][0] == ("operand", idx)):
                            p.append("the Expression extractor did not return argument %d unevaluated: %r" % (idx, res))
                        if fctx[4] != idx + 1:
                            p.append("arg_idx not advanced")
                    elif not (isinstance(res, tuple) and res[1] == "Result::Err"):
                        p.append("a missing argument is not an error value")
                    return p
                scenario("Expression (arg_expr_from_context)", f_exprx, n, idx, False, ["ok"] * n, True, spec_expr)
            # Arguments: all, in order, first error aborts
            for bad in [None] + list(range(n)):
                results = ["ok"] * n
                if bad is not None:
                    results[bad] = "err"

                def spec_args(res, ev, fctx, rs, n=n, bad=bad):
                    p = []
                    upto = n if bad is None else bad + 1
                    want = [("resolve", j, "ptx") for j in range(upto)]
                    if ev != want:
                        p.append("events %s, expected %s (every argument once, in order, first error aborts)" % (ev, want))
                    if bad is None:
                        ok = (isinstance(res, tuple) and res[1] == "Result::Ok")
                        if not ok:
                            p.append("Arguments did not succeed")
                    elif res != rs[bad]:
                        p.append("the first failing argument's error is not the result")
                    return p
                for start in range(0, n + 1):
                    scenario("Arguments (AllArguments)", f_args, n, start, False, results, True, spec_args)
        # ---- FromValue conversions: every declared parameter type against every value kind
        kinds = {"Int": ("i64", lambda: 7), "UInt": ("u64", lambda: 7), "Float": ("f64", lambda: ("abs_f64",)), "String": ("Arc<std::string::String>", lambda: ("abs", "s")),
                 "Bytes": ("Arc<Vec<u8>>", lambda: ("abs", "b")), "Bool": ("bool", lambda: True), "List": ("Arc<Vec<Value>>", lambda: ("abs", "l")),
                 "Duration": ("TimeDelta", lambda: ("abs", "d")), "Timestamp": ("DateTime<FixedOffset>", lambda: ("abs", "t"))}
        other = {"Null": [], "Map": [("abs", "m")], "Function": [("abs", "n"), ("None",)]}
        all_kinds = list(kinds) + list(other)
        conv = [(n, f) for n, f in fns.items() if n.split("#")[0].endswith("::from_value") and "macros.rs" in n]
        for n, f in conv:
            ret = f.ret
            opt = "std::option::Option<" in ret
            target = [k for k, (ty, _) in kinds.items() if ("<%s," % ty) in ret.replace("std::option::Option<%s>" % ty, ty) or ("Result<%s," % ty) in ret or ("Option<%s>," % ty) in ret]
            if len(target) != 1:
                raise Unsupported("cannot tell the target kind of %s -> %s" % (n, ret))
            target = target[0]
            for k in all_kinds:
                stats["scenarios"] += 1
                payload = [kinds[k][1]()] if k in kinds else other[k]
                v = ("enum", "Value::" + k, payload)
                eng = new_engine()
                eng.steps = 0
                hold = {0: v}
                try:
                    res = eng.call_fn(f, [Ref(hold, 0, ())])
                except PanicFound as p:
                    failures.append({"extractor": "FromValue", "target": ret, "value_kind": k, "problems": ["panic: %s" % p.msg], "args": 0, "arg_idx": 0, "results": []})
                    continue
                stats["paths"] += 1
                if k == target:
                    want_ok = ("Some", payload[0]) if opt else payload[0]
                    good = res[1] == "Result::Ok" and res[2][0] == want_ok
                elif opt and k == "Null":
                    good = res[1] == "Result::Ok" and res[2][0] == ("None",)
                else:
                    good = res[1] == "Result::Err" and res[2][0][1] == "ExecutionError::UnexpectedType"
                if good:
                    stats["proved"] += 1
                else:
                    failures.append({"extractor": "FromValue", "target": ret, "value_kind": k, "args": 0, "arg_idx": 0, "results": [],
                                     "problems": ["converting a %s value to %s gives %r" % (k, ret, res)]})
                stats["functions"] |= eng.stats["functions"]
    except Unsupported as u:
        status = 2
        print("INCONCLUSIVE: unsupported: %s" % u)
    if failures:  # a counterexample stands even if a later scenario met an unmodelled call (it is replayed natively anyway)
        status = 1
    out = {"functions_encoded": sorted(stats["functions"]), "scenarios": stats["scenarios"], "paths": stats["paths"], "paths_proved": stats["proved"],
           "queries": stats["queries"], "assert_obligations": stats["assert_obligations"], "solver_s": round(stats["solver_s"], 2),
           "wall_s": round(time.time() - t0, 2), "failures": failures[:20], "samples": samples}
    if outp:
        json.dump(out, open(outp, "w"), indent=1)
    for f in failures[:8]:
        print("COUNTEREXAMPLE " + json.dumps(f)[:500])
    print("mirsym extractors: %d scenarios, %d paths, %d proved, %d failures, %.1fs wall" % (stats["scenarios"], stats["paths"], stats["proved"], len(failures), out["wall_s"]))
    return status


if __name__ == "__main__":
    sys.exit(main())
