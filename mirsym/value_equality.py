#!/usr/bin/env python3
"""C09 (lists and maps), decided on the MIR of interpreter/src/objects.rs: `<Value as PartialEq>::eq`, List and Map arms
(and the derived `<Map as PartialEq>::eq`).

"Lists and maps are equal exactly when their elements or entries are."  `eq` is executed from its entry on two list
(map) values with abstract elements.  Whether element j of the left equals element j of the right is a free boolean
eq_j - the element comparison is this same function one level down (induction over the nesting depth; the scalar
arms are decided for all payloads by the Kani harnesses).  In particular a value need not equal itself: NaN does not.
The two operands live in reference-counted allocations that are either distinct or THE SAME one (`x == x` on a
variable, a list compared with its own clone): which, is part of the scenario.
std is modelled as documented:
  * `<Arc<T> as PartialEq>::eq`: compares the pointees; "if T also implements Eq (implying reflexivity of equality),
    two Arcs that point to the same allocation are always equal" - whether `Value: Eq` holds is read from the source
    (`impl Eq for Value`) on every run;
  * `<Vec<T> as PartialEq>::eq` / slices: equal lengths and pairwise equal elements;
  * `<HashMap<K, V> as PartialEq>::eq`: equal sizes and every key of the left maps to an equal value in the right.
Obligation on every path: the result is exactly  (same length / same key set)  and  eq_j for every position / key.

usage: value_equality.py <interpreter-mir-file> <repo-root> [--json out.json]
"""
import itertools
import json
import os
import re
import sys
import time
import z3
sys.path.insert(0, os.path.dirname(os.path.abspath(__file__)))
from mirsym import Engine, parse_mir, STD_MODELS, Unsupported, PanicFound, Ref, Opaque, is_sym


def main():
    mir, repo = sys.argv[1], sys.argv[2]
    outp = sys.argv[sys.argv.index("--json") + 1] if "--json" in sys.argv else None
    t0 = time.time()
    fns, consts = parse_mir(open(mir).read())
    cands = [f for n, f in fns.items() if re.match(r"^objects::<impl at [^>]*>::eq(#\d+)?$", n) and f.args and f.args[0].endswith(": &Value") and f.args[1].endswith(": &Value")]
    if len(cands) != 1:
        print("INCONCLUSIVE: <Value as PartialEq>::eq not found uniquely (%d)" % len(cands))
        return 2
    fn = cands[0]
    mapeq = [f for n, f in fns.items() if re.match(r"^objects::<impl at [^>]*>::eq(#\d+)?$", n) and f.args and "Map" in f.args[0]]
    src = open(os.path.join(repo, "interpreter/src/objects.rs")).read()
    value_is_eq = re.search(r"^\s*impl\s+(?:std::cmp::|core::cmp::)?Eq\s+for\s+Value\b", src, re.M) is not None or \
        re.search(r"#\[derive\([^)]*\bEq\b[^)]*\)\]\s*(?:#\[[^\]]*\]\s*)*pub enum Value\b", src) is not None
    body = src[src.index("pub enum Value {"):]
    body = body[:body.index("\n}")]
    names, skip = [], False
    for line in body.splitlines():
        line = line.strip()
        m = re.match(r'^#\[cfg\(feature = "(\w+)"\)\]', line)
        if m:
            skip = m.group(1) not in ("chrono",)
            continue
        m = re.match(r"^([A-Z]\w*)\b", line)
        if m and not line.startswith("//"):
            if not skip:
                names.append(m.group(1))
            skip = False
    stats = {"scenarios": 0, "paths": 0, "proved": 0, "queries": 0, "solver_s": 0.0, "functions": set()}
    failures, samples, undecided = [], [], []
    cur = {}

    def deref(e, x):
        k = 0
        while isinstance(x, Ref) and k < 4:
            x = e.read_path(x.frame, x.local, list(x.proj))
            k += 1
        return x

    def elem_eq(e, a, b):
        """the element comparison one level down: a free boolean per compared pair"""
        a, b = deref(e, a), deref(e, b)
        key = (a[1:], b[1:])
        cur["events"].append(("elem_eq", a[1:], b[1:]))
        return z3.Bool("eq_%s_%s" % ("_".join(map(str, a[1:])), "_".join(map(str, b[1:]))))

    def seq_eq(e, xs, ys):
        if len(xs) != len(ys):
            return False
        out = [elem_eq(e, x, y) for x, y in zip(xs, ys)]
        return z3.And(*out) if out else True

    def map_eq(e, xs, ys):
        if len(xs) != len(ys):
            return False
        out = []
        for k, v in xs:
            other = [w for kk, w in ys if kk == k]
            if not other:
                return False
            out.append(elem_eq(e, v, other[0]))
        return z3.And(*out) if out else True

    def m_arc_eq(e, m, a):
        x, y = deref(e, a[0]), deref(e, a[1])
        # x, y: ("arc", cell_id, payload)
        cur["events"].append(("arc_eq", x[1], y[1]))
        if value_is_eq and x[1] == y[1]:
            return True   # documented shortcut of Arc<T: Eq>
        px, py = x[2], y[2]
        if px[0] == "vec":
            return seq_eq(e, px[1], py[1])
        if px[0] == "hashmap":
            return map_eq(e, px[1], py[1])
        raise Unsupported("Arc payload %r" % (px[0],))

    def m_ref_map_eq(e, m, a):
        if len(mapeq) != 1:
            raise Unsupported("<Map as PartialEq>::eq not found uniquely")
        one = lambda r: e.read_path(r.frame, r.local, list(r.proj))   # &&Map -> &Map
        return e.call_fn(mapeq[0], [one(a[0]), one(a[1])])

    def m_value_eq(e, m, a):
        return elem_eq(e, a[0], a[1])

    extern = [
        (r"^<&?Arc<(?:Vec<Value>|HashMap<Key, Value>)> as PartialEq>::eq$", m_arc_eq),
        (r"^Arc::<(?:Vec<Value>|HashMap<Key, Value>)>::ptr_eq$", lambda e, m, a: deref(e, a[0])[1] == deref(e, a[1])[1]),
        (r"^<&objects::Map as PartialEq>::eq$", m_ref_map_eq),
        (r"^<Arc<(?:Vec<Value>|HashMap<Key, Value>)> as Deref>::deref$", lambda e, m, a: Ref({0: deref(e, a[0])[2]}, 0, ())),
        (r"^<Vec<Value> as PartialEq>::eq$", lambda e, m, a: seq_eq(e, deref(e, a[0])[1], deref(e, a[1])[1])),
        (r"^<\[Value\] as PartialEq>::eq$", lambda e, m, a: seq_eq(e, deref(e, a[0])[1], deref(e, a[1])[1])),
        (r"^<HashMap<Key, Value> as PartialEq>::eq$", lambda e, m, a: map_eq(e, deref(e, a[0])[1], deref(e, a[1])[1])),
        (r"^Vec::<Value>::len$", lambda e, m, a: len(deref(e, a[0])[1])),
        (r"^<Value as PartialEq>::(eq)$", m_value_eq),
    ] + STD_MODELS

    def run(desc, left, right, want_fn):
        stats["scenarios"] += 1
        eng = Engine(fns, consts, extern)
        eng.discriminants = {"Value::" + n: k for k, n in enumerate(names)}

        def entry(e):
            cur["events"] = []
            return e.call_fn(fn, [Ref({0: left}, 0, ()), Ref({0: right}, 0, ())])

        def on_path(res, e):
            want = want_fn()
            R = res if is_sym(res) else z3.BoolVal(bool(res))
            W = want if is_sym(want) else z3.BoolVal(bool(want))
            if e.check(R != W):
                mdl = e.solver.model()
                failures.append(dict(desc, problems=["eq returns %s where element-wise equality is %s" % (mdl.eval(R, model_completion=True), mdl.eval(W, model_completion=True))],
                                     element_equalities={str(d): str(mdl[d]) for d in mdl.decls()}, events=[str(x) for x in cur["events"]][:8]))
            else:
                stats["proved"] += 1
                if len(samples) < 10 and stats["scenarios"] % 5 == 0:
                    samples.append(dict(desc, events=[str(x) for x in cur["events"]][:6]))
        try:
            eng.explore(entry, None, on_path, [])
        except PanicFound as p:
            failures.append(dict(desc, problems=["panic reachable: %s" % p.msg]))
        except Unsupported as u:
            undecided.append("%s: %s" % (json.dumps(desc), str(u)[:160]))
        for k in ("paths", "queries"):
            stats[k] += eng.stats[k]
        stats["solver_s"] += eng.stats["solver_s"]
        stats["functions"] |= eng.stats["functions"]

    EL = lambda side, j: ("elem", side, j)
    eqv = lambda a, b: z3.Bool("eq_%s_%s" % ("_".join(map(str, a[1:])), "_".join(map(str, b[1:]))))
    # ---- lists
    for n in range(0, 3):
        # the same allocation on both sides (x == x): every element is compared with itself
        cell = ("arc", "cell0", ("vec", [EL("s", j) for j in range(n)]))
        v = ("enum", "Value::List", [cell])
        run({"kind": "list", "allocation": "same", "elements": n}, v, v, lambda n=n: z3.And(*[eqv(EL("s", j), EL("s", j)) for j in range(n)]) if n else True)
        for m_ in range(0, 3):
            l = ("enum", "Value::List", [("arc", "cellL", ("vec", [EL("l", j) for j in range(n)]))])
            r = ("enum", "Value::List", [("arc", "cellR", ("vec", [EL("r", j) for j in range(m_)]))])
            run({"kind": "list", "allocation": "distinct", "elements": [n, m_]}, l, r,
                lambda n=n, m_=m_: (z3.And(*[eqv(EL("l", j), EL("r", j)) for j in range(n)]) if n else True) if n == m_ else False)
    # ---- maps (keys are concrete; values abstract)
    keysets = [[], ["a"], ["a", "b"], ["b"]]
    for ks in keysets:
        cell = ("arc", "cell0", ("hashmap", [(k, EL("s", k)) for k in ks]))
        v = ("enum", "Value::Map", [[cell]])
        run({"kind": "map", "allocation": "same", "keys": ks}, v, v, lambda ks=ks: z3.And(*[eqv(EL("s", k), EL("s", k)) for k in ks]) if ks else True)
        for ks2 in keysets:
            l = ("enum", "Value::Map", [[("arc", "cellL", ("hashmap", [(k, EL("l", k)) for k in ks]))]])
            r = ("enum", "Value::Map", [[("arc", "cellR", ("hashmap", [(k, EL("r", k)) for k in ks2]))]])
            run({"kind": "map", "allocation": "distinct", "keys": [ks, ks2]}, l, r,
                lambda ks=ks, ks2=ks2: (z3.And(*[eqv(EL("l", k), EL("r", k)) for k in ks]) if ks else True) if sorted(ks) == sorted(ks2) else False)
    # ---- a list is never equal to a map or a scalar
    lst = ("enum", "Value::List", [("arc", "cellL", ("vec", []))])
    mp = ("enum", "Value::Map", [[("arc", "cellR", ("hashmap", []))]])
    run({"kind": "list vs map"}, lst, mp, lambda: False)
    run({"kind": "map vs list"}, mp, lst, lambda: False)
    run({"kind": "list vs null"}, lst, ("enum", "Value::Null", []), lambda: False)
    status = 0
    if undecided:
        status = 2
        print("INCONCLUSIVE: %d scenarios undecided, e.g. unsupported: %s" % (len(undecided), undecided[0][:300]))
    if failures:
        status = 1
    out = {"functions_encoded": sorted(stats["functions"]), "value_implements_eq": value_is_eq, "scenarios": stats["scenarios"], "paths": stats["paths"], "paths_proved": stats["proved"],
           "queries": stats["queries"], "solver_s": round(stats["solver_s"], 2), "wall_s": round(time.time() - t0, 2), "failures": failures[:12], "samples": samples}
    if outp:
        json.dump(out, open(outp, "w"), indent=1)
    for f in failures[:4]:
        print("COUNTEREXAMPLE " + json.dumps(f)[:500])
    print("mirsym value_equality: %d scenarios, %d paths, %d proved, %d failures, %d queries, %.1fs wall (Value: Eq = %s)" % (
        stats["scenarios"], stats["paths"], stats["proved"], len(failures), stats["queries"], out["wall_s"], value_is_eq))
    return status


if __name__ == "__main__":
    sys.exit(main())
