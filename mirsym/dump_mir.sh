#!/bin/bash
# usage: dump_mir.sh <repo-root> <out-file> [interpreter|antlr|interpreter-json]
# dumps the MIR of cel-interpreter (lib, chrono feature) or cel-parser (antlr/) with overflow checks on
# from the given working tree, forcing a fresh rustc run every time
set -e
repo=${1:-/repo}; out=${2:-/verif/.cache/mir/interpreter.mir}; crate=${3:-interpreter}
tdir=${MIR_TARGET_DIR:-/verif/.cache/mir-target}
mkdir -p "$(dirname "$out")" "$tdir"
feat="--no-default-features --features chrono"
[ "$crate" = "antlr" ] && feat=""
[ "$crate" = "interpreter-json" ] && { feat="--no-default-features --features chrono,json"; crate=interpreter; }
cd "$repo/$crate"
CARGO_NET_OFFLINE=true cargo +nightly rustc --offline --lib $feat \
  --target-dir "$tdir" -- -Zunpretty=mir -C debug-assertions=off -C overflow-checks=on \
  --cfg "verif_mir_run_$(date +%s%N)" > "$out.tmp" 2> "$out.err" || { tail -20 "$out.err"; exit 1; }
mv "$out.tmp" "$out"
