#!/bin/bash
# usage: dump_mir.sh <repo-root> <out-file> [interpreter|antlr]
# dumps the MIR of cel-interpreter (lib, chrono feature) or cel-parser (antlr/) with overflow checks on
# from the given working tree, forcing a fresh rustc run every time
set -e
repo=${1:-/repo}; out=${2:-/verif/.cache/mir/interpreter.mir}; crate=${3:-interpreter}
mkdir -p "$(dirname "$out")" /verif/.cache/mir-target
cd "$repo/$crate"
feat="--no-default-features --features chrono"
[ "$crate" = "antlr" ] && feat=""
CARGO_NET_OFFLINE=true cargo +nightly rustc --offline --lib $feat \
  --target-dir /verif/.cache/mir-target -- -Zunpretty=mir -C debug-assertions=off -C overflow-checks=on \
  --cfg "verif_mir_run_$(date +%s%N)" > "$out.tmp" 2> "$out.err" || { tail -20 "$out.err"; exit 1; }
mv "$out.tmp" "$out"
