#!/usr/bin/env python3
"""C09 (min / max), decided on the MIR of interpreter/src/functions.rs: `max`, `min` and their fold closures.

`max(..)` / `min(..)` are executed from their entry on an `Arguments` vector of 1-4 abstract values - given as separate
arguments or as one list argument - whose mutual order is symbolic: every element carries an integer rank, and
`partial_cmp` (decided for all numeric operands by the Kani harnesses: exact, total on comparable values, transitive)
answers by comparing ranks.  Which branch of the fold is taken is then a solver decision.
Obligations on every feasible path:
  * the result is Ok(one of the given values) - a clone of element k for some k - and that element bounds all the
    others: rank_k >= rank_j for max, rank_k <= rank_j for min, for every j;
  * with one non-list argument the result is that argument;
  * a pair that is not comparable (partial_cmp = None) yields an error, never a panic and never a value;
  * no panic on any path (an empty argument list included).
usage: min_max.py <interpreter-mir-file> <repo-root> [--json out.json]
"""
import json
import os
import re
import sys
import time
import z3
sys.path.insert(0, os.path.dirname(os.path.abspath(__file__)))
from mirsym import Engine, parse_mir, STD_MODELS, Unsupported, PanicFound, Ref, Opaque, is_sym


def main():
    mir, repo = sys.argv[1], sys.argv[2]
    outp = sys.argv[sys.argv.index("--json") + 1] if "--json" in sys.argv else None
    t0 = time.time()
    fns, consts = parse_mir(open(mir).read())
    src = open(os.path.join(repo, "interpreter/src/objects.rs")).read()
    body = src[src.index("pub enum Value {"):]
    body = body[:body.index("\n}")]
    names, skip = [], False
    for line in body.splitlines():
        line = line.strip()
        m = re.match(r'^#\[cfg\(feature = "(\w+)"\)\]', line)
        if m:
            skip = m.group(1) not in ("chrono",)
            continue
        m = re.match(r"^([A-Z]\w*)\b", line)
        if m and not line.startswith("//"):
            if not skip:
                names.append(m.group(1))
            skip = False
    stats = {"scenarios": 0, "paths": 0, "proved": 0, "queries": 0, "solver_s": 0.0, "functions": set()}
    failures, samples, undecided = [], [], []
    cur = {}

    def deref(e, x):
        k = 0
        while isinstance(x, Ref) and k < 5:
            x = e.read_path(x.frame, x.local, list(x.proj))
            k += 1
        return x

    def rank_of(v):
        if isinstance(v, tuple) and v[0] == "elem":
            return z3.Int("rank_%d" % v[1])
        return None

    def m_partial_cmp(e, m, a):
        x, y = deref(e, a[0]), deref(e, a[1])
        rx, ry = rank_of(x), rank_of(y)
        cur["events"].append(("partial_cmp", x, y))
        if rx is None or ry is None:
            raise Unsupported("partial_cmp on %r / %r" % (str(x)[:40], str(y)[:40]))
        if cur.get("incomparable") and {x[1], y[1]} == set(cur["incomparable"]):
            return ("None",)
        if e.decide(rx > ry):
            return ("Some", ("enum", "Ordering::Greater", []))
        if e.decide(rx == ry):
            return ("Some", ("enum", "Ordering::Equal", []))
        return ("Some", ("enum", "Ordering::Less", []))

    def vec_of(e, x):
        x = deref(e, x)
        if isinstance(x, tuple) and x[0] == "arc":
            x = x[1]
        if isinstance(x, tuple) and x[0] == "vec":
            return x[1]
        raise Unsupported("vector expected: %r" % (str(x)[:60],))

    def m_index(e, m, a):
        v = vec_of(e, a[0])
        k = a[1]
        if k >= len(v):
            e.violations.append({"kind": "panic", "message": "index out of bounds: %d of %d" % (k, len(v)), "function": "min/max", "model": None})
            raise PanicFound("index out of bounds", None)
        return Ref({0: v[k]}, 0, ())

    def m_iter(e, m, a):
        return ["iter", [Ref({0: x}, 0, ()) for x in vec_of(e, a[0])], 0]

    def m_skip(e, m, a):
        it = a[0]
        return ["iter", it[1][a[1]:], 0]

    def m_first(e, m, a):
        v = vec_of(e, a[0])
        return ("Some", Ref({0: v[0]}, 0, ())) if v else ("None",)

    def m_try_fold(e, m, a):
        it, acc, clo = deref(e, a[0]), a[1], a[2]
        cty = re.search(r"(\{closure@[^}]*\})", m.group(0)).group(1)
        f = e.closure_fn(cty)
        for ref in it[1]:
            r = e.call_fn(f, [Ref({0: clo}, 0, ()), acc, ref])
            if isinstance(r, tuple) and r[0] == "enum" and r[1].endswith("Err"):
                return r
            if isinstance(r, tuple) and r[0] == "None":
                return r
            acc = r[2][0] if r[0] == "enum" else r[1]
        return ("enum", "Result::Ok", [acc])

    def m_fold(e, m, a):
        it, acc, clo = deref(e, a[0]), a[1], a[2]
        cty = re.search(r"(\{closure@[^}]*\})", m.group(0)).group(1)
        f = e.closure_fn(cty)
        for ref in it[1]:
            acc = e.call_fn(f, [Ref({0: clo}, 0, ()), acc, ref])
        return acc

    def m_iter_next(e, m, a):
        it = deref(e, a[0])
        if it[2] < len(it[1]):
            it[2] += 1
            return ("Some", it[1][it[2] - 1])
        return ("None",)

    extern = [
        (r"^<Value as PartialOrd>::partial_cmp$", m_partial_cmp),
        (r"^<Arc<Vec<Value>> as Deref>::deref$", lambda e, m, a: Ref({0: deref(e, a[0])}, 0, ())),
        (r"^<Vec<Value> as Deref>::deref$", lambda e, m, a: a[0]),
        (r"^Vec::<Value>::len$", lambda e, m, a: len(vec_of(e, a[0]))),
        (r"^core::slice::<impl \[Value\]>::len$", lambda e, m, a: len(vec_of(e, a[0]))),
        (r"^Vec::<Value>::is_empty$", lambda e, m, a: len(vec_of(e, a[0])) == 0),
        (r"^<Vec<Value> as Index<usize>>::index$", m_index),
        (r"^core::slice::<impl \[Value\]>::iter$", m_iter),
        (r"^<&Vec<Value> as IntoIterator>::into_iter$", m_iter),
        (r"^<std::slice::Iter<'_, Value> as Iterator>::skip$", m_skip),
        (r"^<std::slice::Iter<'_, Value> as Iterator>::next$", m_iter_next),
        (r"^<(?:std::iter::)?Skip<std::slice::Iter<'_, Value>> as Iterator>::next$", m_iter_next),
        (r"^core::slice::<impl \[Value\]>::first$", m_first),
        (r"^std::option::Option::<&Value>::unwrap_or$", lambda e, m, a: a[0][1] if a[0][0] == "Some" else a[1]),
        (r"^<(?:std::iter::)?Skip<std::slice::Iter<'_, Value>> as Iterator>::try_fold::<.*>$", m_try_fold),
        (r"^<std::slice::Iter<'_, Value> as Iterator>::try_fold::<.*>$", m_try_fold),
        (r"^<(?:(?:std::iter::)?Skip<)?std::slice::Iter<'_, Value>>? as Iterator>::fold::<.*>$", m_fold),
        (r"^std::result::Result::<&Value, ExecutionError>::cloned$", lambda e, m, a: ("enum", "Result::Ok", [deref(e, a[0][2][0])]) if a[0][1].endswith("Ok") else a[0]),
        (r"^std::option::Option::<&Value>::cloned$", lambda e, m, a: ("Some", deref(e, a[0][1])) if a[0][0] == "Some" else a[0]),
        (r"^<Value as Clone>::clone$", lambda e, m, a: deref(e, a[0])),
        (r"^<Arc<Vec<Value>> as Clone>::clone$", lambda e, m, a: deref(e, a[0])),
    ] + STD_MODELS

    def run(fname, want_max, desc, args_vec, elems, incomparable=None):
        cands = [f for n, f in fns.items() if n.split("#")[0] in ("functions::" + fname, fname) and len(f.args) == 1]
        if len(cands) != 1:
            raise Unsupported("functions::%s not found uniquely" % fname)
        stats["scenarios"] += 1
        eng = Engine(fns, consts, extern)
        eng.discriminants = {"Value::" + n: k for k, n in enumerate(names)}
        eng.discriminants.update({"Ordering::Less": 255, "Ordering::Equal": 0, "Ordering::Greater": 1, "Result::Ok": 0, "Result::Err": 1})
        n = len(elems)

        def entry(e):
            cur.clear()
            cur.update({"events": [], "incomparable": incomparable})
            return e.call_fn(cands[0], [("enum", "Arguments", [("arc", ("vec", list(args_vec)))])])

        def on_path(res, e):
            probs = []
            if incomparable:
                touched = any(x[0] == "partial_cmp" and {x[1][1], x[2][1]} == set(incomparable) for x in cur["events"])
                if touched and not (isinstance(res, tuple) and res[0] == "enum" and res[1].endswith("Err")):
                    probs.append("an incomparable pair was met but the result is not an error: %s" % (str(res)[:120],))
                if not touched and not (isinstance(res, tuple) and res[0] == "enum" and res[1].endswith("Ok")):
                    probs.append("no incomparable pair was met but the result is %s" % (str(res)[:120],))
            elif n == 0:
                pass   # only: no panic
            elif not (isinstance(res, tuple) and res[0] == "enum" and res[1].endswith("Ok")):
                probs.append("mutually comparable values but the result is %s" % (str(res)[:120],))
            else:
                v = res[2][0]
                if len(elems) == 1 and elems[0][0] == "enum":
                    if v != elems[0]:
                        probs.append("one non-list argument is not returned as it is: %s" % (str(v)[:120],))
                elif not (isinstance(v, tuple) and v[0] == "elem" and v in elems):
                    probs.append("the result is not one of the given values: %s" % (str(v)[:120],))
                else:
                    rk = rank_of(v)
                    bad = z3.Or(*[(rk < rank_of(x)) if want_max else (rk > rank_of(x)) for x in elems])
                    if e.check(bad):
                        mdl = e.solver.model()
                        probs.append("the result does not bound the other values: ranks %s, result element %d" % (
                            [mdl.eval(rank_of(x), model_completion=True).as_long() for x in elems], v[1]))
            if probs:
                failures.append(dict(desc, problems=probs, events=len(cur["events"])))
            else:
                stats["proved"] += 1
                if len(samples) < 10 and stats["proved"] % 9 == 0:
                    samples.append(dict(desc, comparisons=len(cur["events"]), result=str(res)[:60]))
        try:
            eng.explore(entry, None, on_path, [])
        except PanicFound as p:
            failures.append(dict(desc, problems=["panic reachable: %s" % p.msg]))
        except Unsupported as u:
            undecided.append("%s: %s" % (json.dumps(desc), str(u)[:160]))
        for k in ("paths", "queries"):
            stats[k] += eng.stats[k]
        stats["solver_s"] += eng.stats["solver_s"]
        stats["functions"] |= eng.stats["functions"]

    status = 0
    try:
        for fname, want_max in (("max", True), ("min", False)):
            for n in range(0, 5):
                elems = [("elem", j) for j in range(n)]
                if n != 1:
                    run(fname, want_max, {"function": fname, "form": "separate arguments", "values": n}, elems, elems)
                lst = ("enum", "Value::List", [("arc", ("vec", list(elems)))])
                run(fname, want_max, {"function": fname, "form": "one list argument", "values": n}, [lst], elems)
            # one argument that is not a list is the result
            scalar = ("enum", "Value::Int", [z3.Int("single_payload")])
            run(fname, want_max, {"function": fname, "form": "one non-list argument", "values": 1}, [scalar], [scalar])
            # an incomparable pair (e.g. NaN, or unrelated kinds) somewhere among three values
            for pair in ((0, 1), (0, 2), (1, 2)):
                elems = [("elem", j) for j in range(3)]
                run(fname, want_max, {"function": fname, "form": "separate arguments", "values": 3, "incomparable_pair": list(pair)}, elems, elems, incomparable=pair)
    except Unsupported as u:
        status = 2
        print("INCONCLUSIVE: unsupported: %s" % u)
    if undecided:
        status = 2
        print("INCONCLUSIVE: %d scenarios undecided, e.g. unsupported: %s" % (len(undecided), undecided[0][:300]))
    if failures:
        status = 1
    out = {"functions_encoded": sorted(stats["functions"]), "scenarios": stats["scenarios"], "paths": stats["paths"], "paths_proved": stats["proved"],
           "queries": stats["queries"], "solver_s": round(stats["solver_s"], 2), "wall_s": round(time.time() - t0, 2), "failures": failures[:12], "samples": samples}
    if outp:
        json.dump(out, open(outp, "w"), indent=1)
    for f in failures[:4]:
        print("COUNTEREXAMPLE " + json.dumps(f)[:500])
    print("mirsym min_max: %d scenarios, %d paths, %d proved, %d failures, %d queries, %.1fs wall" % (
        stats["scenarios"], stats["paths"], stats["proved"], len(failures), stats["queries"], out["wall_s"]))
    return status


if __name__ == "__main__":
    sys.exit(main())
