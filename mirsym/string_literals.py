#!/usr/bin/env python3
"""C12 (string and bytes literals), decided on the MIR of antlr/src/parser.rs (visit_String,
visit_Bytes) and antlr/src/parse.rs (parse_string, parse_raw_string, parse_quoted_string,
parse_bytes, parse_unicode_hex, parse_unicode_oct).

The visitor methods are executed from their entry on a token text that is assembled from the
concrete prefix / quote characters of one quoting style and a body of *symbolic characters*
constrained only by the STRING / BYTES token rules of CEL.g4 (what the lexer can hand over):
  plain   one or two arbitrary characters (any Unicode scalar the style admits verbatim),
  escape  every single-character escape, and \\xHH \\XHH \\uHHHH \\UHHHHHHHH \\OOO with symbolic
          (hex / octal) digits,
  quotes  a quote character inside a triple-quoted body, the other quote kind inside a body,
  empty   the empty body,
in all 12 string styles (', ", ''', \"\"\" x plain / r / R) and all 24 bytes styles (b / B in front).
For every feasible path z3 must show that the literal node carries exactly the value the CEL
specification assigns to the text - characters for strings, bytes (UTF-8 of verbatim characters,
the byte itself for \\x and \\OOO) for bytes literals - or that a parse error is reported exactly when
an escape names no valid code point (surrogate, beyond 10FFFF) or is not allowed (\\u / \\U in
bytes).  Raw styles must perform no escape processing.  No panic may be reachable.
Std iterator / text primitives are modelled on lists of symbolic characters (each model is listed
in the evidence); `from_str_radix` follows std: optional `+`, digits of the radix, range check.

usage: string_literals.py <parser-mir-file> <repo-root> [--json out.json]
"""
import json
import os
import re
import sys
import time
import z3
sys.path.insert(0, os.path.dirname(os.path.abspath(__file__)))
from mirsym import (Engine, parse_mir, STD_MODELS, Unsupported, PanicFound, Ref, SliceRef, Opaque, is_sym,
                    ext_res_map_err, ext_res_and_then, ext_res_map)

BS, SQ, DQ, NL, CR = 92, 39, 34, 10, 13
SINGLE_ESCAPES = {"a": 7, "b": 8, "f": 12, "n": 10, "r": 13, "t": 9, "v": 11, "\\": 92, "?": 63, '"': 34, "'": 39, "`": 96}


def main():
    mir, repo = sys.argv[1], sys.argv[2]
    outp = sys.argv[sys.argv.index("--json") + 1] if "--json" in sys.argv else None
    only = sys.argv[sys.argv.index("--only") + 1] if "--only" in sys.argv else None
    deep = "--deep" in sys.argv
    t0 = time.time()
    fns, consts = parse_mir(open(mir).read())
    stats = {"scenarios": 0, "paths": 0, "proved": 0, "queries": 0, "solver_s": 0.0, "functions": set()}
    failures, samples = [], []
    status = 0
    cur = {}

    def find(name):
        c = [f for n, f in fns.items() if re.match(r"^parser::<impl at [^>]*>::%s(#\d+)?$" % name, n)]
        if len(c) != 1:
            raise Unsupported("%s not found uniquely" % name)
        return c[0]

    def deref(e, x):
        k = 0
        while isinstance(x, Ref) and k < 4:
            x = e.read_path(x.frame, x.local, list(x.proj))
            k += 1
        return x

    def chars_of(e, x):
        x = deref(e, x)
        if isinstance(x, list) and x and x[0] == "strbuf":
            return x[1]
        if isinstance(x, tuple) and x and x[0] == "chars":
            return x[1]
        raise Unsupported("text operation on %r" % (str(x)[:80],))

    def u8len(c):
        if not is_sym(c):
            return 1 if c < 0x80 else 2 if c < 0x800 else 3 if c < 0x10000 else 4
        return z3.If(c < 0x80, 1, z3.If(c < 0x800, 2, z3.If(c < 0x10000, 3, 4)))

    # ---- text and iterators
    def m_get_text(e, m, a):
        return ["strbuf", list(cur["text"])]

    def m_ctx_deref(e, m, a):
        tok = Ref({0: ("token",)}, 0, ())
        return Ref({0: [("Some", [[tok]])] * 8}, 0, ())

    def m_as_deref(e, m, a):
        o = deref(e, a[0])
        return ("Some", o[1][0][0]) if o[0] == "Some" else ("None",)

    def m_expect(e, m, a):
        if a[0][0] != "Some":
            raise PanicFound("expect on None", None)
        return a[0][1]

    def m_str_len(e, m, a):
        total = 0
        for c in chars_of(e, a[0]):
            total = total + u8len(c)
        return total

    def byte_to_char_offset(e, chars, off, from_end=False):
        """map a byte offset that lies in a run of concrete ASCII characters to a character offset"""
        if is_sym(off):
            off = z3.simplify(off)
            if not z3.is_int_value(off):
                raise Unsupported("symbolic slice offset")
            off = off.as_long()
        seq = list(reversed(chars)) if from_end else chars
        n = 0
        while off > 0:
            if n >= len(seq):
                raise PanicFound("slice offset beyond the text", None)
            c = seq[n]
            if is_sym(c) or c >= 0x80:
                raise Unsupported("slice boundary inside the symbolic body")
            off -= 1
            n += 1
        return n

    def m_index_range(e, m, a):
        chars = chars_of(e, a[0])
        rng = a[1]
        start, end = rng[0], rng[1]
        total = 0
        for c in chars:
            total = total + u8len(c)
        # `end` is text_len - k for a small concrete k
        k_found = None
        for k in range(0, 6):
            if not e.check(end != total - k):
                k_found = k
                break
        if k_found is None:
            raise Unsupported("slice end is not len - k")
        s_off = byte_to_char_offset(e, chars, start)
        e_off = len(chars) - byte_to_char_offset(e, chars, k_found, from_end=True)
        if s_off > e_off:
            raise PanicFound("slice index starts after its end", None)
        return ("chars", chars[s_off:e_off])

    def concrete_u8len(e, c):
        """UTF-8 length of a character, deciding the length class of a symbolic one on this path"""
        if not is_sym(c):
            return 1 if c < 0x80 else 2 if c < 0x800 else 3 if c < 0x10000 else 4
        if e.decide(c < 0x80):
            return 1
        if e.decide(c < 0x800):
            return 2
        return 3 if e.decide(c < 0x10000) else 4

    def m_str_get_range(e, m, a):
        """str::get(start..end) in BYTE offsets: Some(sub-slice) when both lie on character boundaries inside the text"""
        chars = chars_of(e, a[0])
        start, end = a[1][0], a[1][1]
        for v in (start, end):
            if is_sym(v) and not z3.is_int_value(z3.simplify(v)):
                raise Unsupported("symbolic slice offset")
        start = z3.simplify(start).as_long() if is_sym(start) else start
        end = z3.simplify(end).as_long() if is_sym(end) else end
        bounds, pos = {0: 0}, 0
        for k, c in enumerate(chars):
            if pos >= end:
                break
            pos += concrete_u8len(e, c)
            bounds[pos] = k + 1
        if start > end or start not in bounds or end not in bounds:
            return ("None",)
        return ("Some", ("chars", chars[bounds[start]:bounds[end]]))

    def m_index_range_from(e, m, a):
        chars = chars_of(e, a[0])
        start = a[1][0] if isinstance(a[1], list) else a[1]
        return ("chars", chars[byte_to_char_offset(e, chars, start):])

    def pattern_list(p):
        """a pattern argument: &str, char or an array of chars -> list of alternatives, each a list of char codes"""
        if isinstance(p, tuple) and p[0] == "str":
            return [[ord(x) for x in p[1].decode()]]
        if isinstance(p, tuple) and p[0] == "chars":
            return [list(p[1])]
        if isinstance(p, int):
            return [[p]]
        if isinstance(p, list) and all(isinstance(x, int) for x in p):
            return [[x] for x in p]
        raise Unsupported("pattern %r" % (p,))

    def match_prefix(e, chars, alts, at_end=False):
        for alt in alts:
            if len(alt) > len(chars):
                continue
            window = chars[len(chars) - len(alt):] if at_end else chars[:len(alt)]
            conds = [w == x for w, x in zip(window, alt)]
            sym = [c for c in conds if is_sym(c)]
            if any(c is False for c in conds):
                continue
            if not sym or e.decide(z3.And(*sym)):
                return alt
        return None

    def m_strip_prefix(e, m, a):
        chars = chars_of(e, a[0])
        alt = match_prefix(e, chars, pattern_list(deref(e, a[1])))
        return ("Some", ("chars", chars[len(alt):])) if alt is not None else ("None",)

    def m_strip_suffix(e, m, a):
        chars = chars_of(e, a[0])
        alt = match_prefix(e, chars, pattern_list(deref(e, a[1])), at_end=True)
        return ("Some", ("chars", chars[:len(chars) - len(alt)])) if alt is not None else ("None",)

    def m_starts_with(e, m, a):
        return match_prefix(e, chars_of(e, a[0]), pattern_list(deref(e, a[1]))) is not None

    def m_ends_with(e, m, a):
        return match_prefix(e, chars_of(e, a[0]), pattern_list(deref(e, a[1])), at_end=True) is not None

    def m_trim_matches(e, m, a):
        chars = list(chars_of(e, a[0]))
        alts = pattern_list(deref(e, a[1]))
        if any(len(x) != 1 for x in alts):
            raise Unsupported("trim_matches with a multi-character pattern")
        pats = [x[0] for x in alts]
        which = m.group(1)

        def is_pat(c):
            conds = [c == p for p in pats]
            if any(x is True for x in conds):
                return True
            sym = [x for x in conds if is_sym(x)]
            return bool(sym) and e.decide(z3.Or(*sym))
        if which in ("trim_matches", "trim_start_matches"):
            while chars and is_pat(chars[0]):
                chars.pop(0)
        if which in ("trim_matches", "trim_end_matches"):
            while chars and is_pat(chars[-1]):
                chars.pop()
        return ("chars", chars)

    def m_is_digit(e, m, a):
        c, radix = a[0], a[1]
        d = digit_value(c)
        return z3.And(d >= 0, d < radix) if is_sym(d) else (0 <= d < radix)

    def m_to_digit(e, m, a):
        c, radix = a[0], a[1]
        d = digit_value(c)
        if e.decide(z3.And(d >= 0, d < radix) if is_sym(d) else (0 <= d < radix)):
            return ("Some", d)
        return ("None",)

    def m_is_ascii_class(e, m, a):
        c = deref(e, a[0])
        k = m.group(1)
        rng = {"digit": [(48, 57)], "hexdigit": [(48, 57), (65, 70), (97, 102)], "alphabetic": [(65, 90), (97, 122)],
               "alphanumeric": [(48, 57), (65, 90), (97, 122)], "uppercase": [(65, 90)], "lowercase": [(97, 122)]}[k]
        if is_sym(c):
            return z3.Or(*[z3.And(c >= lo, c <= hi) for lo, hi in rng])
        return any(lo <= c <= hi for lo, hi in rng)

    def m_as_bytes(e, m, a):
        out = []
        for c in chars_of(e, a[0]):
            n = m_len_utf8(e, m, [c])
            if n == 1:
                out += [c]
            elif n == 2:
                out += [0xC0 + c / 64, 0x80 + c % 64]
            elif n == 3:
                out += [0xE0 + c / 4096, 0x80 + (c / 64) % 64, 0x80 + c % 64]
            else:
                out += [0xF0 + c / 262144, 0x80 + (c / 4096) % 64, 0x80 + (c / 64) % 64, 0x80 + c % 64]
        return ("byteslice", out)

    def m_chars(e, m, a):
        return ["chars_iter", chars_of(e, a[0]), 0]

    def m_enumerate(e, m, a):
        return ["enum_iter", a[0]]

    def m_enum_next(e, m, a):
        it = deref(e, a[0])
        if not (isinstance(it, list) and it[0] == "enum_iter"):
            raise Unsupported("next on %r" % (str(it)[:60],))
        inner = it[1]
        if inner[2] < len(inner[1]):
            k = inner[2]
            inner[2] += 1
            return ("Some", [k, inner[1][k]])
        return ("None",)

    def m_take(e, m, a):
        return ["take", a[0], a[1], 0]

    def take_next(e, tk):
        if tk[3] >= tk[2]:
            return ("None",)
        tk[3] += 1
        return m_enum_next(e, None, [tk[1]])

    def m_take_map(e, m, a):
        cty = re.search(r"(\{closure@[^}]*\})", m.group(0)).group(1)
        return ["map", a[0], cty, a[1]]

    def m_map_collect_string(e, m, a):
        mp = a[0]
        out = []
        while True:
            nx = take_next(e, mp[1])
            if nx[0] == "None":
                break
            out.append(e.call_fn(e.closure_fn(mp[2]), [Ref({0: mp[3]}, 0, ()), nx[1]]))
        return ["strbuf", out]

    def m_take_for_each_drop(e, m, a):
        while take_next(e, a[0])[0] != "None":
            pass
        return ("unit",)

    def m_take_for_each(e, m, a):
        cty = re.search(r"(\{closure@[^}]*\})", m.group(0)).group(1)
        tk, clo = a
        holder = {0: clo}
        while True:
            nx = take_next(e, tk)
            if nx[0] == "None":
                break
            e.call_fn(e.closure_fn(cty), [Ref(holder, 0, ()), nx[1]])
        return ("unit",)

    def m_slice_iter(e, m, a):
        v = a[0]
        if isinstance(v, SliceRef):
            arr = e.read_path(v.base.frame, v.base.local, list(v.base.proj))
            return ("char_iter", list(arr[v.start:v.start + v.len]))
        arr = deref(e, v)
        return ("char_iter", list(arr))

    def m_string_push(e, m, a):
        chars_of(e, a[0]).append(a[1])
        return ("unit",)

    def m_string_push_str(e, m, a):
        chars_of(e, a[0]).extend(chars_of(e, a[1]))
        return ("unit",)

    # ---- numbers and characters
    def digit_value(c):
        return z3.If(z3.And(c >= 48, c <= 57), c - 48, z3.If(z3.And(c >= 97, c <= 122), c - 87, z3.If(z3.And(c >= 65, c <= 90), c - 55, 99))) if is_sym(c) else (
            c - 48 if 48 <= c <= 57 else c - 87 if 97 <= c <= 122 else c - 55 if 65 <= c <= 90 else 99)

    def m_from_str_radix(e, m, a):
        digits = list(chars_of(e, a[0]))
        radix = a[1]
        hi = {"u8": 255, "u32": 2 ** 32 - 1, "u16": 65535, "u64": 2 ** 64 - 1}[m.group(1)]
        err = ("enum", "Result::Err", [("ParseIntError",)])
        if digits and e.decide(digits[0] == 43):   # std accepts a leading '+'
            digits = digits[1:]
        if not digits:
            return err
        val = 0
        for c in digits:
            d = digit_value(c)
            if not e.decide(z3.And(d >= 0, d < radix) if is_sym(d) else (0 <= d < radix)):
                return err
            val = val * radix + d
        if e.decide(val <= hi):
            return ("enum", "Result::Ok", [val])
        return err

    def m_from_u32(e, m, a):
        u = a[0]
        ok = z3.And(u <= 0x10FFFF, z3.Or(u < 0xD800, u > 0xDFFF)) if is_sym(u) else (u <= 0x10FFFF and not (0xD800 <= u <= 0xDFFF))
        if e.decide(ok):
            return ("Some", u)
        return ("None",)

    def m_range_contains(e, m, a):
        r, c = deref(e, a[0]), deref(e, a[1])
        lo, hi = r[1], r[2]
        res = z3.And(c >= lo, c <= hi) if (is_sym(c) or is_sym(lo) or is_sym(hi)) else (lo <= c <= hi)
        return res

    def m_len_utf8(e, m, a):
        c = a[0]
        for n, bound in ((1, 0x80), (2, 0x800), (3, 0x10000)):
            if e.decide(c < bound):
                return n
        return 4

    def m_encode_utf8(e, m, a):
        c, buf = a[0], a[1]
        arr = e.read_path(buf.base.frame, buf.base.local, list(buf.base.proj)) if isinstance(buf, SliceRef) else deref(e, buf)
        n = m_len_utf8(e, m, [c])
        if n == 1:
            bs = [c]
        elif n == 2:
            bs = [0xC0 + c / 64, 0x80 + c % 64]
        elif n == 3:
            bs = [0xE0 + c / 4096, 0x80 + (c / 64) % 64, 0x80 + c % 64]
        else:
            bs = [0xF0 + c / 262144, 0x80 + (c / 4096) % 64, 0x80 + (c / 64) % 64, 0x80 + c % 64]
        if not is_sym(c):
            bs = [int(x) if not is_sym(x) else x for x in ([c] if n == 1 else [0xC0 + c // 64, 0x80 + c % 64] if n == 2 else
                  [0xE0 + c // 4096, 0x80 + (c // 64) % 64, 0x80 + c % 64] if n == 3 else
                  [0xF0 + c // 262144, 0x80 + (c // 4096) % 64, 0x80 + (c // 64) % 64, 0x80 + c % 64])]
        off = buf.start if isinstance(buf, SliceRef) else 0
        for k, b in enumerate(bs):
            arr[off + k] = b
        return ("str_in_buf",)

    def m_index_range_to(e, m, a):
        r = a[0]
        n = a[1][0] if isinstance(a[1], list) else a[1]
        if is_sym(n):
            n = z3.simplify(n)
            if not z3.is_int_value(n):
                raise Unsupported("symbolic RangeTo")
            n = n.as_long()
        if isinstance(r, SliceRef):
            return SliceRef(r.base, r.start, n)
        return SliceRef(r, 0, n)

    def m_extend_from_slice(e, m, a):
        v, sl = deref(e, a[0]), a[1]
        arr = e.read_path(sl.base.frame, sl.base.local, list(sl.base.proj))
        v[1].extend(arr[sl.start:sl.start + sl.len])
        return ("unit",)

    def m_vec_push(e, m, a):
        deref(e, a[0])[1].append(a[1])
        return ("unit",)

    # ---- results / options
    def m_try_branch(e, m, a):
        r = a[0]
        if r[1].endswith("Ok"):
            return ("enum", "ControlFlow::Continue", [r[2][0]])
        return ("enum", "ControlFlow::Break", [("enum", "Result::Err", [r[2][0]])])

    def m_ok_or(e, m, a):
        return ("enum", "Result::Ok", [a[0][1]]) if a[0][0] == "Some" else ("enum", "Result::Err", [a[1]])

    def m_generic_fn(e, m, a):
        c = [f for n, f in fns.items() if n.split("#")[0] == m.group(1)]
        if len(c) != 1:
            raise Unsupported("generic function %s" % m.group(1))
        return e.call_fn(c[0], a)

    def m_next_expr(e, m, a):
        cur["events"].append(("next_expr", a[2]))
        return ("ided", a[2])

    def m_report_error(e, m, a):
        cur["events"].append(("report_error",))
        return ("ided_error",)

    opaque = lambda tag: (lambda e, m, a: (tag,))
    extern = [
        (r"^<BaseParserRuleContext<'_, \w+ContextExt<'_>> as ParseTree<'_>>::get_text$", m_get_text),
        (r"^<BaseParserRuleContext<'_, \w+ContextExt<'_>> as Deref>::deref$", m_ctx_deref),
        (r"^Option::<Box<GenericToken<Cow<'_, str>>>>::as_deref$", m_as_deref),
        (r"^Option::<&(?:Box<)?GenericToken<Cow<'_, str>>>?>::expect$", m_expect),
        (r"^<String as Deref>::deref$", lambda e, m, a: ("chars", chars_of(e, a[0]))),
        (r"^String::as_str$", lambda e, m, a: ("chars", chars_of(e, a[0]))),
        (r"^(?:String|core::str::<impl str>)::len$", m_str_len),
        (r"^<(?:String|str) as Index<std::ops::Range<usize>>>::index$", m_index_range),
        (r"^<(?:String|str) as Index<std::ops::RangeFrom<usize>>>::index$", m_index_range_from),
        (r"^core::str::<impl str>::strip_prefix::<.*>$", m_strip_prefix),
        (r"^core::str::<impl str>::strip_suffix::<.*>$", m_strip_suffix),
        (r"^core::str::<impl str>::starts_with::<.*>$", m_starts_with),
        (r"^core::str::<impl str>::ends_with::<.*>$", m_ends_with),
        (r"^core::str::<impl str>::(trim_matches|trim_start_matches|trim_end_matches)::<.*>$", m_trim_matches),
        (r"^char::methods::<impl char>::is_digit$", m_is_digit),
        (r"^char::methods::<impl char>::to_digit$", m_to_digit),
        (r"^char::methods::<impl char>::is_ascii_(digit|hexdigit|alphabetic|alphanumeric|uppercase|lowercase)$", m_is_ascii_class),
        (r"^core::str::<impl str>::is_empty$", lambda e, m, a: len(chars_of(e, a[0])) == 0),
        (r"^core::str::<impl str>::as_bytes$", m_as_bytes),
        (r"^(?:std::string::)?String::into_bytes$", lambda e, m, a: ["bytebuf", list(m_as_bytes(e, m, a)[1])]),
        (r"^(?:core|std)::slice::<impl \[u8\]>::to_vec$", lambda e, m, a: ["bytebuf", list(a[0][1])]),
        (r"^core::str::<impl str>::chars$", m_chars),
        (r"^<Chars<'_> as Iterator>::enumerate$", m_enumerate),
        (r"^<Enumerate<Chars<'_>> as Iterator>::next$", m_enum_next),
        (r"^<&mut I as Iterator>::take$", m_take),
        (r"^<std::iter::Take<&mut I> as Iterator>::map::<char, \{closure@[^}]*\}>$", m_take_map),
        (r"^<Map<std::iter::Take<&mut I>, \{closure@[^}]*\}> as Iterator>::collect::<String>$", m_map_collect_string),
        (r"^<std::iter::Take<&mut I> as Iterator>::for_each::<\{closure@[^}]*\}>$", m_take_for_each),
        (r"^<std::iter::Take<&mut I> as Iterator>::for_each::<fn\(.*\) \{std::mem::drop::<.*>\}>$", m_take_for_each_drop),
        (r"^<std::iter::Take<&mut I> as Iterator>::(?:count|last)$", m_take_for_each_drop),
        (r"^core::slice::<impl \[char\]>::iter$", m_slice_iter),
        (r"^<std::slice::Iter<'_, char> as Iterator>::collect::<String>$", lambda e, m, a: ["strbuf", list(a[0][1])]),
        (r"^String::(?:with_capacity|new)$", lambda e, m, a: ["strbuf", []]),
        (r"^Vec::<u8>::(?:with_capacity|new)$", lambda e, m, a: ["bytebuf", []]),
        (r"^String::push$", m_string_push),
        (r"^String::push_str$", m_string_push_str),
        (r"^Vec::<u8>::push$", m_vec_push),
        (r"^Vec::<u8>::extend_from_slice$", m_extend_from_slice),
        (r"^core::num::<impl (u8|u16|u32|u64)>::from_str_radix$", m_from_str_radix),
        (r"^char::methods::<impl char>::from_u32$", m_from_u32),
        (r"^std::ops::RangeInclusive::<char>::new$", lambda e, m, a: ["range_incl", a[0], a[1]]),
        (r"^std::ops::RangeInclusive::<char>::contains::<char>$", m_range_contains),
        (r"^char::methods::<impl char>::len_utf8$", m_len_utf8),
        (r"^char::methods::<impl char>::encode_utf8$", m_encode_utf8),
        (r"^<\[u8; 4\] as Index<RangeTo<usize>>>::index$", m_index_range_to),
        (r"^Option::<.*>::ok_or::<.*>$", m_ok_or),
        (r"^Option::<.*>::unwrap_or$", lambda e, m, a: a[0][1] if a[0][0] == "Some" else a[1]),
        (r"^core::str::<impl str>::get::<std::ops::Range<usize>>$", m_str_get_range),
        (r"^Option::<&str>::unwrap_or_default$", lambda e, m, a: a[0][1] if a[0][0] == "Some" else ("chars", [])),
        (r"^Option::<.*>::unwrap_or_default$", lambda e, m, a: a[0][1] if a[0][0] == "Some" else 0),
        (r"^Result::<.*>::map_err::<.*\{closure@.*\}>$", ext_res_map_err),
        (r"^Result::<.*>::and_then::<.*\{closure@.*\}>$", ext_res_and_then),
        (r"^Result::<.*>::map::<.*\{closure@.*\}>$", ext_res_map),
        (r"^<Result<.*> as Try>::branch$", m_try_branch),
        (r"^<Result<.*> as FromResidual<Result<Infallible, .*>>>::from_residual$", lambda e, m, a: ("enum", "Result::Err", [a[0][2][0]])),
        (r"^(parse_unicode_hex|parse_unicode_oct)::<.*>$", m_generic_fn),
        (r"^core::fmt::rt::Argument::<'_>::new_(?:display|debug)::<.*>$", opaque("fmt_arg")),
        (r"^Arguments::<'_>::(?:new|from_str|from_str_nonconst|new_const)(?:::<.*>)?$", opaque("fmt_args")),
        (r"^(?:alloc::fmt::|std::fmt::)?format$", opaque("formatted")),
        (r"^<String as (?:std::convert::)?From<&str>>::from$", opaque("string_copy")),
        (r"^<str as ToString>::to_string$", opaque("string_copy")),
        (r"^<ParseUnicodeError as Clone>::clone$", lambda e, m, a: deref(e, a[0])),
        (r"^<IdedExpr as Default>::default$", opaque("ided_default")),
        (r"^ParserHelper::next_expr$", m_next_expr),
        (r"^parser::Parser::report_error::<.*>$", m_report_error),
    ] + STD_MODELS

    def ext_const(name):
        std_chars = {"REPLACEMENT_CHARACTER": 0xFFFD, "MAX": 0x10FFFF, "MIN": 0}
        m = re.match(r"^(?:std|core)::char::methods::<impl char>::(\w+)$", name)
        if m and m.group(1) in std_chars:
            return std_chars[m.group(1)]
        return None

    def engine():
        e = Engine(fns, consts, extern, max_steps=60000)
        e.chars_as_ints = True
        e.ext_const = ext_const
        e.discriminants = {"Result::Ok": 0, "Result::Err": 1, "ControlFlow::Continue": 0, "ControlFlow::Break": 1}
        return e

    # ---------------------------------------------------------------- scenarios
    C = [z3.Int("c%d" % k) for k in range(8)]
    scalar = lambda c: z3.And(c >= 0, c <= 0x10FFFF, z3.Or(c < 0xD800, c > 0xDFFF))
    hexdigit = lambda c: z3.Or(z3.And(c >= 48, c <= 57), z3.And(c >= 97, c <= 102), z3.And(c >= 65, c <= 70))
    octdigit = lambda c: z3.And(c >= 48, c <= 55)
    hexval = lambda c: z3.If(c <= 57, c - 48, z3.If(c >= 97, c - 87, c - 55))

    def utf8_bytes(c):
        """expected bytes of one verbatim character, as (condition, byte list) alternatives"""
        return [(c < 0x80, [c]),
                (z3.And(c >= 0x80, c < 0x800), [0xC0 + c / 64, 0x80 + c % 64]),
                (z3.And(c >= 0x800, c < 0x10000), [0xE0 + c / 4096, 0x80 + (c / 64) % 64, 0x80 + c % 64]),
                (c >= 0x10000, [0xF0 + c / 262144, 0x80 + (c / 4096) % 64, 0x80 + (c / 64) % 64, 0x80 + c % 64])]

    def plain_ok(c, quote, raw):
        """token rule for a verbatim body character of this style"""
        cons = [scalar(c)]
        q = ord(quote[0])
        if len(quote) == 1:
            cons += [c != q, c != NL, c != CR]
            if not raw:
                cons.append(c != BS)
        else:
            # triple-quoted: anything but a backslash (non-raw); the closing delimiter ends the token, so the
            # scenarios below place quote characters explicitly and keep the free characters off the quote
            cons.append(c != q)
            if not raw:
                cons.append(c != BS)
        return cons

    undecided = []

    def run(desc, is_bytes, text, constraints, expected):
        """expected: list of (condition, outcome) with outcome = ('value', [units]) | ('error',); conditions partition the inputs"""
        if only and only not in json.dumps(desc):
            return
        stats["scenarios"] += 1
        eng = engine()
        fn = find("visit_Bytes" if is_bytes else "visit_String")
        variant = "Val::Bytes" if is_bytes else "Val::String"
        syms = [c for c in C]

        def model_text(e):
            if not e.check():
                return None
            mdl = e.solver.model()
            return [mdl.eval(x, model_completion=True).as_long() if is_sym(x) else x for x in text]
        eng.model_inputs = lambda: {"text": model_text(eng)}

        def entry(e):
            cur.clear()
            cur.update({"events": [], "text": text})
            return e.call_fn(fn, [Ref({0: [Opaque("parser"), Opaque("helper"), Opaque("x")]}, 0, ()), Opaque("ctx")])

        def on_path(res, e):
            evs = cur["events"]
            probs = []
            witness = None
            if len(evs) != 1:
                probs.append("the method does not end in exactly one of next_expr / report_error: %s" % [x[0] for x in evs])
            for cond, outcome in expected:
                if probs:
                    break
                if cond is not True and not e.check(cond):
                    continue
                extra = [] if cond is True else [cond]
                if outcome[0] == "error":
                    if evs[0][0] != "report_error":
                        probs.append("a literal that denotes no value is accepted")
                        e.check(*extra)
                        witness = model_text_with(e, extra)
                else:
                    want = outcome[1]
                    if evs[0][0] != "next_expr":
                        probs.append("a well-formed literal is rejected")
                        witness = model_text_with(e, extra)
                        continue
                    ex = evs[0][1]
                    if not (isinstance(ex, tuple) and ex[1] == "Expr::Literal" and ex[2][0][1] == variant):
                        probs.append("the node is not a %s literal: %r" % (variant, str(ex)[:160]))
                        continue
                    got = ex[2][0][2][0][1]
                    if len(got) != len(want):
                        probs.append("the value has %d elements, the literal denotes %d" % (len(got), len(want)))
                        witness = model_text_with(e, extra)
                        continue
                    diff = z3.Or(*[g != w for g, w in zip(got, want)]) if got else False
                    if got and not isinstance(diff, bool) and e.check(diff, *extra):
                        probs.append("the value differs from what the literal denotes")
                        witness = model_text_with(e, extra + [diff])
                    elif got and isinstance(diff, bool) and diff:
                        probs.append("the value differs from what the literal denotes")
                        witness = model_text_with(e, extra)
            if probs:
                failures.append(dict(desc, problems=probs, text=witness or model_text(e)))
            else:
                stats["proved"] += 1
                if len(samples) < 40 and stats["scenarios"] % 11 == 0:
                    samples.append(dict(desc, outcome=evs[0][0]))

        def model_text_with(e, extra):
            if not e.check(*extra):
                return None
            mdl = e.solver.model()
            return [mdl.eval(x, model_completion=True).as_long() if is_sym(x) else x for x in text]
        try:
            eng.explore(entry, None, on_path, constraints)
        except Unsupported as u:
            # a scenario that meets an unmodelled operation is undecided (never a pass); the other scenarios are still decided
            undecided.append("%s: %s" % (json.dumps(desc), str(u)[:160]))
        except PanicFound as p:
            tx = None
            if eng.violations and eng.violations[-1].get("model"):
                tx = eng.violations[-1]["model"].get("text")
            failures.append(dict(desc, problems=["panic reachable: %s" % p.msg], text=tx))
        if eng.violations and not any("panic" in pr for f in failures[-1:] for pr in f["problems"]):
            tx = eng.violations[0].get("model", {}).get("text") if eng.violations[0].get("model") else None
            failures.append(dict(desc, problems=["panic reachable: %s" % eng.violations[0]["message"]], text=tx))
        for k in ("paths", "queries"):
            stats[k] += eng.stats[k]
        stats["solver_s"] += eng.stats["solver_s"]
        stats["functions"] |= eng.stats["functions"]

    def styles():
        for is_bytes in (False, True):
            for b in (["b", "B"] if is_bytes else [""]):
                for raw in ("", "r", "R"):
                    for quote in ("'", '"', "'''", '"""'):
                        yield is_bytes, b, raw, quote

    def value_units(is_bytes, units):
        """units: list of ('char', c) | ('byte', v) -> expected element list alternatives [(cond, list)]"""
        alts = [(True, [])]
        for u in units:
            if u[0] == "byte" or not is_bytes:
                alts = [(c, l + [u[1]]) for c, l in alts]
            else:
                new = []
                for c, l in alts:
                    if not is_sym(u[1]):
                        v = u[1]
                        bs = [v] if v < 0x80 else [0xC0 + v // 64, 0x80 + v % 64] if v < 0x800 else \
                            [0xE0 + v // 4096, 0x80 + (v // 64) % 64, 0x80 + v % 64] if v < 0x10000 else \
                            [0xF0 + v // 262144, 0x80 + (v // 4096) % 64, 0x80 + (v // 64) % 64, 0x80 + v % 64]
                        new.append((c, l + bs))
                        continue
                    for c2, bs in utf8_bytes(u[1]):
                        new.append((c2 if c is True else z3.And(c, c2), l + bs))
                alts = new
        return alts

    try:
        for is_bytes, b, raw, quote in styles():
            pre = [ord(x) for x in b + raw + quote]
            post = [ord(x) for x in quote]
            sd = {"bytes": is_bytes, "style": b + raw + quote}
            mk = lambda body: pre + body + post
            other = DQ if quote[0] == "'" else SQ
            # empty body
            run(dict(sd, body="empty"), is_bytes, mk([]), [], [(True, ("value", []))])
            # one / two verbatim characters
            c0, c1 = C[0], C[1]
            for cond, want in value_units(is_bytes, [("char", c0)]):
                pass
            nobs = [c0 != BS, c1 != BS] if raw else []
            run(dict(sd, body="one verbatim character"), is_bytes, mk([c0]), plain_ok(c0, quote, raw) + nobs[:1],
                [(c, ("value", l)) for c, l in value_units(is_bytes, [("char", c0)])])
            run(dict(sd, body="two verbatim characters"), is_bytes, mk([c0, c1]), plain_ok(c0, quote, raw) + plain_ok(c1, quote, raw) + [c1 < 0x80] + nobs,
                [(c, ("value", l)) for c, l in value_units(is_bytes, [("char", c0), ("char", c1)])])
            if len(quote) == 3:
                q = ord(quote[0])
                # a single quote character (and a pair) inside a triple-quoted body, a line break
                run(dict(sd, body="x<quote>y inside triple quotes"), is_bytes, mk([120, q, 121]), [], [(True, ("value", [120, q, 121]))])
                run(dict(sd, body="x<quote><quote>y inside triple quotes"), is_bytes, mk([120, q, q, 121]), [], [(True, ("value", [120, q, q, 121]))])
                run(dict(sd, body="line break inside triple quotes"), is_bytes, mk([120, NL, 121]), [], [(True, ("value", [120, NL, 121]))])
            if raw:
                # a backslash is an ordinary character: alone, after a character, doubled
                run(dict(sd, body="lone backslash (raw)"), is_bytes, mk([BS]), [], [(True, ("value", [BS]))])
                run(dict(sd, body="character + backslash (raw)"), is_bytes, mk([c0, BS]), plain_ok(c0, quote, raw) + [c0 != BS, c0 < 0x80], [(True, ("value", [c0, BS]))])
                run(dict(sd, body="two backslashes (raw)"), is_bytes, mk([BS, BS]), [], [(True, ("value", [BS, BS]))])
                # no escape processing: backslash + any character stays as written
                cons = [scalar(c0), c0 != ord(quote[0]), c0 != NL, c0 != CR]
                run(dict(sd, body="backslash + character (raw)"), is_bytes, mk([BS, c0]), cons,
                    [(c, ("value", l)) for c, l in value_units(is_bytes, [("char", BS), ("char", c0)])])
                continue
            # single-character escapes
            for letter, code in SINGLE_ESCAPES.items():
                run(dict(sd, body="escape \\%s" % letter), is_bytes, mk([BS, ord(letter)]), [], [(True, ("value", [code]))])
            # \xHH and \XHH: a code point in strings, a byte in bytes literals
            for x in ("x", "X"):
                h = C[:2]
                v = hexval(h[0]) * 16 + hexval(h[1])
                run(dict(sd, body="escape \\%sHH" % x), is_bytes, mk([BS, ord(x)] + h), [hexdigit(d) for d in h],
                    [(True, ("value", [v]))] if is_bytes else [(c, ("value", l)) for c, l in value_units(False, [("char", v)])])
            # \OOO
            o = C[:3]
            v = (o[0] - 48) * 64 + (o[1] - 48) * 8 + (o[2] - 48)
            run(dict(sd, body="escape \\OOO"), is_bytes, mk([BS] + o), [o[0] >= 48, o[0] <= 51, octdigit(o[1]), octdigit(o[2])], [(True, ("value", [v]))])
            # \uHHHH and \UHHHHHHHH
            for letter, n in (("u", 4), ("U", 8)):
                h = C[:n]
                v = 0
                for d in h:
                    v = v * 16 + hexval(d)
                valid = z3.And(v <= 0x10FFFF, z3.Or(v < 0xD800, v > 0xDFFF))
                if is_bytes:
                    exp = [(True, ("error",))]
                else:
                    exp = [(valid, ("value", [v])), (z3.Not(valid), ("error",))]
                run(dict(sd, body="escape \\%s + %d hex digits" % (letter, n)), is_bytes, mk([BS, ord(letter)] + h), [hexdigit(d) for d in h], exp)
            # any verbatim character (of any UTF-8 length) in front of an escape: the escape's digits are found by position
            # in characters, not bytes
            h = C[1:3]
            hv = hexval(h[0]) * 16 + hexval(h[1])
            run(dict(sd, body="any character then \\xHH"), is_bytes, mk([c0, BS, 120] + h), plain_ok(c0, quote, raw) + [hexdigit(d) for d in h],
                [(c, ("value", l)) for c, l in value_units(is_bytes, [("char", c0), ("byte" if is_bytes else "char", hv)])])
            if not is_bytes:
                h4 = C[1:5]
                uv = 0
                for d in h4:
                    uv = uv * 16 + hexval(d)
                valid = z3.Or(uv < 0xD800, uv > 0xDFFF)
                run(dict(sd, body="any character then \\uHHHH"), is_bytes, mk([c0, BS, 117] + h4), plain_ok(c0, quote, raw) + [hexdigit(d) for d in h4],
                    [(valid, ("value", [c0, uv])), (z3.Not(valid), ("error",))])
            o3 = C[1:4]
            ov3 = (o3[0] - 48) * 64 + (o3[1] - 48) * 8 + (o3[2] - 48)
            run(dict(sd, body="any character then \\OOO"), is_bytes, mk([c0, BS] + o3), plain_ok(c0, quote, raw) + [o3[0] >= 48, o3[0] <= 51, octdigit(o3[1]), octdigit(o3[2])],
                [(c, ("value", l)) for c, l in value_units(is_bytes, [("char", c0), ("byte", ov3)])])
            # an escape between two verbatim characters keeps its place
            run(dict(sd, body="x\\ny"), is_bytes, mk([120, BS, 110, 121]), [], [(True, ("value", [120, 10, 121]))])
            # the other quote kind, verbatim and escaped
            run(dict(sd, body="other quote verbatim"), is_bytes, mk([other]), [], [(True, ("value", [other]))])
            if deep:
                # thorough tier: three-unit bodies - an escape directly followed by characters that could be mistaken
                # for more digits, two escapes in a row, symbolic characters around an escape
                d0, d1, d2 = C[0], C[1], C[2]
                hv = hexval(d0) * 16 + hexval(d1)
                run(dict(sd, body="\\xHH followed by a hex digit"), is_bytes, mk([BS, 120, d0, d1, d2]), [hexdigit(d0), hexdigit(d1), hexdigit(d2)],
                    [(True, ("value", [hv, d2]))] if is_bytes else [(c, ("value", l)) for c, l in value_units(False, [("char", hv), ("char", d2)])])
                ov = (d0 - 48) * 64 + (d1 - 48) * 8 + (d2 - 48)
                run(dict(sd, body="\\OOO followed by an octal digit"), is_bytes, mk([BS, d0, d1, d2, C[3]]), [d0 >= 48, d0 <= 51, octdigit(d1), octdigit(d2), octdigit(C[3])],
                    [(True, ("value", [ov, C[3]]))])
                run(dict(sd, body="two escapes in a row"), is_bytes, mk([BS, 110, BS, 116]), [], [(True, ("value", [10, 9]))])
                run(dict(sd, body="backslash escape then n"), is_bytes, mk([BS, BS, 110]), [], [(True, ("value", [BS, 110]))])
                cons3 = plain_ok(d0, quote, raw) + plain_ok(d2, quote, raw) + [d0 < 0x80, d2 < 0x80]
                run(dict(sd, body="character, \\t, character"), is_bytes, mk([d0, BS, 116, d2]), cons3, [(True, ("value", [d0, 9, d2]))])
                if not is_bytes:
                    uv = 0
                    for d in C[:4]:
                        uv = uv * 16 + hexval(d)
                    valid = z3.Or(uv < 0xD800, uv > 0xDFFF)
                    run(dict(sd, body="\\uHHHH followed by a hex digit"), is_bytes, mk([BS, 117] + C[:4] + [C[4]]), [hexdigit(d) for d in C[:5]],
                        [(valid, ("value", [uv, C[4]])), (z3.Not(valid), ("error",))])
    except Unsupported as u:
        status = 2
        print("INCONCLUSIVE: unsupported: %s" % u)
        if os.environ.get("MIRSYM_TRACE"):
            import traceback
            traceback.print_exc()
    if undecided:
        status = 2
        print("INCONCLUSIVE: %d scenarios undecided, e.g. unsupported: %s" % (len(undecided), undecided[0][:300]))
    if failures:  # a counterexample stands even if a later scenario met an unmodelled call (it is replayed natively anyway)
        status = 1
    out = {"functions_encoded": sorted(stats["functions"]), "scenarios": stats["scenarios"], "paths": stats["paths"], "paths_proved": stats["proved"],
           "queries": stats["queries"], "solver_s": round(stats["solver_s"], 2), "wall_s": round(time.time() - t0, 2), "failures": failures, "samples": samples}
    if outp:
        json.dump(out, open(outp, "w"), indent=1)
    for f in failures[:8]:
        print("COUNTEREXAMPLE " + json.dumps(f)[:400])
    print("mirsym string_literals: %d scenarios, %d paths, %d proved, %d failures, %d queries, %.1fs solver, %.1fs wall" % (
        stats["scenarios"], stats["paths"], stats["proved"], len(failures), stats["queries"], stats["solver_s"], out["wall_s"]))
    return status


if __name__ == "__main__":
    sys.exit(main())
