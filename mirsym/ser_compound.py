#!/usr/bin/env python3
"""C17 (structure half), decided on the MIR of interpreter/src/ser.rs: the compound serializers.

serde drives a compound value through `serialize_element` / `serialize_field` / `serialize_key` /
`serialize_value` / `end`.  Each of these methods (for SerializeVec under its three traits,
SerializeTupleVariant, SerializeMap under its two traits, SerializeStructVariant) is executed from
its entry on the real struct state; serialising a child (`<T as Serialize>::serialize` with the
value or the key serializer, directly or through `to_value`) is an event that returns what the
scenario prescribes - an abstract value / key, or an error.  Proved for sequences of 0-3 children
with every failing position, and for maps also with repeated keys:
  * seq / tuple / tuple struct: `end` yields `Value::List` of the children's values in order;
  * tuple variant: a one-entry map {variant name: list of the fields in order};
  * map / struct: every (key, value) pair is inserted under the key the key serializer returned,
    a repeated key keeps the LATER value (as serde_json does), a value before any key is an
    InvalidKey error, struct fields go through the same path with the field name as key;
  * struct variant: {variant name: map of the fields};
  * a failing child makes the driving method return that error and leaves the state unchanged.
Trusted: `HashMap -> Value` conversions (constructors here), serde's default `serialize_entry`
(= serialize_key then serialize_value), the scalar methods of Serializer / KeySerializer (decided
by the Kani harnesses of C17).

usage: ser_compound.py <interpreter-mir-file> <repo-root> [--json out.json]
"""
import itertools
import json
import os
import re
import sys
import time
sys.path.insert(0, os.path.dirname(os.path.abspath(__file__)))
# bound on the number of children / elements per node; the thorough tier of the driver raises it
DEPTH = int(os.environ.get("MIRSYM_DEPTH", "3"))
import z3
from mirsym import Engine, parse_mir, STD_MODELS, Unsupported, PanicFound, Ref, Opaque, is_sym


def main():
    mir, repo = sys.argv[1], sys.argv[2]
    outp = sys.argv[sys.argv.index("--json") + 1] if "--json" in sys.argv else None
    t0 = time.time()
    fns, consts = parse_mir(open(mir).read())
    src = open(os.path.join(repo, "interpreter/src/ser.rs")).read().splitlines()
    stats = {"scenarios": 0, "paths": 0, "proved": 0, "functions": set()}
    failures, samples = [], []
    status = 0
    cur = {}

    def impl_line(header):
        for k, l in enumerate(src):
            if l.strip().startswith(header):
                return k + 1
        raise Unsupported("impl `%s` not found in ser.rs" % header)

    def method(header, name):
        line = impl_line(header)
        c = [f for n, f in fns.items() if re.match(r"^ser::<impl at interpreter/src/ser\.rs:%d:\d+: [\d:]+>::%s(#\d+)?$" % (line, name), n)]
        if len(c) != 1:
            raise Unsupported("%s of `%s` (line %d): %d candidates" % (name, header, line, len(c)))
        return c[0]

    def deref(e, x):
        k = 0
        while isinstance(x, Ref) and k < 4:
            x = e.read_path(x.frame, x.local, list(x.proj))
            k += 1
        return x

    def child_of(e, x):
        v = deref(e, x)
        if isinstance(v, tuple) and v[0] in ("elem", "keyexpr"):
            return v
        if isinstance(v, tuple) and v[0] == "str":
            return ("keyexpr", "field:" + v[1].decode())
        raise Unsupported("serialize of %r" % (str(v)[:80],))

    def m_ser_value(e, m, a):
        c = child_of(e, a[0])
        cur["events"].append(("value_of", c[1]))
        return cur["results"][c[1]]

    def m_ser_key(e, m, a):
        c = child_of(e, a[0])
        cur["events"].append(("key_of", c[1]))
        return cur["key_results"][c[1]]

    def m_to_value(e, m, a):
        c = [f for n, f in fns.items() if n.split("#")[0] in ("ser::to_value", "to_value")]
        if len(c) != 1:
            raise Unsupported("to_value not found uniquely")
        return e.call_fn(c[0], a)

    def same_key(x, y):
        return x == y

    def m_hm_insert(e, m, a):
        hm = deref(e, a[0])
        for ent in hm[1]:
            if same_key(ent[0], a[1]):
                old = ent[1]
                ent[1] = a[2]
                return ("Some", old)
        hm[1].append([a[1], a[2]])
        return ("None",)

    def m_hm_entry(e, m, a):
        return ["entry", a[0], a[1]]

    def m_entry_or_insert(e, m, a):
        ent = a[0]
        hm = deref(e, ent[1])
        for x in hm[1]:
            if same_key(x[0], ent[2]):
                return Ref({0: x}, 0, (("idx", 1),))
        hm[1].append([ent[2], a[1]])
        return Ref({0: hm[1][-1]}, 0, (("idx", 1),))

    def m_hm_contains(e, m, a):
        hm, k = deref(e, a[0]), deref(e, a[1])
        return any(same_key(x[0], k) for x in hm[1])

    def m_try_branch(e, m, a):
        r = a[0]
        if r[1].endswith("Ok"):
            return ("enum", "ControlFlow::Continue", [r[2][0]])
        return ("enum", "ControlFlow::Break", [("enum", "Result::Err", [r[2][0]])])

    def m_ok_or_else(e, m, a):
        if a[0][0] == "Some":
            return ("enum", "Result::Ok", [a[0][1]])
        cty = re.search(r"(\{closure@[^}]*\})", m.group(0)).group(1)
        return ("enum", "Result::Err", [e.call_fn(e.closure_fn(cty), [a[1]])])

    def m_from_iter1(e, m, a):
        arr = a[0]
        return ["hashmap", [[arr[0][0], arr[0][1]]]]

    def m_default_entry(e, m, a):
        # serde's provided method: serialize_key(key) then serialize_value(value)
        kfn = method("impl ser::SerializeMap for SerializeMap", "serialize_key")
        vfn = method("impl ser::SerializeMap for SerializeMap", "serialize_value")
        r = e.call_fn(kfn, [a[0], a[1]])
        if r[1].endswith("Err"):
            return r
        return e.call_fn(vfn, [a[0], a[2]])

    def m_delegate(header, name):
        def f(e, m, a):
            return e.call_fn(method(header, name), a)
        return f

    extern = [
        (r"^<T as Serialize>::serialize::<ser::Serializer>$", m_ser_value),
        (r"^<&T as Serialize>::serialize::<ser::Serializer>$", m_ser_value),
        (r"^<T as Serialize>::serialize::<KeySerializer>$", m_ser_key),
        (r"^<str as Serialize>::serialize::<KeySerializer>$", m_ser_key),
        (r"^to_value::<.*>$", m_to_value),
        (r"^Vec::<Value>::push$", lambda e, m, a: (deref(e, a[0])[1].append(a[1]), ("unit",))[1]),
        (r"^Arc::<Vec<Value>>::new$", lambda e, m, a: ("arc", a[0])),
        (r"^HashMap::<Key, Value>::insert$", m_hm_insert),
        (r"^HashMap::<Key, Value>::entry$", m_hm_entry),
        (r"^std::collections::hash_map::Entry::<'_, Key, Value>::or_insert$", m_entry_or_insert),
        (r"^HashMap::<Key, Value>::contains_key::<Key>$", m_hm_contains),
        (r"^<std::option::Option<Key> as Clone>::clone$", lambda e, m, a: deref(e, a[0])),
        (r"^std::option::Option::<Key>::take$", lambda e, m, a: (lambda r, old: (e.write_path(r.frame, r.local, list(r.proj), ("None",)), old)[1])(a[0], deref(e, a[0]))),
        (r"^std::option::Option::<Key>::ok_or_else::<SerializationError, \{closure@[^}]*\}>$", m_ok_or_else),
        (r"^<std::result::Result<.*> as Try>::branch$", m_try_branch),
        (r"^<std::result::Result<.*> as FromResidual<std::result::Result<Infallible, SerializationError>>>::from_residual$", lambda e, m, a: ("enum", "Result::Err", [a[0][2][0]])),
        (r"^<HashMap<Key, Value> as (?:std::convert::)?Into<Value>>::into$", lambda e, m, a: ("enum", "Value::Map", [("from_hashmap", [list(x) for x in a[0][1]])])),
        (r"^<HashMap<std::string::String, (?:Value|Arc<Vec<Value>>)> as (?:std::convert::)?Into<Value>>::into$", lambda e, m, a: ("enum", "Value::Map", [("from_hashmap", [list(x) for x in a[0][1]])])),
        (r"^<HashMap<std::string::String, (?:Value|Arc<Vec<Value>>)> as FromIterator<.*>>::from_iter::<\[.*; 1\]>$", m_from_iter1),
        (r"^<ser::SerializeMap as serde::ser::SerializeMap>::serialize_entry::<str, T>$", m_default_entry),
        (r"^<ser::SerializeMap as serde::ser::SerializeMap>::end$", m_delegate("impl ser::SerializeMap for SerializeMap", "end")),
        (r"^<SerializeVec as SerializeSeq>::end$", m_delegate("impl ser::SerializeSeq for SerializeVec", "end")),
        (r"^<SerializeVec as SerializeSeq>::serialize_element::<T>$", m_delegate("impl ser::SerializeSeq for SerializeVec", "serialize_element")),
        (r"^<str as ToString>::to_string$", lambda e, m, a: ("string", a[0][1].decode())),
    ] + STD_MODELS

    def engine():
        e = Engine(fns, consts, extern, max_steps=100000)
        e.steps = 0
        e.discriminants = {"ControlFlow::Continue": 0, "ControlFlow::Break": 1, "Result::Ok": 0, "Result::Err": 1}
        src = open(os.path.join(repo, "interpreter/src/objects.rs")).read()
        body = src[src.index("pub enum Value {"):]
        body = body[:body.index("\n}")]
        for k_, nme in enumerate(re.findall(r"^\s{4}([A-Z]\w*)[\(,\n {]", body, re.M)):
            e.discriminants["Value::" + nme] = k_
        return e

    okv = lambda j: ("enum", "Result::Ok", [("abs_val", j)])
    errv = lambda j: ("enum", "Result::Err", [("child_error", j)])

    undecided = []

    def drive(desc, steps, state, end_fn, judge):
        """steps: list of (fn, args-builder); runs them in order on `state`, stops at the first Err, then calls end"""
        stats["scenarios"] += 1
        eng = engine()
        holder = {0: state}
        outs = []
        try:
            for fn, args in steps:
                r = eng.call_fn(fn, [Ref(holder, 0, ())] + args)
                outs.append(r)
                if r[1].endswith("Err"):
                    break
            final = None
            if all(o[1].endswith("Ok") for o in outs):
                final = eng.call_fn(end_fn, [holder[0]])
        except PanicFound as p:
            failures.append(dict(desc, problems=["panic reachable: %s" % p.msg]))
            return
        except Unsupported as u:
            # a scenario that meets an unmodelled operation is undecided (never a pass); the other scenarios are still decided
            undecided.append("%s: %s" % (json.dumps(desc), str(u)[:160]))
            return
        stats["paths"] += 1
        probs = judge(outs, final, holder[0])
        if probs:
            failures.append(dict(desc, problems=probs, events=[list(x) for x in cur["events"]]))
        else:
            stats["proved"] += 1
            if len(samples) < 16 and stats["scenarios"] % 7 == 0:
                samples.append(dict(desc, events=[list(x) for x in cur["events"]]))
        stats["functions"] |= eng.stats["functions"]

    try:
        # ---- sequences under three traits, tuple variant
        seq_like = [("seq", "impl ser::SerializeSeq for SerializeVec", "serialize_element"),
                    ("tuple", "impl ser::SerializeTuple for SerializeVec", "serialize_element"),
                    ("tuple struct", "impl ser::SerializeTupleStruct for SerializeVec", "serialize_field"),
                    ("tuple variant", "impl ser::SerializeTupleVariant for SerializeTupleVariant", "serialize_field")]
        for label, header, mname in seq_like:
            fn, endf = method(header, mname), method(header, "end")
            for n in range(0, DEPTH + 1):
                for bad in [None] + list(range(n)):
                    cur.clear()
                    cur.update({"events": [], "results": {j: (errv(j) if bad == j else okv(j)) for j in range(n)}, "key_results": {}})
                    state = [("string", "Variant"), ("vec", [])] if label == "tuple variant" else [("vec", [])]
                    steps = [(fn, [Ref({0: ("elem", j)}, 0, ())]) for j in range(n)]

                    def judge(outs, final, st, n=n, bad=bad, label=label):
                        probs = []
                        upto = n if bad is None else bad + 1
                        if cur["events"] != [("value_of", j) for j in range(upto)]:
                            probs.append("children serialised %s, expected the first %d once each in order" % (cur["events"], upto))
                        vec = st[-1][1]
                        if bad is not None:
                            if outs[-1] != errv(bad):
                                probs.append("the failing child's error is not returned: %s" % (str(outs[-1])[:120],))
                            if vec != [("abs_val", j) for j in range(bad)]:
                                probs.append("after a failing child the collected values are %s" % (vec,))
                            return probs
                        want_list = ("enum", "Value::List", [("arc", ("vec", [("abs_val", j) for j in range(n)]))])
                        if label == "tuple variant":
                            want = ("enum", "Result::Ok", [("enum", "Value::Map", [("from_hashmap", [[("string", "Variant"), ("arc", ("vec", [("abs_val", j) for j in range(n)]))]])])])
                        else:
                            want = ("enum", "Result::Ok", [want_list])
                        if final != want:
                            probs.append("end() is %s, expected %s" % (str(final)[:200], str(want)[:200]))
                        return probs
                    drive({"serializer": label, "children": n, "failing": bad}, steps, state, endf, judge)

        # ---- maps: key/value pairs, repeated keys, failing key or value, value before key
        kfn = method("impl ser::SerializeMap for SerializeMap", "serialize_key")
        vfn = method("impl ser::SerializeMap for SerializeMap", "serialize_value")
        mend = method("impl ser::SerializeMap for SerializeMap", "end")
        key_patterns = [[], ["a"], ["a", "b"], ["a", "a"], ["a", "b", "a"], ["a", "a", "a"], ["a", "b", "c"]]
        for keys in key_patterns:
            n = len(keys)
            for bad in [None] + [("key", j) for j in range(n)] + [("value", j) for j in range(n)]:
                cur.clear()
                cur.update({"events": [],
                            "results": {j: (errv(j) if bad == ("value", j) else okv(j)) for j in range(n)},
                            "key_results": {j: (("enum", "Result::Err", [("key_error", j)]) if bad == ("key", j) else ("enum", "Result::Ok", [("key", keys[j])])) for j in range(n)}})
                steps = []
                for j in range(n):
                    steps.append((kfn, [Ref({0: ("keyexpr", j)}, 0, ())]))
                    steps.append((vfn, [Ref({0: ("elem", j)}, 0, ())]))

                def judge(outs, final, st, keys=keys, n=n, bad=bad):
                    probs = []
                    done = n if bad is None else bad[1]
                    want = {}
                    for j in range(done):
                        want[keys[j]] = ("abs_val", j)
                    got_entries = st[0][1]
                    got = {x[0][1]: x[1] for x in got_entries}
                    if bad is None:
                        wantv = ("enum", "Result::Ok", [("enum", "Value::Map", [("from_hashmap", got_entries)])])
                        if final is None or final[1] != "Result::Ok" or final[2][0][1] != "Value::Map":
                            probs.append("end() is not Ok(Map): %s" % (str(final)[:160],))
                        else:
                            fin = {x[0][1]: x[1] for x in final[2][0][2][0][1]}
                            if fin != want or len(final[2][0][2][0][1]) != len(want):
                                probs.append("the map is %s, expected %s (a repeated key keeps the later value)" % (sorted(fin.items()), sorted(want.items())))
                    else:
                        expect_err = ("enum", "Result::Err", [("key_error", bad[1])]) if bad[0] == "key" else errv(bad[1])
                        if outs[-1] != expect_err:
                            probs.append("the failing %s's error is not returned: %s" % (bad[0], str(outs[-1])[:120]))
                        if got != want or len(got_entries) != len(want):
                            probs.append("after the failure the map holds %s, expected %s" % (sorted(got.items()), sorted(want.items())))
                    return probs
                drive({"serializer": "map", "keys": keys, "failing": list(bad) if bad else None}, steps, [["hashmap", []], ("None",)], mend, judge)
        # a value before any key
        cur.clear()
        cur.update({"events": [], "results": {0: okv(0)}, "key_results": {}})
        drive({"serializer": "map", "keys": [], "case": "serialize_value before serialize_key"}, [(vfn, [Ref({0: ("elem", 0)}, 0, ())])], [["hashmap", []], ("None",)], mend,
              lambda outs, final, st: [] if (outs[-1][1].endswith("Err") and "InvalidKey" in str(outs[-1]) and st[0][1] == []) else ["a value without a key is not the InvalidKey error: %s" % (str(outs[-1])[:160],)])

        # ---- struct (through serialize_entry) and struct variant
        sfn = method("impl ser::SerializeStruct for SerializeMap", "serialize_field")
        send = method("impl ser::SerializeStruct for SerializeMap", "end")
        vsfn = method("impl ser::SerializeStructVariant for SerializeStructVariant", "serialize_field")
        vsend = method("impl ser::SerializeStructVariant for SerializeStructVariant", "end")
        # field values: abstract, or real values of the kinds a serializer could be tempted to treat specially (null from
        # None / unit, zero, false, an empty list)
        VALS = {"abstract": lambda j: ("abs_val", j), "null": lambda j: ("enum", "Value::Null", []), "zero": lambda j: ("enum", "Value::Int", [0]),
                "false": lambda j: ("enum", "Value::Bool", [False]), "empty list": lambda j: ("enum", "Value::List", [("arc", ("vec", []))])}
        for label, fn, endf, vk in [(l_, f_, e_, "abstract") for (l_, f_, e_) in (("struct", sfn, send), ("struct variant", vsfn, vsend))] + \
                                   [(l_, f_, e_, vk_) for (l_, f_, e_) in (("struct", sfn, send), ("struct variant", vsfn, vsend)) for vk_ in ("null", "zero", "false", "empty list")]:
            val = VALS[vk]
            for n in (range(0, DEPTH + 1) if vk == "abstract" else (1, 2)):
                for bad in ([None] + list(range(n)) if vk == "abstract" else [None]):
                    names = ["f%d" % j for j in range(n)]
                    cur.clear()
                    cur.update({"events": [], "results": {j: (errv(j) if bad == j else ("enum", "Result::Ok", [val(j)])) for j in range(n)},
                                "key_results": {"field:" + nm: ("enum", "Result::Ok", [("key", nm)]) for nm in names}})
                    state = [("string", "Variant"), ["hashmap", []]] if label == "struct variant" else [["hashmap", []], ("None",)]
                    steps = [(fn, [("str", names[j].encode()), Ref({0: ("elem", j)}, 0, ())]) for j in range(n)]

                    def judge(outs, final, st, n=n, bad=bad, label=label, names=names, val=val):
                        probs = []
                        done = n if bad is None else bad
                        hm = st[1][1] if label == "struct variant" else st[0][1]
                        got = {x[0][1]: x[1] for x in hm}
                        want = {names[j]: val(j) for j in range(done)}
                        if got != want or len(hm) != len(want):
                            probs.append("fields collected %s, expected %s" % (sorted(got.items()), sorted(want.items())))
                        if bad is not None:
                            if outs[-1] != errv(bad):
                                probs.append("the failing field's error is not returned: %s" % (str(outs[-1])[:120],))
                            return probs
                        if final is None or final[1] != "Result::Ok" or final[2][0][1] != "Value::Map":
                            probs.append("end() is not Ok(Map): %s" % (str(final)[:160],))
                        elif label == "struct variant":
                            ents = final[2][0][2][0][1]
                            ok = len(ents) == 1 and ents[0][0] == ("string", "Variant") and ents[0][1][1] == "Value::Map" and \
                                {x[0][1]: x[1] for x in ents[0][1][2][0][1]} == want
                            if not ok:
                                probs.append("end() is not {Variant: {fields}}: %s" % (str(final)[:200],))
                        else:
                            fin = {x[0][1]: x[1] for x in final[2][0][2][0][1]}
                            if fin != want:
                                probs.append("end() map is %s" % (sorted(fin.items()),))
                        return probs
                    drive({"serializer": label, "fields": n, "failing": bad, "field_values": vk}, steps, state, endf, judge)
        # ---- scalar keys: KeySerializer turns every integer width into the key of the same signedness and number, bools into
        #      bool keys, and rejects every other scalar kind
        kmeth = {}
        for nme, f in fns.items():
            mk = re.match(r"^ser::<impl at [^>]*>::serialize_(bool|i8|i16|i32|i64|u8|u16|u32|u64|f32|f64|unit|none|bytes)(#\d+)?$", nme)
            if mk and f.args and f.args[0].endswith(": KeySerializer"):
                kmeth[mk.group(1)] = f
        ranges = {"i8": (-2 ** 7, 2 ** 7 - 1), "i16": (-2 ** 15, 2 ** 15 - 1), "i32": (-2 ** 31, 2 ** 31 - 1), "i64": (-2 ** 63, 2 ** 63 - 1),
                  "u8": (0, 2 ** 8 - 1), "u16": (0, 2 ** 16 - 1), "u32": (0, 2 ** 32 - 1), "u64": (0, 2 ** 64 - 1)}
        # the narrow widths forward to the wide methods of the same serializer: a trait-qualified call resolves to the method above
        key_dispatch = (r"^<KeySerializer as (?:serde::)?(?:ser::)?Serializer>::serialize_(\w+)$", lambda e, m, a: e.call_fn(kmeth[m.group(1)], a) if m.group(1) in kmeth else (_ for _ in ()).throw(Unsupported("KeySerializer::serialize_" + m.group(1))))
        if key_dispatch[0] not in [x[0] for x in extern]:
            extern.insert(0, key_dispatch)
        for ty in ("bool", "i8", "i16", "i32", "i64", "u8", "u16", "u32", "u64", "f32", "f64", "unit", "none"):
            if ty not in kmeth:
                undecided.append("KeySerializer::serialize_%s not found" % ty)
                continue
            stats["scenarios"] += 1
            eng = engine()
            eng.discriminants.update({"Key::Int": 0, "Key::Uint": 1, "Key::Bool": 2, "Key::String": 3})
            desc = {"serializer": "key", "scalar": ty}
            v = z3.Bool("key_b") if ty == "bool" else (z3.Int("key_v") if ty in ranges else (z3.FP("key_f", z3.Float64() if ty == "f64" else z3.Float32()) if ty in ("f32", "f64") else None))
            cons = [v >= ranges[ty][0], v <= ranges[ty][1]] if ty in ranges else []

            def on_key_path(res, e, ty=ty, v=v, desc=desc):
                good = False
                if ty in ranges:
                    kind = "Key::Int" if ty.startswith("i") else "Key::Uint"
                    good = isinstance(res, tuple) and res[0] == "enum" and res[1].endswith("Ok") and res[2][0][1] == kind and not e.check(res[2][0][2][0] != v)
                elif ty == "bool":
                    good = isinstance(res, tuple) and res[0] == "enum" and res[1].endswith("Ok") and res[2][0][1] == "Key::Bool" and \
                        not e.check((res[2][0][2][0] if is_sym(res[2][0][2][0]) else z3.BoolVal(res[2][0][2][0])) != v)
                else:
                    good = isinstance(res, tuple) and res[0] == "enum" and res[1].endswith("Err")
                if good:
                    stats["proved"] += 1
                else:
                    failures.append(dict(desc, problems=["a %s map key does not become the key of the same kind and number (or, for kinds that cannot be keys, an error): %s" % (ty, str(res)[:160])]))
            try:
                eng.explore(lambda e, ty=ty, v=v: e.call_fn(kmeth[ty], [("enum", "KeySerializer", [])] + ([v] if v is not None else [])), None, on_key_path, cons)
                stats["paths"] += eng.stats["paths"]
            except PanicFound as p:
                failures.append(dict(desc, problems=["panic reachable: %s" % p.msg]))
            except Unsupported as u:
                undecided.append("%s: %s" % (json.dumps(desc), str(u)[:160]))
            stats["functions"] |= eng.stats["functions"]
        # ---- the Duration wrapper: SerializeTimestamp::end assembles secs + nanos into a chrono duration
        MAXMS = 2 ** 63 - 1
        secs, nanos = z3.Int("secs"), z3.Int("nanos")

        def td_seconds(e, m, a):
            v = a[0]
            # chrono panics outside +-i64::MAX milliseconds
            if e.check(z3.Or(v * 1000 > MAXMS, v * 1000 < -MAXMS)):
                e.violations.append({"kind": "panic", "message": "TimeDelta::seconds out of bounds", "function": "end", "model": e.model_inputs()})
                if not e.check(z3.And(v * 1000 <= MAXMS, v * 1000 >= -MAXMS)):
                    raise PanicFound("TimeDelta::seconds out of bounds", None)
                e.solver.add(z3.And(v * 1000 <= MAXMS, v * 1000 >= -MAXMS))
            return ("td", v * 10 ** 9)

        def td_checked_add(e, m, a):
            x, y = (a[0] if not isinstance(a[0], Ref) else e.read_path(a[0].frame, a[0].local, list(a[0].proj))), (a[1] if not isinstance(a[1], Ref) else e.read_path(a[1].frame, a[1].local, list(a[1].proj)))
            t = x[1] + y[1]
            if e.decide(z3.And(t <= MAXMS * 10 ** 6 + 999999, t >= -MAXMS * 10 ** 6 - 999999)):
                return ("Some", ("td", t))
            return ("None",)

        dur_extern = [
            (r"^TimeDelta::seconds$", td_seconds),
            (r"^TimeDelta::(?:nanoseconds|microseconds|milliseconds)$", lambda e, m, a: ("td", a[0] * {"nanoseconds": 1, "microseconds": 1000, "milliseconds": 10 ** 6}[m.group(0).split("::")[1]])),
            (r"^TimeDelta::checked_add$", td_checked_add),
            (r"^<i32 as (?:std::convert::)?Into<i64>>::into$", lambda e, m, a: a[0]),
            (r"^<i64 as From<i32>>::from$", lambda e, m, a: a[0]),
            (r"^<TimeDelta as (?:std::convert::)?Into<Value>>::into$", lambda e, m, a: ("enum", "Value::Duration", [a[0]])),
        ] + extern
        endf = method("impl ser::SerializeStruct for SerializeTimestamp", "end")
        stats["scenarios"] += 1
        eng = Engine(fns, consts, dur_extern)
        eng.discriminants = {"Result::Ok": 0, "Result::Err": 1}
        eng.model_inputs = lambda: {"secs": eng.solver.model().eval(secs, model_completion=True).as_long(), "nanos": eng.solver.model().eval(nanos, model_completion=True).as_long()} if eng.check() else None
        desc = {"serializer": "Duration wrapper (SerializeTimestamp::end)"}

        def on_path(res, e):
            want = secs * 10 ** 9 + nanos
            ok = isinstance(res, tuple) and res[1] == "Result::Ok" and res[2][0][1] == "Value::Duration"
            if ok:
                t = res[2][0][2][0][1]
                if e.check(t != want):
                    mdl = e.solver.model()
                    failures.append(dict(desc, problems=["the duration is not secs * 10^9 + nanos"],
                                         secs=mdl.eval(secs, model_completion=True).as_long(), nanos=mdl.eval(nanos, model_completion=True).as_long()))
                    return
                stats["proved"] += 1
            else:
                failures.append(dict(desc, problems=["end() is not Ok(Duration): %s" % (str(res)[:160],)], secs=None, nanos=None))
        # what the wrapper hands over: num_seconds() and subsec_nanos() of a chrono duration - same sign, |nanos| < 10^9, total within range
        pre = [secs * 1000 <= MAXMS, secs * 1000 >= -MAXMS, nanos > -10 ** 9, nanos < 10 ** 9,
               z3.Or(secs == 0, z3.And(secs > 0, nanos >= 0), z3.And(secs < 0, nanos <= 0)),
               secs * 10 ** 9 + nanos <= MAXMS * 10 ** 6 + 999999, secs * 10 ** 9 + nanos >= -MAXMS * 10 ** 6 - 999999]
        try:
            eng.explore(lambda e: e.call_fn(endf, [[secs, nanos]]), None, on_path, pre)
        except PanicFound as p:
            mi = eng.violations[-1].get("model") if eng.violations else None
            failures.append(dict(desc, problems=["panic reachable: %s" % p.msg], secs=(mi or {}).get("secs"), nanos=(mi or {}).get("nanos")))
        if eng.violations and not (failures and failures[-1].get("serializer") == desc["serializer"]):
            mi = eng.violations[0].get("model")
            failures.append(dict(desc, problems=["panic reachable: %s" % eng.violations[0]["message"]], secs=(mi or {}).get("secs"), nanos=(mi or {}).get("nanos")))
        stats["paths"] += eng.stats["paths"]
        stats["functions"] |= eng.stats["functions"]
    except Unsupported as u:
        status = 2
        print("INCONCLUSIVE: unsupported: %s" % u)
        if os.environ.get("MIRSYM_TRACE"):
            import traceback
            traceback.print_exc()
    if undecided:
        status = 2
        print("INCONCLUSIVE: %d scenarios undecided, e.g. unsupported: %s" % (len(undecided), undecided[0][:300]))
    if failures:  # a counterexample stands even if a later scenario met an unmodelled call (it is replayed natively anyway)
        status = 1
    out = {"functions_encoded": sorted(stats["functions"]), "scenarios": stats["scenarios"], "paths": stats["paths"], "paths_proved": stats["proved"],
           "queries": 0, "solver_s": 0.0, "wall_s": round(time.time() - t0, 2), "failures": failures[:12], "samples": samples}
    if outp:
        json.dump(out, open(outp, "w"), indent=1)
    for f in failures[:5]:
        print("COUNTEREXAMPLE " + json.dumps(f)[:600])
    print("mirsym ser_compound: %d scenarios, %d paths, %d proved, %d failures, %.1fs wall" % (stats["scenarios"], stats["paths"], stats["proved"], len(failures), out["wall_s"]))
    return status


if __name__ == "__main__":
    sys.exit(main())
