#!/usr/bin/env python3
"""Program::execute (interpreter/src/lib.rs) on the MIR: the entry point every node-level claim is observed through.

The node-level specs (resolve_node.py, comprehension_node.py, ...) decide what `Value::resolve` does on one node
and extend to whole trees by induction; that argument reaches the user only if `Program::execute(&self, ctx)` is
nothing but one evaluation of the program's root expression against the context it was given.  `execute` is
executed from its entry with the evaluator as an event:
  * exactly one call of Value::resolve, on the program's own expression, with the caller's context;
  * its result - a value or an error of any kind - is returned unchanged;
  * nothing else is called: a walk over the expression, a lookup in the context or any other work done before or
    after the evaluation (which could turn a skipped operand's problem into an error, or evaluate something twice)
    is a deviation.
usage: program_execute.py <interpreter-mir-file> <repo-root> [--json out.json]
"""
import json
import os
import re
import sys
import time
sys.path.insert(0, os.path.dirname(os.path.abspath(__file__)))
from mirsym import Engine, parse_mir, STD_MODELS, Unsupported, PanicFound, Ref, Opaque


class Deviation(Exception):
    pass


def main():
    mir, repo = sys.argv[1], sys.argv[2]
    outp = sys.argv[sys.argv.index("--json") + 1] if "--json" in sys.argv else None
    t0 = time.time()
    fns, consts = parse_mir(open(mir).read())
    cands = [f for n, f in fns.items() if re.match(r"^<impl at interpreter/src/lib\.rs[^>]*>::execute(#\d+)?$", n) and len(f.args) == 2]
    if len(cands) != 1:
        print("INCONCLUSIVE: Program::execute not found uniquely (%d)" % len(cands))
        return 2
    fn = cands[0]
    failures, samples = [], []
    stats = {"scenarios": 0, "paths": 0, "proved": 0, "functions": set()}
    cur = {}

    def deref(e, x):
        return e.read_path(x.frame, x.local, list(x.proj)) if isinstance(x, Ref) else x

    def m_resolve(e, m, a):
        expr, ctx = deref(e, a[0]), deref(e, a[1])
        cur["events"].append(("resolve", expr, ctx.what if isinstance(ctx, Opaque) else str(ctx)[:40]))
        return cur["result"]

    def m_other(e, m, a):
        raise Deviation(m.group(0)[:160])

    extern = [
        (r"^(?:objects::)?Value::resolve$", m_resolve),
        # the Try plumbing of `?` is allowed (a wrapper may be written `Ok(resolve(..)?)`), anything else is not
        (r"^<std::result::Result<.*> as Try>::branch$", STD_MODELS and (lambda e, m, a: ("enum", "ControlFlow::Continue", [a[0][2][0]]) if a[0][1].endswith("Ok") else ("enum", "ControlFlow::Break", [("enum", "Result::Err", [a[0][2][0]])]))),
        (r"^<std::result::Result<.*> as FromResidual<.*>>::from_residual$", lambda e, m, a: ("enum", "Result::Err", [a[0][2][0]])),
        (r"^.*$", m_other),
    ]
    results = {"a value": ("enum", "Result::Ok", [("abs_val", "v")]),
               "an undeclared reference": ("enum", "Result::Err", [("enum", "ExecutionError::UndeclaredReference", [("abs", "name")])]),
               "another execution error": ("enum", "Result::Err", [("abs_err", "e")])}
    status = 0
    for label, res in results.items():
        stats["scenarios"] += 1
        eng = Engine(dict((k, v) for k, v in fns.items() if v is fn), consts, extern)
        eng.discriminants = {"Result::Ok": 0, "Result::Err": 1, "ControlFlow::Continue": 0, "ControlFlow::Break": 1}
        eng.steps = 0
        cur.update({"events": [], "result": res})
        program = {0: [("program_expression",)]}
        desc = {"evaluation_yields": label}
        try:
            got = eng.call_fn(fn, [Ref(program, 0, ()), Opaque("callers_context")])
            stats["paths"] += 1
            probs = []
            if cur["events"] != [("resolve", ("program_expression",), "callers_context")]:
                probs.append("events %s, expected exactly one evaluation of the program's expression against the caller's context" % (cur["events"],))
            if got != res:
                probs.append("the evaluation's result is not returned unchanged: %r" % (got,))
            if probs:
                failures.append(dict(desc, problems=probs))
            else:
                stats["proved"] += 1
                samples.append(dict(desc, events=[str(x) for x in cur["events"]]))
        except Deviation as d:
            failures.append(dict(desc, problems=["execute does more than evaluate the expression: it calls %s" % d]))
        except PanicFound as p:
            failures.append(dict(desc, problems=["panic reachable: %s" % p.msg]))
        except Unsupported as u:
            status = 2
            print("INCONCLUSIVE: unsupported: %s" % u)
        stats["functions"] |= eng.stats["functions"]
    if failures:
        status = 1
    out = {"functions_encoded": sorted(stats["functions"]), "scenarios": stats["scenarios"], "paths": stats["paths"], "paths_proved": stats["proved"],
           "queries": 0, "solver_s": 0.0, "wall_s": round(time.time() - t0, 2), "failures": failures, "samples": samples}
    if outp:
        json.dump(out, open(outp, "w"), indent=1)
    for f in failures[:3]:
        print("COUNTEREXAMPLE " + json.dumps(f)[:500])
    print("mirsym program_execute: %d scenarios, %d paths, %d proved, %d failures, %.1fs wall" % (stats["scenarios"], stats["paths"], stats["proved"], len(failures), out["wall_s"]))
    return status


if __name__ == "__main__":
    sys.exit(main())
