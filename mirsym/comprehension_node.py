#!/usr/bin/env python3
"""The comprehension fold loop (C10 fold half, C11 macro-scoping half) decided on the MIR of
`Value::resolve` for one `Expr::Comprehension` node ranging over a list.

The node's five sub-expressions (range, accumulator initialiser, loop condition, loop step,
result) are abstract; every `Value::resolve(sub, ctx)` is an event that records WHICH context it
was given and returns an arbitrary result (error, or a value of the kind the scenario prescribes,
loop conditions being booleans with symbolic truth).  `Context::new_inner_scope`,
`add_variable` and `add_variable_from_value` are events on an abstract scope object.  Lists of
0..3 abstract elements.  Proved on every feasible path:

  * range and accumulator initialiser are evaluated once each, in the OUTER scope, before anything
    else; an error in either is the result;
  * one fresh inner scope is opened from the outer one; the accumulator is bound in it first;
  * per element, in order: the loop condition is evaluated in the inner scope BEFORE the element is
    bound; if it is falsy the loop stops and no later element is visited; otherwise the iteration
    variable is bound to exactly that element in the inner scope, the step is evaluated once in
    the inner scope and its value re-bound to the accumulator there; an error in condition or
    step aborts with that error;
  * the result expression is evaluated once, in the inner scope, after the loop, and is the node's
    result; nothing is ever bound in the outer scope (scopes never leak).

usage: comprehension_node.py <mir-file> <repo-root> [--json out.json]; exit 0 / 1 / 2 as the other specs
"""
import itertools
import json
import os
import re
import sys
import time
import z3
sys.path.insert(0, os.path.dirname(os.path.abspath(__file__)))
# bound on the number of children / elements per node; the thorough tier of the driver raises it
DEPTH = int(os.environ.get("MIRSYM_DEPTH", "3"))
from mirsym import Engine, parse_mir, STD_MODELS, Unsupported, PanicFound, Ref, Opaque, is_sym

EXPR_DISC = {"Expr::Unspecified": 0, "Expr::Call": 1, "Expr::Comprehension": 2, "Expr::Ident": 3, "Expr::List": 4,
             "Expr::Literal": 5, "Expr::Map": 6, "Expr::Select": 7, "Expr::Struct": 8}


def main():
    mir, repo = sys.argv[1], sys.argv[2]
    outp = sys.argv[sys.argv.index("--json") + 1] if "--json" in sys.argv else None
    t0 = time.time()
    fns, consts = parse_mir(open(mir).read())
    src = open(os.path.join(repo, "interpreter/src/objects.rs")).read()
    body = src[src.index("pub enum Value {"):]
    body = body[:body.index("\n}")]
    value_names = re.findall(r"^\s{4}([A-Z]\w*)[\(,\n {]", body, re.M)
    ast = open(os.path.join(repo, "antlr/src/ast/mod.rs")).read()
    cb = ast[ast.index("pub struct ComprehensionExpr {"):]
    cb = cb[:cb.index("\n}")]
    fields = re.findall(r"pub (\w+):", cb)
    if fields != ["iter_range", "iter_var", "iter_var2", "accu_var", "accu_init", "loop_cond", "loop_step", "result"]:
        print("INCONCLUSIVE: ComprehensionExpr fields changed: %s" % fields)
        return 2
    cands = [f for n, f in fns.items() if n.endswith("::resolve") and n.startswith("objects")]
    if len(cands) != 1:
        print("INCONCLUSIVE: Value::resolve not found uniquely")
        return 2
    fn = cands[0]
    stats = {"scenarios": 0, "paths": 0, "proved": 0, "queries": 0, "solver_s": 0.0, "assert_obligations": 0, "functions": set()}
    failures, samples = [], []
    status = 0
    cur = {}

    def deref(e, x):
        return e.read_path(x.frame, x.local, list(x.proj)) if isinstance(x, Ref) else x

    def ctx_name(e, c):
        c = deref(e, c)
        if isinstance(c, Opaque):
            return c.what
        if isinstance(c, tuple) and c[0] == "scope":
            return c[1]
        return "?"

    def m_resolve(e, m, a):
        h = deref(e, a[0])
        # sub-expressions are real expression values of the shapes the macros produce; their id field carries the handle
        which = h[0][1] if (isinstance(h, list) and isinstance(h[0], tuple) and h[0][0] == "opid") else h[1]
        cn = ctx_name(e, a[1])
        cur["events"].append(("resolve", which, cn))
        k = sum(1 for x in cur["events"] if x[0] == "resolve" and x[1] == which) - 1
        if which not in cur["results"]:
            # an evaluation of something that is not one of this node's five sub-expressions (a grandchild): logged above, which
            # makes the trace deviate; give it a value so that the path can be followed to its end
            return ("enum", "Result::Ok", [("enum", "Value::Bool", [z3.Bool("grandchild_%s_%d" % (re.sub(r"\W+", "_", str(which)), k))])])
        r = cur["results"][which]
        return r[k] if isinstance(r, list) else r

    def m_new_inner(e, m, a):
        cur["events"].append(("new_inner_scope", ctx_name(e, a[0])))
        return ("scope", "inner")

    def m_add_variable(e, m, a):
        name = deref(e, a[1])
        cur["events"].append(("bind", ctx_name(e, a[0]), name[1], a[2]))
        return ("enum", "Result::Ok", [[]])

    def m_add_variable_from_value(e, m, a):
        name = deref(e, a[1])
        cur["events"].append(("bind", ctx_name(e, a[0]), name[1], a[2]))
        return []

    def m_try_branch(e, m, a):
        r = a[0]
        if r[1].endswith("Ok"):
            return ("enum", "ControlFlow::Continue", [r[2][0]])
        return ("enum", "ControlFlow::Break", [("enum", "Result::Err", [r[2][0]])])

    def m_from_residual(e, m, a):
        return ("enum", "Result::Err", [a[0][2][0]])

    def m_box_deref(e, m, a):
        b = deref(e, a[0])
        return b[0][0]

    def m_arc_deref(e, m, a):
        return a[0]

    def m_into_iter(e, m, a):
        return ["iter", a[0], 0]

    def m_iter_next(e, m, a):
        it = deref(e, a[0])
        lst = deref(e, it[1])
        items = lst[1] if isinstance(lst, tuple) else lst
        if it[2] < len(items):
            k = it[2]
            it[2] += 1
            r = it[1]
            return ("Some", Ref(r.frame, r.local, list(r.proj) + [("field", 1), ("idx", k)]))
        return ("None",)

    def m_value_clone(e, m, a):
        return deref(e, a[0])

    def m_expect(e, m, a):
        return []

    def m_value_eq(e, m, a):
        # element comparisons an implementation might use are arbitrary: any outcome is possible
        k = len([x for x in cur["events"] if x[0] == "value_eq"])
        cur["events"].append(("value_eq",))
        b = z3.Bool("value_eq_%d" % k)
        return b if m.group(1) == "eq" else z3.Not(b)

    def m_opt_value_eq(e, m, a):
        l, r = deref(e, a[0]), deref(e, a[1])
        if l[0] != r[0]:
            res = False
        elif l[0] == "None":
            res = True
        else:
            k = len([x for x in cur["events"] if x[0] == "value_eq"])
            cur["events"].append(("value_eq",))
            res = z3.Bool("value_eq_%d" % k)
        if m.group(1) == "eq":
            return res
        return (not res) if isinstance(res, bool) else z3.Not(res)

    def m_panic(e, m, a):
        e.violations.append({"kind": "panic", "message": "panic_fmt reached (todo!/unreachable!/expect)", "function": fn.name, "model": None})
        raise PanicFound("panic_fmt", None)

    def m_string_eq_any(e, m, a):
        x, y = deref(e, a[0]), deref(e, a[1])
        x, y = deref(e, x), deref(e, y)
        tx = x[1].decode() if isinstance(x[1], bytes) else x[1]
        ty = y[1].decode() if isinstance(y[1], bytes) else y[1]
        return tx == ty

    extern = [
        (r"^(?:core::panicking::)?panic_fmt$", m_panic),
        (r"^<std::option::Option<&Value> as PartialEq>::(eq|ne)$", m_opt_value_eq),
        (r"^<Value as PartialEq>::(eq|ne)$", m_value_eq),
        (r"^Value::resolve$", m_resolve),
        (r"^context::Context::<'_>::new_inner_scope$", m_new_inner),
        (r"^context::Context::<'_>::add_variable::<&std::string::String, Value>$", m_add_variable),
        (r"^context::Context::<'_>::add_variable_from_value::<&std::string::String, Value>$", m_add_variable_from_value),
        (r"^<std::result::Result<.*> as Try>::branch$", m_try_branch),
        (r"^<std::result::Result<.*> as FromResidual<std::result::Result<Infallible, ExecutionError>>>::from_residual$", m_from_residual),
        (r"^<Box<Expression> as Deref>::deref$", m_box_deref),
        (r"^<Arc<Vec<Value>> as Deref>::deref$", m_arc_deref),
        (r"^<&Vec<(?:Value|Expression|IdedExpr)> as IntoIterator>::into_iter$", m_into_iter),
        (r"^<std::slice::Iter<'_, (?:Value|Expression|IdedExpr)> as Iterator>::next$", m_iter_next),
        (r"^<Value as Clone>::clone$", m_value_clone),
        (r"^std::result::Result::<\(\), Infallible>::expect$", m_expect),
        (r"^Vec::<(?:Expression|IdedExpr)>::len$", lambda e, m, a: len((lambda v: v[1] if isinstance(v, tuple) else v)(deref(e, a[0])))),
        (r"^Vec::<(?:Expression|IdedExpr)>::is_empty$", lambda e, m, a: len((lambda v: v[1] if isinstance(v, tuple) else v)(deref(e, a[0]))) == 0),
        (r"^<Vec<(?:Expression|IdedExpr)> as Index<usize>>::index$", lambda e, m, a: Ref(a[0].frame, a[0].local, list(a[0].proj) + [("field", 1), ("idx", a[1])])),
        (r"^<Vec<(?:Expression|IdedExpr)> as Deref>::deref$", lambda e, m, a: a[0]),
        (r"^core::slice::<impl \[(?:Expression|IdedExpr)\]>::len$", lambda e, m, a: len((lambda v: v[1] if isinstance(v, tuple) else v)(deref(e, a[0])))),
        (r"^<std::string::String as Deref>::deref$", lambda e, m, a: deref(e, a[0])),
        (r"^std::string::String::as_str$", lambda e, m, a: deref(e, a[0])),
        (r"^<Vec<Value> as Deref>::deref$", lambda e, m, a: a[0]),
        (r"^<std::slice::Iter<'_, Value> as IntoIterator>::into_iter$", lambda e, m, a: a[0]),
        (r"^<Arc<Vec<Value>> as From<Vec<Value>>>::from$", lambda e, m, a: ("arc", a[0][1]) if isinstance(a[0], tuple) and a[0][0] == "vec" else ("arc", a[0])),
        (r"^core::slice::<impl \[Value\]>::len$", lambda e, m, a: len((lambda v: v[1] if isinstance(v, tuple) else v)(deref(e, a[0])))),
        (r"^Vec::<Value>::(?:with_capacity|new)$", lambda e, m, a: ("vec", [])),
        (r"^Vec::<Value>::push$", lambda e, m, a: (deref(e, a[0])[1].append(a[1]), ("unit",))[1]),
        (r"^<Vec<Value> as (?:std::convert::)?Into<Arc<Vec<Value>>>>::into$", lambda e, m, a: ("arc", a[0][1]) if isinstance(a[0], tuple) and a[0][0] == "vec" else ("arc", a[0])),
        (r"^core::slice::<impl \[Value\]>::iter$", lambda e, m, a: ["iter", a[0], 0]),
        (r"^Vec::<Value>::is_empty$", lambda e, m, a: len((lambda v: v[1] if isinstance(v, tuple) else v)(deref(e, a[0]))) == 0),
        (r"^Vec::<Value>::len$", lambda e, m, a: len((lambda v: v[1] if isinstance(v, tuple) else v)(deref(e, a[0])))),
        (r"^<std::string::String as PartialEq<&?str>>::(?:eq|ne)$", lambda e, m, a: m_string_eq_any(e, m, a) if m.group(0).endswith("eq") else not m_string_eq_any(e, m, a)),
        (r"^<std::string::String as PartialEq>::eq$", m_string_eq_any),
        (r"^<str as PartialEq>::eq$", m_string_eq_any),
    ] + STD_MODELS

    conds = [z3.Bool("cond%d" % k) for k in range(DEPTH + 1)]

    S = lambda t: ("string", t)
    ident = lambda n: ("enum", "Expr::Ident", [S(n)])
    shape_now = {"cond": "nsf"}

    def shape_of(h):
        acc = [("opid", "inner_" + h), ident("@result")]
        if h == "range":
            if shape_now.get("range") == "list literal":
                # a list literal as the macro receiver: its elements are the range node's children, not this node's
                return ("enum", "Expr::List", [[("vec", [[("opid", "re%d" % j), ("enum", "Expr::Call", [[S("f%d" % j), ("None",), ("vec", [])]])] for j in range(shape_now["n"])])]])
            return ident("xs")
        if h == "init":
            if shape_now.get("step") in ("append", "guarded append"):
                return ("enum", "Expr::List", [[("vec", [])]])   # map / filter start from the empty list
            return ("enum", "Expr::Literal", [("enum", "Val::Boolean", [True])])
        if h == "cond":
            if shape_now["cond"] == "nsf":
                return ("enum", "Expr::Call", [[S("@not_strictly_false"), ("None",), ("vec", [acc])]])
            return ("enum", "Expr::Literal", [("enum", "Val::Boolean", [True])])
        if h == "step":
            lst = lambda inner: [("opid", "inner_list"), ("enum", "Expr::List", [[("vec", [inner])]])]
            append = lambda: [("opid", "inner_append"), ("enum", "Expr::Call", [[S("_+_"), ("None",), ("vec", [acc, lst([("opid", "inner_e"), ident("e")])])]])]
            if shape_now.get("step") == "append":          # map(x, e): @result + [e]
                return append()[1]
            if shape_now.get("step") == "guarded append":  # map(x, g, e) / filter(x, g): g ? @result + [e] : @result
                return ("enum", "Expr::Call", [[S("_?_:_"), ("None",), ("vec", [[("opid", "inner_g"), ident("g")], append(), [("opid", "inner_acc2"), ident("@result")]])]])
            return ("enum", "Expr::Call", [[S("_&&_"), ("None",), ("vec", [acc, [("opid", "inner_p"), ident("p")]])]])
        return ident("@result")

    def box(h):
        hold = {0: [("opid", h), shape_of(h)]}
        return [[Ref(hold, 0, ())]]

    undecided = []

    def scenario(n, errs, range_kind="list"):
        """n list elements; errs: which evaluation fails: None | ('range',) | ('init',) | ('cond', k) | ('step', k) | ('result',)"""
        stats["scenarios"] += 1
        eng = Engine(fns, consts, extern)
        eng.discriminants = dict(EXPR_DISC)
        eng.discriminants.update({"Value::" + nme: k for k, nme in enumerate(value_names)})
        eng.discriminants.update({"ControlFlow::Continue": 0, "ControlFlow::Break": 1, "Result::Ok": 0, "Result::Err": 1})
        vsrc = open(os.path.join(repo, "antlr/src/reference.rs")).read()
        vbody = vsrc[vsrc.index("pub enum Val {") + len("pub enum Val {"):]
        vbody = vbody[:vbody.index("\n}")]
        eng.discriminants.update({"Val::" + nme: k_ for k_, nme in enumerate(re.findall(r"^\s*([A-Z]\w*)\b", vbody, re.M))})
        ops_src = open(os.path.join(repo, "antlr/src/ast/operators.rs")).read()
        op_consts = dict(re.findall(r"pub const (\w+): &str = \"([^\"]*)\";", ops_src))

        def ext_const(name):
            if name.startswith("std::result::Result::<(), Infallible>::Ok"):
                return []
            short = name.split("::")[-1]
            if "operators::" in name and short in op_consts:
                return ("str", op_consts[short].encode())
            return None
        eng.ext_const = ext_const
        items = [("abs_val", "item%d" % k) for k in range(n)]
        ok = lambda v: ("enum", "Result::Ok", [v])
        err = lambda w: ("enum", "Result::Err", [("abs_err", w)])
        results = {
            "range": err("range") if errs == ("range",) else (ok(("enum", "Value::List", [("arc", items)])) if range_kind == "list" else
                                                              ok({"int": ("enum", "Value::Int", [7]), "null": ("enum", "Value::Null", []), "bool": ("enum", "Value::Bool", [True]),
                                                                  "string": ("enum", "Value::String", [("abs", "s")])}[range_kind])),
            "init": err("init") if errs == ("init",) else ok(("abs_val", "init")),
            "cond": [err("cond%d" % k) if errs == ("cond", k) else ok(("enum", "Value::Bool", [conds[k]])) for k in range(n + 1)],
            "step": [err("step%d" % k) if errs == ("step", k) else ok(("abs_val", "acc%d" % k)) for k in range(n + 1)],
            "result": err("result") if errs == ("result",) else ok(("abs_val", "final")),
        }
        shape_now["n"] = n
        for j in range(n):
            results["re%d" % j] = ok(items[j])
        comp = [box("range"), ("string", "x"), ("None",), ("string", "@result"), box("init"), box("cond"), box("step"), box("result")]
        expr = [3, ("enum", "Expr::Comprehension", [comp])]
        pseudo = {0: expr}
        desc = {"elements": n, "failing": list(errs) if errs else None, "range_kind": range_kind, "loop_condition_shape": shape_now["cond"], "range_shape": shape_now.get("range", "identifier"),
                "step_shape": shape_now.get("step", "accumulate with &&")}

        def entry(e):
            cur.clear()
            cur.update({"events": [], "results": results})
            return e.call_fn(fn, [Ref(pseudo, 0, ()), Opaque("outer")])

        def on_path(res, e):
            ev = cur["events"]
            if range_kind != "list":
                # a range that is neither a list nor a map: an execution error, never a panic
                if isinstance(res, tuple) and res[1] == "Result::Err":
                    stats["proved"] += 1
                else:
                    failures.append(dict(desc, problems=["a %s range is not an execution error: %r" % (range_kind, res)]))
                return
            # ---- reference trace
            # the range and the accumulator initialiser are both evaluated in the outer scope before
            # anything else; their mutual order is not prescribed (the code evaluates init first)
            first = ev[0][1] if ev and ev[0][0] == "resolve" and ev[0][1] in ("init", "range") else "init"
            second = "range" if first == "init" else "init"
            want = [("resolve", first, "outer")]
            final = None
            if errs == (first,):
                final = results[first]
            else:
                want.append(("resolve", second, "outer"))
                if errs == (second,):
                    final = results[second]
            if final is None:
                want.append(("new_inner_scope", "outer"))
                want.append(("bind", "inner", "@result", ("abs_val", "init")))
                for k in range(n):
                    want.append(("resolve", "cond", "inner"))
                    if errs == ("cond", k):
                        final = results["cond"][k]
                        break
                    c = e.decide(conds[k])
                    if not c:
                        break
                    want.append(("bind", "inner", "x", items[k]))
                    want.append(("resolve", "step", "inner"))
                    if errs == ("step", k):
                        final = results["step"][k]
                        break
                    want.append(("bind", "inner", "@result", ("abs_val", "acc%d" % k)))
                if final is None:
                    want.append(("resolve", "result", "inner"))
                    final = results["result"]
            probs = []
            ev = [x for x in ev if x[0] != "value_eq"]

            def canonical(trace):
                """what is observable: the order of evaluations, the scope each one sees and what is bound at that time.
                Opening the inner scope and binding the accumulator commute with evaluations in the OUTER scope that
                precede the first evaluation in the inner scope: those are put first."""
                trace = [tuple(x) for x in trace if x[0] != "new_inner_scope"]
                k = next((i for i, x in enumerate(trace) if x[0] == "resolve" and x[2] != "outer"), len(trace))
                head = trace[:k]
                out = [x for x in head if x[0] == "resolve"] + [x for x in head if x[0] != "resolve"] + trace[k:]
                # a binding that no later evaluation in the inner scope can see is not observable
                last_inner = max([i for i, x in enumerate(out) if x[0] == "resolve" and x[2] != "outer"], default=-1)
                return [x for i, x in enumerate(out) if x[0] != "bind" or i < last_inner]
            opened = [x for x in ev if x[0] == "new_inner_scope"]
            if final is not None and len(opened) > 1:
                probs.append("more than one inner scope opened: %s" % (opened,))
            if canonical(ev) != canonical(want):
                probs.append("event trace differs: got %s expected %s" % (ev, want))
            if res != final:
                probs.append("result %r, expected %r" % (res, final))
            if any(x[0] == "bind" and x[1] != "inner" for x in ev):
                probs.append("a variable was bound outside the inner scope")
            if probs:
                failures.append(dict(desc, problems=[p[:700] for p in probs]))
            else:
                stats["proved"] += 1
                if len(samples) < 12 and stats["proved"] % 11 == 0:
                    samples.append(dict(desc, events=[[str(y) for y in x] for x in ev]))
        try:
            eng.explore(entry, None, on_path, [])
        except Unsupported as u:
            # a scenario that meets an unmodelled operation is undecided (never a pass); the other scenarios are still decided
            undecided.append("%s: %s" % (json.dumps(desc), str(u)[:160]))
        except PanicFound as p:
            failures.append(dict(desc, problems=["panic reachable: %s" % p.msg]))
        for k in ("paths", "queries", "assert_obligations"):
            stats[k] += eng.stats[k]
        stats["solver_s"] += eng.stats["solver_s"]
        stats["functions"] |= eng.stats["functions"]

    try:
        for cond_shape in ("nsf", "true"):
            # loop conditions as the macros build them: @not_strictly_false(@result) for all / exists, the literal true for the others
            shape_now["cond"] = cond_shape
            for n in range(0, DEPTH + 1):
                cases = [None, ("range",), ("init",), ("result",)] + [("cond", k) for k in range(n)] + [("step", k) for k in range(n)]
                for c in cases:
                    scenario(n, c)
        # the receiver written as a list literal (`[a, b].map(..)`): same obligations, the elements are not this node's to evaluate
        shape_now["range"] = "list literal"
        for cond_shape in ("nsf", "true"):
            shape_now["cond"] = cond_shape
            for n in range(0, DEPTH + 1):
                for c in [None] + [("step", k) for k in range(n)]:
                    scenario(n, c)
        shape_now["range"] = "identifier"
        # the steps map / filter build (`@result + [e]`, `g ? @result + [e] : @result`): the step is evaluated as one sub-expression,
        # its parts (transform, guard) are the step's own children
        shape_now["cond"] = "true"
        for st in ("append", "guarded append"):
            shape_now["step"] = st
            for n in range(0, DEPTH + 1):
                for c in [None] + [("step", k) for k in range(n)]:
                    scenario(n, c)
        shape_now.pop("step", None)
        for rk in ("int", "null", "bool", "string"):
            scenario(0, None, rk)
    except Unsupported as u:
        status = 2
        print("INCONCLUSIVE: unsupported: %s" % u)
    if undecided:
        status = 2
        print("INCONCLUSIVE: %d scenarios undecided, e.g. unsupported: %s" % (len(undecided), undecided[0][:300]))
    if failures:  # a counterexample stands even if a later scenario met an unmodelled call (it is replayed natively anyway)
        status = 1
    out = {"functions_encoded": sorted(stats["functions"]), "scenarios": stats["scenarios"], "paths": stats["paths"], "paths_proved": stats["proved"],
           "queries": stats["queries"], "assert_obligations": stats["assert_obligations"], "solver_s": round(stats["solver_s"], 2),
           "wall_s": round(time.time() - t0, 2), "failures": failures[:10], "samples": samples}
    if outp:
        json.dump(out, open(outp, "w"), indent=1)
    for f in failures[:5]:
        print("COUNTEREXAMPLE " + json.dumps(f)[:900])
    print("mirsym comprehension_node: %d scenarios, %d paths, %d proved, %d failures, %.1fs wall" % (stats["scenarios"], stats["paths"], stats["proved"], len(failures), out["wall_s"]))
    return status


if __name__ == "__main__":
    sys.exit(main())
