#!/usr/bin/env python3
"""List and map literal nodes (C07: elements, keys and values are evaluated once, in source order;
C14: a map literal contains exactly the entries written) on the MIR of `Value::resolve`.

One `Expr::List` node with 0-3 abstract element expressions, or one `Expr::Map` node with 0-3
entries of abstract key / value expressions; each `Value::resolve(child, ctx)` is an event that
returns an error or a value (keys: int / uint / bool / string are usable, null is not).
`HashMap::insert` is an event on a modelled map.  Proved on every feasible path:
  * list: elements are evaluated once each, left to right, the first error aborts, the result is
    the list of their values in order;
  * map: for each entry in source order the key is evaluated, converted (an unusable key kind is
    UnsupportedKeyType and aborts before its value is evaluated), then its value; every pair is
    inserted in that order (so a later duplicate key overwrites), the first error aborts, the
    result is the map holding exactly what was inserted.

usage: literal_nodes.py <mir-file> <repo-root> [--json out.json]
"""
import itertools
import json
import os
import re
import sys
import time
sys.path.insert(0, os.path.dirname(os.path.abspath(__file__)))
# bound on the number of children / elements per node; the thorough tier of the driver raises it
DEPTH = int(os.environ.get("MIRSYM_DEPTH", "3"))
from mirsym import Engine, parse_mir, STD_MODELS, Unsupported, PanicFound, Ref, Opaque

EXPR_DISC = {"Expr::Unspecified": 0, "Expr::Call": 1, "Expr::Comprehension": 2, "Expr::Ident": 3, "Expr::List": 4,
             "Expr::Literal": 5, "Expr::Map": 6, "Expr::Select": 7, "Expr::Struct": 8}


def main():
    mir, repo = sys.argv[1], sys.argv[2]
    outp = sys.argv[sys.argv.index("--json") + 1] if "--json" in sys.argv else None
    t0 = time.time()
    fns, consts = parse_mir(open(mir).read())
    src = open(os.path.join(repo, "interpreter/src/objects.rs")).read()
    body = src[src.index("pub enum Value {"):]
    body = body[:body.index("\n}")]
    value_names = re.findall(r"^\s{4}([A-Z]\w*)[\(,\n {]", body, re.M)
    kb = src[src.index("pub enum Key {"):]
    kb = kb[:kb.index("\n}")]
    key_names = re.findall(r"^\s{4}([A-Z]\w*)[\(,\n {]", kb, re.M)
    cands = [f for n, f in fns.items() if n.endswith("::resolve") and n.startswith("objects")]
    if len(cands) != 1:
        print("INCONCLUSIVE: Value::resolve not found uniquely")
        return 2
    fn = cands[0]
    stats = {"scenarios": 0, "paths": 0, "proved": 0, "functions": set()}
    failures, samples = [], []
    status = 0
    cur = {}

    def deref(e, x):
        return e.read_path(x.frame, x.local, list(x.proj)) if isinstance(x, Ref) else x

    def m_resolve(e, m, a):
        h = deref(e, a[0])
        cur["events"].append(("resolve", h[1]))
        return cur["results"][h[1]]

    def m_try_branch(e, m, a):
        r = a[0]
        if r[1].endswith("Ok"):
            return ("enum", "ControlFlow::Continue", [r[2][0]])
        return ("enum", "ControlFlow::Break", [("enum", "Result::Err", [r[2][0]])])

    def m_map_insert(e, m, a):
        mp = deref(e, a[0])
        cur["events"].append(("insert", a[1], a[2]))
        mp[1].append((a[1], a[2]))
        return ("None",)

    def m_slice_iter(e, m, a):
        return ["iter", a[0], 0]

    def m_iter_next(e, m, a):
        it = deref(e, a[0])
        v = deref(e, it[1])
        items = v[1]
        if it[2] < len(items):
            k = it[2]
            it[2] += 1
            r = it[1]
            return ("Some", Ref(r.frame, r.local, list(r.proj) + [("field", 1), ("idx", k)]))
        return ("None",)

    def m_iter_map(e, m, a):
        return ["mapped", a[0], a[1], re.search(r"(\{closure@[^}]*\})", m.group(0)).group(1)]

    def m_collect_result_vec(e, m, a):
        it, clo, cty = a[0][1], a[0][2], a[0][3]
        out = []
        v = deref(e, it[1])
        while it[2] < len(v[1]):
            k = it[2]
            it[2] += 1
            r = it[1]
            elem = Ref(r.frame, r.local, list(r.proj) + [("field", 1), ("idx", k)])
            res = e.call_fn(e.closure_fn(cty), [Ref({0: clo}, 0, ()), elem])
            if res[1].endswith("Err"):
                return res
            out.append(res[2][0])
        return ("enum", "Result::Ok", [("vecv", out)])

    def m_map_err_ctor(e, m, a):
        r, ctor = a
        if r[1].endswith("Err"):
            return ("enum", "Result::Err", [("enum", ctor[1], [r[2][0]])])
        return r

    def m_vec_len(e, m, a):
        return len(deref(e, a[0])[1])

    def m_vec_push(e, m, a):
        deref(e, a[0])[1].append(a[1])
        return []

    def m_zip(e, m, a):
        l, r = a
        r = ["iter_owned", r, 0] if isinstance(r, tuple) and r[0] == "vecv" else r
        return ["zip", l, r]

    def next_of(e, it):
        if it[0] == "iter":
            v = deref(e, it[1])
            if it[2] < len(v[1]):
                k = it[2]
                it[2] += 1
                r = it[1]
                return ("Some", Ref(r.frame, r.local, list(r.proj) + [("field", 1), ("idx", k)]))
            return ("None",)
        if it[0] == "iter_owned":
            if it[2] < len(it[1][1]):
                it[2] += 1
                return ("Some", it[1][1][it[2] - 1])
            return ("None",)
        raise Unsupported("iterator %r" % (it[0],))

    def m_zip_next(e, m, a):
        z = deref(e, a[0])
        l = next_of(e, z[1])
        if l[0] == "None":
            return l
        r = next_of(e, z[2])
        if r[0] == "None":
            return r
        return ("Some", [l[1], r[1]])

    extern = [
        (r"^ExecutionError::function_error::<.*>$", lambda e, m, a: ("enum", "ExecutionError::FunctionError", [a[0], a[1]])),
        (r"^<std::string::String as Deref>::deref$", lambda e, m, a: ("str", deref(e, a[0])[1].encode())),
        (r"^Vec::<(?:Key|Value|IdedEntryExpr|Expression)>::len$", m_vec_len),
        (r"^Vec::<(?:Key|Value)>::(?:with_capacity|new)$", lambda e, m, a: ("vecv", [])),
        (r"^Vec::<(?:Key|Value)>::push$", m_vec_push),
        (r"^HashMap::<Key, Value>::(?:with_capacity|new)$", lambda e, m, a: ("mapv", [])),
        (r"^<std::slice::Iter<'_, IdedEntryExpr> as Iterator>::zip::<Vec<Key>>$", m_zip),
        (r"^<(?:std::iter::)?Zip<.*> as IntoIterator>::into_iter$", lambda e, m, a: a[0]),
        (r"^<(?:std::iter::)?Zip<.*> as Iterator>::next$", m_zip_next),
        (r"^Value::resolve$", m_resolve),
        (r"^<std::result::Result<.*> as Try>::branch$", m_try_branch),
        (r"^<std::result::Result<.*> as FromResidual<std::result::Result<Infallible, ExecutionError>>>::from_residual$", lambda e, m, a: ("enum", "Result::Err", [a[0][2][0]])),
        (r"^<HashMap<Key, Value> as Default>::default$", lambda e, m, a: ("mapv", [])),
        (r"^HashMap::<Key, Value>::insert$", m_map_insert),
        (r"^<Arc<HashMap<Key, Value>> as From<HashMap<Key, Value>>>::from$", lambda e, m, a: ("arc", a[0])),
        (r"^<Vec<IdedEntryExpr> as Deref>::deref$", lambda e, m, a: a[0]),
        (r"^<Vec<Expression> as Deref>::deref$", lambda e, m, a: a[0]),
        (r"^core::slice::<impl \[(?:IdedEntryExpr|Expression)\]>::iter$", m_slice_iter),
        (r"^<std::slice::Iter<'_, (?:IdedEntryExpr|Expression)> as IntoIterator>::into_iter$", lambda e, m, a: a[0]),
        (r"^<std::slice::Iter<'_, (?:IdedEntryExpr|Expression)> as Iterator>::next$", m_iter_next),
        (r"^<std::slice::Iter<'_, Expression> as Iterator>::map::<.*>$", m_iter_map),
        (r"^<std::iter::Map<std::slice::Iter<'_, Expression>, \{closure@.*\}> as Iterator>::collect::<std::result::Result<Vec<Value>, ExecutionError>>$", m_collect_result_vec),
        (r"^std::result::Result::<Key, Value>::map_err::<ExecutionError, fn\(Value\) -> ExecutionError \{ExecutionError::UnsupportedKeyType\}>$", m_map_err_ctor),
        (r"^<Vec<Value> as (?:std::convert::)?Into<Arc<Vec<Value>>>>::into$", lambda e, m, a: ("arc", a[0])),
        (r"^<Value as (?:std::convert::)?Into<std::result::Result<Value, ExecutionError>>>::into$", lambda e, m, a: ("enum", "Result::Ok", [a[0]])),
        (r"^<Value as TryInto<Key>>::try_into$", None),  # replaced below by the crate's own impl
    ] + STD_MODELS
    # the crate's TryInto<Key> for Value is in the dump: execute it
    try_into = [f for n, f in fns.items() if n.split("#")[0].endswith("::try_into") and n.startswith("objects")]
    if len(try_into) != 1:
        print("INCONCLUSIVE: <Value as TryInto<Key>>::try_into not found uniquely")
        return 2
    extern = [(p, (lambda e, m, a: e.call_fn(try_into[0], a)) if f is None else f) for p, f in extern]

    def engine():
        e = Engine(fns, consts, extern)
        e.discriminants = dict(EXPR_DISC)
        e.discriminants.update({"Value::" + n: k for k, n in enumerate(value_names)})
        e.discriminants.update({"Key::" + n: k for k, n in enumerate(key_names)})
        e.discriminants.update({"ControlFlow::Continue": 0, "ControlFlow::Break": 1, "Result::Ok": 0, "Result::Err": 1,
                                "EntryExpr::StructField": 0, "EntryExpr::MapEntry": 1})
        return e

    ok = lambda v: ("enum", "Result::Ok", [v])
    err = lambda w: ("enum", "Result::Err", [("abs_err", w)])
    key_vals = {"int": ("enum", "Value::Int", [5]), "uint": ("enum", "Value::UInt", [5]), "bool": ("enum", "Value::Bool", [True]),
                "string": ("enum", "Value::String", [("abs", "s")]), "null": ("enum", "Value::Null", [])}
    key_of = {"int": ("enum", "Key::Int", [5]), "uint": ("enum", "Key::Uint", [5]), "bool": ("enum", "Key::Bool", [True]),
              "string": ("enum", "Key::String", [("abs", "s")])}

    def run(desc, expr, results, want_events, want_result):
        stats["scenarios"] += 1
        eng = engine()
        pseudo = {0: expr}

        def entry(e):
            cur.clear()
            cur.update({"events": [], "results": results})
            return e.call_fn(fn, [Ref(pseudo, 0, ()), Opaque("ctx")])

        def on_path(res, e):
            probs = []
            if cur["events"] != want_events:
                probs.append("events %s, expected %s" % (cur["events"], want_events))
            if res != want_result:
                probs.append("result %r, expected %r" % (res, want_result))
            if probs:
                failures.append(dict(desc, problems=[p[:600] for p in probs]))
            else:
                stats["proved"] += 1
                if stats["scenarios"] % 40 == 0 and len(samples) < 8:
                    samples.append(dict(desc, events=[str(x) for x in cur["events"]]))
        try:
            eng.explore(entry, None, on_path, [])
        except PanicFound as p:
            failures.append(dict(desc, problems=["panic reachable: %s" % p.msg]))
        stats["paths"] += eng.stats["paths"]
        stats["functions"] |= eng.stats["functions"]

    try:
        # ---- list literals
        for n in range(0, DEPTH + 1):
            for bad in [None] + list(range(n)):
                results = {("e", j): (err(("e", j)) if bad == j else ok(("abs_val", "e%d" % j))) for j in range(n)}
                upto = n if bad is None else bad + 1
                want_events = [("resolve", ("e", j)) for j in range(upto)]
                want = results[("e", bad)] if bad is not None else ok(("enum", "Value::List", [("arc", ("vecv", [("abs_val", "e%d" % j) for j in range(n)]))]))
                expr = [1, ("enum", "Expr::List", [[("vec", [("operand", ("e", j)) for j in range(n)])]])]
                run({"node": "list", "elements": n, "failing": bad}, expr, results, want_events, want)
        # ---- message literals are not supported: an execution error, never a panic
        stats["scenarios"] += 1
        eng = engine()
        eng.steps = 0
        cur.clear()
        cur.update({"events": [], "results": {}})
        try:
            res = eng.call_fn(fn, [Ref({0: [3, ("enum", "Expr::Struct", [[("string", "T"), ("vec", [])]])]}, 0, ()), Opaque("ctx")])
            stats["paths"] += 1
            if isinstance(res, tuple) and res[1] == "Result::Err":
                stats["proved"] += 1
            else:
                failures.append({"node": "struct", "problems": ["a message literal is not an execution error: %r" % (res,)]})
        except PanicFound as p:
            failures.append({"node": "struct", "problems": ["panic reachable: %s" % p.msg]})
        # ---- map literals
        for n in range(0, DEPTH + 1):
            for kinds in itertools.product(["int", "uint", "bool", "string", "null"], repeat=n):
                for bad in [None] + [("k", j) for j in range(n)] + [("v", j) for j in range(n)]:
                    if n >= 2 and bad is not None and kinds.count("int") == 0 and len(set(kinds)) > 1 and kinds[0] != "int":
                        pass
                    results, want_events, final = {}, [], None
                    inserted = []
                    for j in range(n):
                        results[("k", j)] = err(("k", j)) if bad == ("k", j) else ok(key_vals[kinds[j]])
                        results[("v", j)] = err(("v", j)) if bad == ("v", j) else ok(("abs_val", "v%d" % j))
                    for j in range(n):
                        want_events.append(("resolve", ("k", j)))
                        if bad == ("k", j):
                            final = results[("k", j)]
                            break
                        if kinds[j] == "null":
                            final = ("enum", "Result::Err", [("enum", "ExecutionError::UnsupportedKeyType", [key_vals["null"]])])
                            break
                        want_events.append(("resolve", ("v", j)))
                        if bad == ("v", j):
                            final = results[("v", j)]
                            break
                        want_events.append(("insert", key_of[kinds[j]], ("abs_val", "v%d" % j)))
                        inserted.append((key_of[kinds[j]], ("abs_val", "v%d" % j)))
                    if final is None:
                        final = ok(("enum", "Value::Map", [[("arc", ("mapv", inserted))]]))
                    entries = [[10 + j, ("enum", "EntryExpr::MapEntry", [[("operand", ("k", j)), ("operand", ("v", j)), False]])] for j in range(n)]
                    expr = [2, ("enum", "Expr::Map", [[("vec", entries)]])]
                    run({"node": "map", "key_kinds": list(kinds), "failing": list(bad) if bad else None}, expr, results, want_events, final)
    except Unsupported as u:
        status = 2
        print("INCONCLUSIVE: unsupported: %s" % u)
    if failures:  # a counterexample stands even if a later scenario met an unmodelled call (it is replayed natively anyway)
        status = 1
    out = {"functions_encoded": sorted(stats["functions"]), "scenarios": stats["scenarios"], "paths": stats["paths"], "paths_proved": stats["proved"],
           "queries": 0, "solver_s": 0.0, "wall_s": round(time.time() - t0, 2), "failures": failures[:10], "samples": samples}
    if outp:
        json.dump(out, open(outp, "w"), indent=1)
    for f in failures[:4]:
        print("COUNTEREXAMPLE " + json.dumps(f)[:900])
    print("mirsym literal_nodes: %d scenarios, %d paths, %d proved, %d failures, %.1fs wall" % (stats["scenarios"], stats["paths"], stats["proved"], len(failures), out["wall_s"]))
    return status


if __name__ == "__main__":
    sys.exit(main())
