#!/usr/bin/env python3
"""C13 (string() half), decided on the MIR of interpreter/src/functions.rs: `string`.

`string(x)` is executed from its entry for a receiver of every value kind.  Payloads are symbolic:
int / uint as integers, double as an IEEE-754 z3 floating-point term, strings / bytes / timestamps /
durations abstract.  The std formatters are uninterpreted constructors (`<i64 as ToString>`,
`<u64 as ToString>`, `<f64 as ToString>` applied to a term), so the obligation is about which
formatter is applied to what:
  * string(int) / string(uint) / string(double) is the canonical std text of *the payload itself*
    on every feasible path - no cast, guard or special case in between (a text produced any other
    way could not be read back to the same number for every payload);
  * string(string) is the string, string(bytes) the lossy UTF-8 text of the bytes, string(timestamp)
    its RFC 3339 text, string(duration) `format_duration` of it (decided under C15);
  * every other kind is an error, never a panic.
When a path deviates, z3 is asked for payloads on that path from the regions where a wrong
formatter shows (|x| >= 2^63, |x| >= 2^53, -0.0, subnormals, the path's own model); the driver
replays them natively through string() and the inverse conversion and only a reproducing one
becomes a VIOLATION.

usage: conversions.py <interpreter-mir-file> <repo-root> [--json out.json]
"""
import json
import os
import re
import struct
import sys
import time
import z3
sys.path.insert(0, os.path.dirname(os.path.abspath(__file__)))
from mirsym import Engine, parse_mir, STD_MODELS, Unsupported, PanicFound, Ref, Opaque, is_sym


def enum_order(src, header, features=("chrono",)):
    body = src[src.index(header) + len(header):]
    body = body[:body.index("\n}")]
    names, skip = [], False
    for line in body.splitlines():
        line = line.strip()
        m = re.match(r'^#\[cfg\(feature = "(\w+)"\)\]', line)
        if m:
            skip = m.group(1) not in features
            continue
        m = re.match(r"^([A-Z]\w*)\b", line)
        if m and not line.startswith("//"):
            if not skip:
                names.append(m.group(1))
            skip = False
    return names


def main():
    mir, repo = sys.argv[1], sys.argv[2]
    outp = sys.argv[sys.argv.index("--json") + 1] if "--json" in sys.argv else None
    t0 = time.time()
    fns, consts = parse_mir(open(mir).read())
    value_names = enum_order(open(os.path.join(repo, "interpreter/src/objects.rs")).read(), "pub enum Value {")
    cands = [f for n, f in fns.items() if n.split("#")[0] in ("functions::string", "string") and len(f.args) == 2]
    if len(cands) != 1:
        print("INCONCLUSIVE: functions::string not found uniquely (%d)" % len(cands))
        return 2
    fn = cands[0]
    # format_duration is decided on its own (c15_format.py): here it is a constructor
    for k in [k for k in fns if k.split("#")[0].split("::")[-1] == "format_duration"]:
        del fns[k]
    stats = {"scenarios": 0, "paths": 0, "proved": 0, "queries": 0, "solver_s": 0.0, "functions": set()}
    failures, samples = [], []
    status = 0
    cur = {}
    F = z3.FP("f", z3.Float64())
    I, U = z3.Int("i"), z3.Int("u")

    def deref(e, x):
        k = 0
        while isinstance(x, Ref) and k < 4:
            x = e.read_path(x.frame, x.local, list(x.proj))
            k += 1
        return x

    def fp_fract(e, m, a):
        v = a[0]
        return z3.fpSub(z3.RNE(), v, z3.fpRoundToIntegral(z3.RTZ(), v))

    def fp_unary(name):
        def f(e, m, a):
            v = a[0]
            return {"trunc": lambda: z3.fpRoundToIntegral(z3.RTZ(), v), "floor": lambda: z3.fpRoundToIntegral(z3.RTN(), v),
                    "ceil": lambda: z3.fpRoundToIntegral(z3.RTP(), v), "round": lambda: z3.fpRoundToIntegral(z3.RNA(), v),
                    "abs": lambda: z3.fpAbs(v), "is_nan": lambda: z3.fpIsNaN(v), "is_infinite": lambda: z3.fpIsInf(v),
                    "is_finite": lambda: z3.Not(z3.Or(z3.fpIsNaN(v), z3.fpIsInf(v))), "is_sign_negative": lambda: z3.fpIsNegative(v),
                    "is_sign_positive": lambda: z3.fpIsPositive(v)}[name]()
        return f

    extern = [
        (r"^<(i64|u64|f64) as ToString>::to_string$", lambda e, m, a: ("display", m.group(1), deref(e, a[0]))),
        (r"^std::f64::<impl f64>::fract$", fp_fract),
        (r"^std::f64::<impl f64>::(trunc|floor|ceil|round|abs)$", lambda e, m, a: fp_unary(m.group(1))(e, m, a)),
        (r"^(?:core|std)::f64::<impl f64>::(is_nan|is_infinite|is_finite|is_sign_negative|is_sign_positive|abs)$", lambda e, m, a: fp_unary(m.group(1))(e, m, a)),
        (r"^<std::string::String as (?:std::convert::)?Into<Arc<std::string::String>>>::into$", lambda e, m, a: ("arc", a[0])),
        (r"^Arc::<std::string::String>::new$", lambda e, m, a: ("arc", a[0])),
        (r"^<Arc<std::string::String> as Clone>::clone$", lambda e, m, a: deref(e, a[0])),
        (r"^<Arc<Vec<u8>> as Deref>::deref$", lambda e, m, a: Ref({0: deref(e, a[0])[1]}, 0, ())),
        (r"^Vec::<u8>::as_slice$", lambda e, m, a: ("slice_of", deref(e, a[0]))),
        (r"^std::string::String::from_utf8_lossy$", lambda e, m, a: ("utf8_lossy", a[0])),
        (r"^<Cow<'_, str> as (?:std::convert::)?Into<std::string::String>>::into$", lambda e, m, a: ("owned", a[0])),
        (r"^DateTime::<FixedOffset>::to_rfc3339$", lambda e, m, a: ("rfc3339", deref(e, a[0]))),
        (r"^(?:duration::)?format_duration$", lambda e, m, a: ("format_duration", deref(e, a[0]))),
        (r"^FunctionContext::<'_>::error::<.*>$", lambda e, m, a: ("function_error",)),
        (r"^(?:functions::)?FunctionContext::<'_>::error::<.*>$", lambda e, m, a: ("function_error",)),
    ] + STD_MODELS

    def engine():
        e = Engine(fns, consts, extern)
        e.discriminants = {"Value::" + n: k for k, n in enumerate(value_names)}
        e.discriminants.update({"Result::Ok": 0, "Result::Err": 1})
        return e

    V = lambda kind, *payload: ("enum", "Value::" + kind, list(payload))

    def bits_of(fpval):
        s = fpval.sign_as_bv().as_long() if hasattr(fpval, "sign_as_bv") else 0
        return None

    def witnesses(e, sym, regions):
        out = []
        for name, cond in regions:
            if e.check(cond):
                mdl = e.solver.model()
                v = mdl.eval(sym, model_completion=True)
                if z3.is_fp(v):
                    # exact bit pattern of the model value
                    bv = mdl.eval(z3.fpToIEEEBV(sym), model_completion=True)
                    out.append({"region": name, "bits": bv.as_long()})
                else:
                    out.append({"region": name, "value": v.as_long()})
        return out

    def run(desc, value, want, sym=None, regions=()):
        stats["scenarios"] += 1
        eng = engine()

        def entry(e):
            return e.call_fn(fn, [Opaque("ftx"), [value]])

        def on_path(res, e):
            ok = want(res)
            if ok:
                stats["proved"] += 1
                if len(samples) < 12:
                    samples.append(dict(desc, result=str(res)[:120]))
            else:
                failures.append(dict(desc, problems=["string() of this kind is not the canonical text of its payload on this path: %s" % (str(res)[:240],)],
                                     witnesses=witnesses(e, sym, regions) if sym is not None else []))
        try:
            eng.explore(entry, None, on_path, [I >= -2 ** 63, I <= 2 ** 63 - 1, U >= 0, U <= 2 ** 64 - 1])
        except PanicFound as p:
            failures.append(dict(desc, problems=["panic reachable: %s" % p.msg], witnesses=[]))
        for k in ("paths", "queries"):
            stats[k] += eng.stats[k]
        stats["solver_s"] += eng.stats["solver_s"]
        stats["functions"] |= eng.stats["functions"]

    okstr = lambda inner: (lambda res: res == ("enum", "Result::Ok", [("enum", "Value::String", [("arc", inner)])]))
    fpv = lambda x: z3.FPVal(x, z3.Float64())
    try:
        run({"receiver": "Int"}, V("Int", I), okstr(("display", "i64", I)), I,
            [("any", True), ("minimum", I == -2 ** 63), ("maximum", I == 2 ** 63 - 1), ("beyond 2^53", I > 2 ** 53), ("negative", I < 0)])
        run({"receiver": "UInt"}, V("UInt", U), okstr(("display", "u64", U)), U,
            [("any", True), ("maximum", U == 2 ** 64 - 1), ("beyond i64", U > 2 ** 63 - 1), ("beyond 2^53", U > 2 ** 53)])
        run({"receiver": "Float"}, V("Float", F), okstr(("display", "f64", F)), F,
            [("any", True), ("at least 2^63", z3.fpGEQ(F, fpv(2.0 ** 63))), ("at most -2^63 - 1025", z3.fpLT(F, fpv(-2.0 ** 63))),
             ("negative zero", z3.And(z3.fpIsZero(F), z3.fpIsNegative(F))), ("beyond 2^53", z3.fpGT(F, fpv(2.0 ** 53))),
             ("huge", z3.fpGT(F, fpv(1e300))), ("fractional", z3.And(z3.fpGT(F, fpv(0.0)), z3.fpLT(F, fpv(1.0)))),
             ("NaN", z3.fpIsNaN(F)), ("infinite", z3.fpIsInf(F)), ("subnormal", z3.fpIsSubnormal(F))])
        s_arc = ("arc", ("abs_string", "s"))
        run({"receiver": "String"}, V("String", s_arc), lambda res: res == ("enum", "Result::Ok", [("enum", "Value::String", [s_arc])]))
        run({"receiver": "Bytes"}, V("Bytes", ("arc", ("abs_bytes", "b"))),
            okstr(("owned", ("utf8_lossy", ("slice_of", ("abs_bytes", "b"))))))
        run({"receiver": "Timestamp"}, V("Timestamp", ("abs_ts", "t")), okstr(("rfc3339", ("abs_ts", "t"))))
        run({"receiver": "Duration"}, V("Duration", ("abs_dur", "d")), okstr(("format_duration", ("abs_dur", "d"))))
        for kind, val in (("Bool", V("Bool", z3.Bool("b"))), ("Null", V("Null")), ("List", V("List", ("arc", ("vecv", [])))),
                          ("Map", V("Map", [("arc", ("abs_map", "m"))])), ("Function", V("Function", ("arc", ("abs_string", "f")), ("None",)))):
            run({"receiver": kind}, val, lambda res: isinstance(res, tuple) and res[1] == "Result::Err")
    except Unsupported as u:
        status = 2
        print("INCONCLUSIVE: unsupported: %s" % u)
        if os.environ.get("MIRSYM_TRACE"):
            import traceback
            traceback.print_exc()
    if failures:
        status = 1
    out = {"functions_encoded": sorted(stats["functions"]), "scenarios": stats["scenarios"], "paths": stats["paths"], "paths_proved": stats["proved"],
           "queries": stats["queries"], "solver_s": round(stats["solver_s"], 2), "wall_s": round(time.time() - t0, 2), "failures": failures[:12], "samples": samples}
    if outp:
        json.dump(out, open(outp, "w"), indent=1)
    for f in failures[:5]:
        print("COUNTEREXAMPLE " + json.dumps(f)[:700])
    print("mirsym conversions: %d scenarios, %d paths, %d proved, %d failures, %d queries, %.1fs solver, %.1fs wall" % (
        stats["scenarios"], stats["paths"], stats["proved"], len(failures), stats["queries"], stats["solver_s"], out["wall_s"]))
    return status


if __name__ == "__main__":
    sys.exit(main())
