#!/usr/bin/env python3
"""C15 (parse half), decided on the MIR of interpreter/src/functions.rs (`time::_duration`, the body of the
`duration()` built-in) and interpreter/src/duration.rs (parse_duration, parse_number_unit, parse_negative,
parse_unit, to_nanos / to_duration and their closures).

`_duration(text)` is executed from its entry on a text assembled from concrete punctuation (sign, '.', unit
letters, junk) and *symbolic decimal digits*.  The nom combinators the code is written with (opt, many1, alt,
map, preceded, tag, char, digit1, double) are modelled on that representation with nom 7's documented
behaviour (each model is listed in the evidence); everything written in the repository - term parsing, scaling,
summation, sign, range handling, the treatment of the unparsed remainder - is executed from the MIR.

Obligations, for every feasible path:
  well-formed texts  [-] (digits [. digits] unit)+  with units h m s ms us ns and the micro sign spelling that
      string() prints: if the call returns Ok(d) then d is the exact number of nanoseconds the text denotes
      (a part of a term below one nanosecond may be dropped: lower = sum of per-term floors, upper = sum of
      per-term ceilings); it may return an error only if the denoted count lies outside the signed 64-bit range;
  round trip: the shapes format_duration prints ([-]HhMmS[.F]s, N[.F]ms, N[.F]us-with-micro-sign, Nns) are
      among the well-formed texts, so together with the format half (string(d) reads back to d for every d)
      duration(string(d)) == d follows for every signed 64-bit d;
  malformed texts (trailing text, missing unit, doubled sign, exponent, inf / nan, spaces, empty): the call
      returns an error;
  no panic is reachable.
A bare "0" / "-0" (accepted by Go and pinned by the repository's tests) carries no obligation.

usage: duration_parse.py <interpreter-mir-file> <repo-root> [--json out.json] [--deep]
"""
import json
import os
import re
import sys
import time
import z3
sys.path.insert(0, os.path.dirname(os.path.abspath(__file__)))
from mirsym import Engine, parse_mir, STD_MODELS, Unsupported, PanicFound, Ref, Opaque, is_sym

MICRO = 0xB5
UNITS = {"ns": 1, "us": 1000, "µs": 1000, "ms": 10 ** 6, "s": 10 ** 9, "m": 60 * 10 ** 9, "h": 3600 * 10 ** 9}
I64 = (-2 ** 63, 2 ** 63 - 1)


def main():
    mir, repo = sys.argv[1], sys.argv[2]
    outp = sys.argv[sys.argv.index("--json") + 1] if "--json" in sys.argv else None
    deep = "--deep" in sys.argv
    only = sys.argv[sys.argv.index("--only") + 1] if "--only" in sys.argv else None
    shard = tuple(int(x) for x in sys.argv[sys.argv.index("--shard") + 1].split("/")) if "--shard" in sys.argv else (0, 1)
    seq = [0]
    t0 = time.time()
    fns, consts = parse_mir(open(mir).read())
    cands = [f for n, f in fns.items() if n.split("#")[0].split("::")[-1] == "_duration" and len(f.args) == 1]
    if len(cands) != 1:
        print("INCONCLUSIVE: functions::time::_duration not found uniquely (%d)" % len(cands))
        return 2
    entry_fn = cands[0]
    stats = {"scenarios": 0, "paths": 0, "proved": 0, "queries": 0, "solver_s": 0.0, "functions": set()}
    failures, samples, undecided = [], [], []
    status = 0
    models_used = set()

    def deref(e, x):
        k = 0
        while isinstance(x, Ref) and k < 4:
            x = e.read_path(x.frame, x.local, list(x.proj))
            k += 1
        return x

    # ------------------------------------------------------------ texts: ("text", [code points])
    def text_of(e, x):
        x = deref(e, x)
        if isinstance(x, tuple) and x and x[0] == "text":
            return list(x[1])
        if isinstance(x, tuple) and x and x[0] == "str":
            return [ord(c) for c in x[1].decode("utf-8")]
        raise Unsupported("text operation on %r" % (str(x)[:80],))

    T = lambda chars: ("text", list(chars))
    OK = lambda rest, out: ("enum", "Result::Ok", [[T(rest), out]])
    ERR = lambda kind, rest: ("enum", "Result::Err", [("enum", "Err::" + kind, [["nom_error", T(rest)]])])

    def is_ok(r):
        return r[1].endswith("Ok")

    def recoverable(r):
        return r[1].endswith("Err") and r[2][0][1].endswith("Error")

    def same(e, c, k):
        """does character c equal the concrete code point k (a decision when c is symbolic)"""
        return e.decide(c == k) if is_sym(c) else c == k

    def is_digit(e, c):
        return e.decide(z3.And(c >= 48, c <= 57)) if is_sym(c) else 48 <= c <= 57

    # ------------------------------------------------------------ nom 7 combinators
    def apply(e, p, inp):
        p = deref(e, p)
        kind = p[0]
        models_used.add("nom " + (kind[2:] if kind.startswith("p_") else kind))
        if kind == "fnitem":
            return e.call(p[1], [T(inp)])
        if kind == "p_char":
            if inp and same(e, inp[0], p[1]):
                return OK(inp[1:], ("char", chr(p[1])))
            return ERR("Error", inp)
        if kind == "p_tag":
            t = p[1]
            if len(inp) >= len(t) and all(same(e, c, k) for c, k in zip(inp, t)):
                return OK(inp[len(t):], T(t))
            return ERR("Error", inp)
        if kind == "p_digit1":
            n = 0
            while n < len(inp) and is_digit(e, inp[n]):
                n += 1
            return OK(inp[n:], T(inp[:n])) if n else ERR("Error", inp)
        if kind == "p_opt":
            r = apply(e, p[1], inp)
            if is_ok(r):
                return ("enum", "Result::Ok", [[r[2][0][0], ("Some", r[2][0][1])]])
            return OK(inp, ("None",)) if recoverable(r) else r
        if kind == "p_preceded":
            r = apply(e, p[1], inp)
            if not is_ok(r):
                return r
            return apply(e, p[2], text_of(e, r[2][0][0]))
        if kind == "p_map":
            r = apply(e, p[1], inp)
            if not is_ok(r):
                return r
            return ("enum", "Result::Ok", [[r[2][0][0], e.call_fn(e.closure_fn(p[3]), [Ref({0: p[2]}, 0, ()), r[2][0][1]])]])
        if kind == "p_alt":
            r = None
            for q in p[1]:
                r = apply(e, q, inp)
                if is_ok(r) or not recoverable(r):
                    return r
            return r
        if kind == "p_many1":
            r = apply(e, p[1], inp)
            if not is_ok(r):
                return r if not recoverable(r) else ERR("Error", inp)
            acc, cur = [r[2][0][1]], text_of(e, r[2][0][0])
            while True:
                r = apply(e, p[1], cur)
                if not is_ok(r):
                    if recoverable(r):
                        return OK(cur, ("vec", acc))
                    return r
                nxt = text_of(e, r[2][0][0])
                if len(nxt) == len(cur):
                    return ERR("Error", cur)
                acc.append(r[2][0][1])
                cur = nxt
        if kind == "p_double":
            return nom_double(e, inp)
        raise Unsupported("nom parser %r" % (kind,))

    def nom_double(e, inp):
        """nom::number::complete::double: [+-]? (inf | infinity | nan | digits [. digits?] | . digits) ([eE] [+-]? digits)?
        evaluated like str::parse::<f64> (correctly rounded).  Digits are symbolic; the value is the IEEE-754
        quotient M / 10^k of two exactly representable numbers, which is the correctly rounded value for
        M < 2^53 and k <= 22 (longer digit strings are outside this model: Unsupported)."""
        i, sign = 0, 1
        if i < len(inp) and not is_sym(inp[i]) and inp[i] in (43, 45):
            sign = -1 if inp[i] == 45 else 1
            i += 1
        low = lambda k: "".join(chr(c).lower() if not is_sym(c) and c < 128 else "?" for c in inp[i:i + k])
        for word, val in (("infinity", "inf"), ("inf", "inf"), ("nan", "nan")):
            if low(len(word)) == word:
                v = z3.fpNaN(z3.Float64()) if val == "nan" else (z3.fpMinusInfinity(z3.Float64()) if sign < 0 else z3.fpPlusInfinity(z3.Float64()))
                return OK(inp[i + len(word):], v)
        j = i
        digs = []
        while j < len(inp) and is_digit(e, inp[j]):
            digs.append(inp[j])
            j += 1
        frac = []
        if j < len(inp) and not is_sym(inp[j]) and inp[j] == 46:
            k = j + 1
            while k < len(inp) and is_digit(e, inp[k]):
                frac.append(inp[k])
                k += 1
            if digs or frac:
                j = k
        if not digs and not frac:
            return ERR("Error", inp)
        exp = 0
        if j < len(inp) and not is_sym(inp[j]) and inp[j] in (101, 69):
            k, es = j + 1, 1
            if k < len(inp) and not is_sym(inp[k]) and inp[k] in (43, 45):
                es = -1 if inp[k] == 45 else 1
                k += 1
            ed = []
            while k < len(inp) and is_digit(e, inp[k]):
                ed.append(inp[k])
                k += 1
            if ed:
                if any(is_sym(c) for c in ed):
                    raise Unsupported("symbolic exponent digits")
                exp = es * int("".join(chr(c) for c in ed))
                j = k
        if not any(is_sym(c) for c in inp[i:j]):
            # a fully concrete decimal text: Python's float() is the same correctly rounded conversion as str::parse::<f64>
            v = z3.FPVal(sign * float("".join(chr(c) for c in inp[i:j])), z3.Float64())
            return OK(inp[j:], v)
        mant = 0
        for c in digs + frac:
            mant = mant * 10 + (c - 48)
        scale = len(frac) - exp
        if len(digs) + len(frac) > 15 or abs(scale) > 22:
            raise Unsupported("decimal text beyond the exactly modelled float conversion")
        M = z3.fpSignedToFP(z3.RNE(), z3.Int2BV(mant if is_sym(mant) else z3.IntVal(mant), 64), z3.Float64())
        P = z3.FPVal(float(10 ** abs(scale)), z3.Float64())
        v = z3.fpDiv(z3.RNE(), M, P) if scale > 0 else z3.fpMul(z3.RNE(), M, P)
        if sign < 0:
            v = z3.fpNeg(v)
        return OK(inp[j:], v)

    def m_call_parser(e, m, a):
        return apply(e, a[0], text_of(e, a[1][0]))

    def m_bytes(e, m, a):
        out = []
        for c in text_of(e, a[0]):
            if is_sym(c) or c < 128:
                out.append(c)
            else:
                out.extend(chr(c).encode("utf-8"))
        return ["bytes_iter", out, None]

    def m_iter_next(e, m, a):
        it = deref(e, a[0])
        if not it[1] or it[2] == 0:
            return ("None",)
        if it[2] is not None:
            it[2] -= 1
        return ("Some", it[1].pop(0))

    def m_take(e, m, a):
        it = deref(e, a[0])
        return ["bytes_iter", it[1], a[1] if it[2] is None else min(it[2], a[1])]

    def m_checked(e, m, a):
        ty, op = m.group(1), m.group(2)
        lo, hi = {"i128": (-2 ** 127, 2 ** 127 - 1), "i64": I64, "u64": (0, 2 ** 64 - 1)}[ty]
        x, y = a
        v = {"add": lambda: x + y, "sub": lambda: x - y, "mul": lambda: x * y}[op]()
        inr = z3.And(v >= lo, v <= hi) if is_sym(v) else (lo <= v <= hi)
        return ("Some", v) if e.decide(inr) else ("None",)

    def m_try_from(e, m, a):
        lo, hi = I64
        v = a[0]
        inr = z3.And(v >= lo, v <= hi) if is_sym(v) else (lo <= v <= hi)
        return ("enum", "Result::Ok", [v]) if e.decide(inr) else ("enum", "Result::Err", [("unit",)])

    def m_try_fold(e, m, a):
        it, acc, clo = a
        it = deref(e, it)
        cty = re.search(r"(\{closure@[^}]*\})", m.group(0)).group(1)
        fn = e.closure_fn(cty)
        for x in list(it[1]):
            r = e.call_fn(fn, [Ref({0: clo}, 0, ()), acc, Ref({0: x}, 0, ())])
            if r[0] == "None":
                return ("None",)
            acc = r[1]
        return ("Some", acc)

    def m_fold(e, m, a):
        it, acc, clo = a
        it = deref(e, it)
        cty = re.search(r"(\{closure@[^}]*\})", m.group(0)).group(1)
        fn = e.closure_fn(cty)
        for x in list(it[1]):
            acc = e.call_fn(fn, [Ref({0: clo}, 0, ()), acc, Ref({0: x}, 0, ())])
        return acc

    def td_range_guard(e, v, what):
        # chrono's TimeDelta holds +-i64::MAX milliseconds; its operators panic beyond
        lim = (2 ** 63 - 1) * 10 ** 6
        inr = z3.And(v >= -lim, v <= lim) if is_sym(v) else (-lim <= v <= lim)
        if not e.decide(inr):
            e.violations.append({"kind": "panic", "message": "chrono: %s overflowed" % what, "function": what, "model": None})
            raise PanicFound("chrono: %s overflowed" % what, None)
        return ("td", v)

    def m_str_eq(e, m, a):
        x, y = text_of(e, a[0]), text_of(e, a[1])
        if len(x) != len(y):
            return False
        return all(same(e, c, k) if not is_sym(k) else same(e, k, c) for c, k in zip(x, y))

    extern = [
        (r"^(?:nom::combinator::)?opt::<.*>$", lambda e, m, a: ("p_opt", a[0])),
        (r"^(?:nom::multi::)?many1::<.*>$", lambda e, m, a: ("p_many1", a[0])),
        (r"^(?:nom::branch::)?alt::<.*>$", lambda e, m, a: ("p_alt", list(a[0]))),
        (r"^(?:nom::sequence::)?preceded::<.*>$", lambda e, m, a: ("p_preceded", a[0], a[1])),
        (r"^(?:nom::combinator::)?map::<.*>$", lambda e, m, a: ("p_map", a[0], a[1], re.findall(r"(\{closure@interpreter[^}]*\})", m.group(0))[-1])),
        (r"^(?:nom::bytes::complete::)?tag::<.*>$", lambda e, m, a: ("p_tag", text_of(e, a[0]))),
        (r"^(?:nom::character::complete::)?char::<.*>$", lambda e, m, a: ("p_char", ord(a[0][1]))),
        (r"^(?:nom::character::complete::)?digit1::<.*>$", lambda e, m, a: apply(e, ("p_digit1",), text_of(e, a[0]))),
        (r"^(?:nom::number::complete::)?double::<.*>$", lambda e, m, a: apply(e, ("p_double",), text_of(e, a[0]))),
        (r"^<\{closure@.*\} as Fn(?:Mut|Once)?<\(&str,\)>>::call(?:_mut|_once)?$", m_call_parser),
        (r"^<fn\(&str\).* as Fn(?:Mut|Once)?<\(&str,\)>>::call(?:_mut|_once)?$", m_call_parser),
        (r"^<std::result::Result<.*> as Try>::branch$", lambda e, m, a: ("enum", "ControlFlow::Continue", [a[0][2][0]]) if a[0][1].endswith("Ok") else ("enum", "ControlFlow::Break", [("enum", "Result::Err", [a[0][2][0]])])),
        (r"^<std::result::Result<.*> as FromResidual<std::result::Result<Infallible, .*>>>::from_residual$", lambda e, m, a: ("enum", "Result::Err", [a[0][2][0]])),
        (r"^<&str as PartialEq>::eq$", m_str_eq),
        (r"^<str as PartialEq>::eq$", m_str_eq),
        (r"^core::str::<impl str>::is_empty$", lambda e, m, a: len(text_of(e, a[0])) == 0),
        (r"^core::str::<impl str>::bytes$", m_bytes),
        (r"^<std::str::Bytes<'_> as IntoIterator>::into_iter$", lambda e, m, a: a[0]),
        (r"^<std::iter::Take<std::str::Bytes<'_>> as IntoIterator>::into_iter$", lambda e, m, a: a[0]),
        (r"^<std::str::Bytes<'_> as Iterator>::next$", m_iter_next),
        (r"^<std::iter::Take<std::str::Bytes<'_>> as Iterator>::next$", m_iter_next),
        (r"^<std::str::Bytes<'_> as Iterator>::take$", m_take),
        (r"^core::num::<impl (i128|i64|u64)>::checked_(add|sub|mul)$", m_checked),
        (r"^<i64 as TryFrom<i128>>::try_from$", m_try_from),
        (r"^<Vec<(?:i128|TimeDelta|chrono::TimeDelta)> as Deref>::deref$", lambda e, m, a: a[0]),
        (r"^core::slice::<impl \[(?:i128|TimeDelta|chrono::TimeDelta)\]>::iter$", lambda e, m, a: ["slice_iter", list(deref(e, a[0])[1])]),
        (r"^<std::slice::Iter<'_, i128> as Iterator>::try_fold::<.*>$", m_try_fold),
        (r"^<std::slice::Iter<'_, (?:TimeDelta|chrono::TimeDelta)> as Iterator>::fold::<.*>$", m_fold),
        (r"^nom::error::Error::<&str>::new$", lambda e, m, a: ["nom_error", a[0], a[1]]),
        (r"^(?:chrono::)?TimeDelta::zero$", lambda e, m, a: ("td", 0)),
        (r"^(?:chrono::)?TimeDelta::nanoseconds$", lambda e, m, a: ("td", a[0])),
        (r"^<(?:chrono::)?TimeDelta as Add>::add$", lambda e, m, a: td_range_guard(e, deref(e, a[0])[1] + deref(e, a[1])[1], "`TimeDelta + TimeDelta`")),
        (r"^<(?:chrono::)?TimeDelta as Mul<i32>>::mul$", lambda e, m, a: td_range_guard(e, deref(e, a[0])[1] * a[1], "`TimeDelta * i32`")),
        (r"^std::f64::<impl f64>::trunc$", lambda e, m, a: z3.fpRoundToIntegral(z3.RTZ(), a[0])),
        (r"^<nom::Err<nom::error::Error<&str>> as ToString>::to_string$", lambda e, m, a: ("string", "<nom error>")),
        (r"^ExecutionError::function_error::<.*>$", lambda e, m, a: ("enum", "ExecutionError::FunctionError", [])),
        (r"^std::option::Option::<&str>::unwrap_or$", lambda e, m, a: a[0][1] if a[0][0] == "Some" else a[1]),
    ] + STD_MODELS

    def engine():
        e = Engine(fns, consts, extern, max_steps=60000)
        e.solver.set("timeout", int(os.environ.get("MIRSYM_QUERY_TIMEOUT_MS", "30000")))
        e.unit_variants = {"TooLarge": ("enum", "ErrorKind::TooLarge", []), "Many1": ("enum", "ErrorKind::Many1", [])}
        for k, n in enumerate(["Nanosecond", "Microsecond", "Millisecond", "Second", "Minute", "Hour"]):
            for pre in ("Unit::", "duration::Unit::", "crate::duration::Unit::"):
                e.unit_variants[pre + n] = ("enum", "Unit::" + n, [])
        e.discriminants = {"Result::Ok": 0, "Result::Err": 1, "ControlFlow::Continue": 0, "ControlFlow::Break": 1,
                           "Unit::Nanosecond": 0, "Unit::Microsecond": 1, "Unit::Millisecond": 2, "Unit::Second": 3, "Unit::Minute": 4, "Unit::Hour": 5}
        return e

    # Unit variant order is read from the source and checked against the table above
    src = open(os.path.join(repo, "interpreter/src/duration.rs")).read()
    body = src[src.index("enum Unit {"):]
    order = re.findall(r"^\s+([A-Z]\w+),", body[:body.index("}")], re.M)
    if order != ["Nanosecond", "Microsecond", "Millisecond", "Second", "Minute", "Hour"]:
        print("INCONCLUSIVE: enum Unit changed: %s" % order)
        return 2

    counter = [0]

    def digits(n):
        out = []
        for _ in range(n):
            counter[0] += 1
            out.append(z3.Int("d%d" % counter[0]))
        return out

    def number(ds):
        v = 0
        for d in ds:
            v = v * 10 + (d - 48)
        return v

    def build(neg, terms, junk=""):
        """terms: list of (n_int_digits, n_frac_digits, unit) -> (chars, lower, upper, constraints, description)"""
        chars, cons, lower, upper, desc = [], [], 0, 0, ""
        if neg:
            chars.append(45)
            desc += "-"
        for ni, nf, unit in terms:
            di, df = digits(ni), digits(nf)
            for d in di + df:
                cons += [d >= 48, d <= 57]
            chars += di
            if nf:
                chars.append(46)
                chars += df
            chars += [ord(c) for c in unit]
            per = UNITS[unit]
            whole = number(di) * per
            if nf:
                fr = number(df) * per
                q = fr / (10 ** nf) if is_sym(fr) else fr // 10 ** nf
                r = fr % (10 ** nf)
                lower = lower + whole + q
                upper = upper + whole + q + (z3.If(r == 0, 0, 1) if is_sym(r) else int(r != 0))
            else:
                lower, upper = lower + whole, upper + whole
            desc += "D" * ni + ("." + "D" * nf if nf else "") + unit
        chars += [ord(c) for c in junk]
        desc += junk
        if neg:
            lower, upper = -upper, -lower
        return chars, lower, upper, cons, desc

    def run(desc, chars, cons, judge):
        if only and only not in desc["text"] and only not in desc["class"]:
            return
        seq[0] += 1
        if seq[0] % shard[1] != shard[0]:
            return
        stats["scenarios"] += 1
        eng = engine()

        def entry(e):
            return e.call_fn(entry_fn, [T(chars)])

        def on_path(res, e):
            prob = judge(res, e)
            if prob is None:
                stats["proved"] += 1
                if len(samples) < 14 and stats["scenarios"] % 7 == 1:
                    samples.append(dict(desc, result=str(res)[:100]))
            else:
                w = None
                if e.check():
                    mdl = e.solver.model()
                    w = "".join(chr(mdl.eval(c, model_completion=True).as_long()) if is_sym(c) else chr(c) for c in chars)
                failures.append(dict(desc, problems=[prob], witness=w))
        try:
            eng.explore(entry, None, on_path, cons)
        except PanicFound as p:
            failures.append(dict(desc, problems=["panic reachable: %s" % p.msg], witness="".join(chr(c) if not is_sym(c) else "5" for c in chars)))
        except Unsupported as u:
            # a scenario the encoding cannot decide is never a pass; counterexamples of other scenarios stand
            undecided.append(dict(desc, reason=str(u)[:200]))
        for k in ("paths", "queries"):
            stats[k] += eng.stats[k]
        stats["solver_s"] += eng.stats["solver_s"]
        stats["functions"] |= eng.stats["functions"]

    def judge_wellformed(lower, upper):
        def judge(res, e):
            if res[1].endswith("Ok"):
                v = res[2][0]
                if not (isinstance(v, tuple) and v[0] == "td"):
                    return "result is not a duration value: %s" % (str(v)[:80],)
                n = v[1]
                bad = z3.Or(n < lower, n > upper) if (is_sym(n) or is_sym(lower) or is_sym(upper)) else (n < lower or n > upper)
                if (bad is True) or (bad is not False and e.check(bad)):
                    return "accepted with a value that is not the nanosecond count the text denotes"
                return None
            inr = z3.And(lower >= I64[0], upper <= I64[1]) if (is_sym(lower) or is_sym(upper)) else (lower >= I64[0] and upper <= I64[1])
            if (inr is True) or (inr is not False and e.check(inr)):
                return "a well-formed text whose value fits 64-bit nanoseconds is rejected"
            return None
        return judge

    def judge_malformed(res, e):
        if res[1].endswith("Ok"):
            return "a text that is not a sequence of number-plus-unit terms is accepted"
        return None

    units = ["ns", "us", "µs", "ms", "s", "m", "h"]
    try:
        # --- single terms: every unit x digit shapes x sign
        shapes = [(1, 0), (3, 0), (1, 1), (2, 3), (1, 9), (7, 0), (16, 0), (19, 0)]
        if deep:
            shapes += [(2, 0), (10, 0), (12, 6), (1, 12), (20, 0), (24, 0), (3, 10), (18, 9)]
        for u in units:
            for ni, nf in shapes:
                for neg in (False, True):
                    chars, lo, hi, cons, d = build(neg, [(ni, nf, u)])
                    run({"class": "well-formed", "text": d}, chars, cons, judge_wellformed(lo, hi))
        # --- the shapes string() prints (round trip): h-m-s, m-s, s with fractions, sub-second units
        printed = [[(7, 0, "h"), (2, 0, "m"), (2, 9, "s")], [(1, 0, "h"), (1, 0, "m"), (1, 0, "s")], [(2, 0, "m"), (2, 3, "s")], [(1, 0, "m"), (1, 0, "s")],
                   [(2, 9, "s")], [(1, 1, "s")], [(3, 6, "ms")], [(3, 3, "µs")], [(3, 0, "ns")], [(3, 3, "us")], [(7, 0, "h"), (2, 0, "m"), (2, 0, "s")]]
        if deep:
            printed += [[(4, 0, "h"), (2, 0, "m"), (1, 5, "s")], [(1, 2, "ms")], [(2, 1, "µs")], [(6, 0, "h"), (1, 0, "m"), (2, 8, "s")]]
        for terms in printed:
            for neg in (False, True):
                chars, lo, hi, cons, d = build(neg, terms)
                run({"class": "printed shape", "text": d}, chars, cons, judge_wellformed(lo, hi))
        # --- several terms in any order, repeated units
        multi = [[(1, 0, "s"), (1, 0, "s")], [(2, 0, "ms"), (1, 0, "h")], [(1, 0, "m"), (1, 0, "ms"), (1, 0, "m")], [(1, 1, "h"), (1, 1, "m")], [(1, 0, "ns"), (1, 0, "us"), (1, 0, "ms")]]
        for terms in multi:
            for neg in (False, True):
                chars, lo, hi, cons, d = build(neg, terms)
                run({"class": "well-formed", "text": d}, chars, cons, judge_wellformed(lo, hi))
        # --- concrete texts: the 64-bit extremes as string() prints them, values that a binary floating-point
        #     scaling cannot represent (the solver folds these paths by evaluation)
        def denoted(text):
            neg, rest, lo, hi = text.startswith("-"), text.lstrip("-"), 0, 0
            for mi in re.finditer(r"(\d+)(?:\.(\d+))?(ns|us|µs|ms|s|m|h)", rest):
                per = UNITS[mi.group(3)]
                fr = int(mi.group(2) or "0") * per
                den = 10 ** len(mi.group(2) or "")
                lo += int(mi.group(1)) * per + fr // den
                hi += int(mi.group(1)) * per + fr // den + (1 if fr % den else 0)
            return (-hi, -lo) if neg else (lo, hi)
        concrete = ["2562047h47m16.854775807s", "-2562047h47m16.854775808s", "2562047h47m16.854775808s", "16.126614242s", "9007199254740993ns", "0.3s", "1.000000001s",
                    "33.180544260s", "1h0m0.000000001s", "9223372036854775807ns", "-9223372036854775808ns", "9223372036854775808ns", "2562048h", "0.000000001h", "1.5ns", "0.9ns0.9ns"]
        for t in concrete:
            lo, hi = denoted(t)
            run({"class": "concrete text", "text": t}, [ord(c) for c in t], [], judge_wellformed(lo, hi))
        # --- malformed
        mal = []
        for junk in ("x", " ", "1", "1.5", ".", "-", "+", "e", "S", "H", "µ", "s1", "1h30"):
            mal.append((False, [(1, 0, "s")], junk))
            mal.append((True, [(2, 0, "m"), (1, 1, "s")], junk))
        for neg, terms, junk in mal:
            chars, lo, hi, cons, d = build(neg, terms, junk)
            run({"class": "malformed: trailing text / missing unit", "text": d}, chars, cons, judge_malformed)
        raw = ["", "-", "s", "h", ".", "1", "15", "1.5", "-1", "--1s", "-+1s", "- 1s", " 1s", "1 s", "1e3s", "1E3s", "1e-3s", "1.5e1s", "infs", "-infs", "infinitys", "Infs",
               "nans", "NaNs", "1s ", "1.s1", "1..5s", "1.5.5s", "1hh", "1d", "1hm", "0x10s", "1_000s", "1,5s", "µs", "1µ", "1 µs"]
        for t in raw:
            run({"class": "malformed", "text": t if t else "<empty>"}, [ord(c) for c in t], [], judge_malformed)
    except Unsupported as u:
        status = 2
        print("INCONCLUSIVE: unsupported: %s" % u)
        if os.environ.get("MIRSYM_TRACE"):
            import traceback
            traceback.print_exc()
    if undecided:
        status = 2
        print("INCONCLUSIVE: %d scenarios undecided, e.g. %s" % (len(undecided), json.dumps(undecided[0], ensure_ascii=False)[:300]))
    if failures:
        status = 1
    out = {"undecided": undecided[:20], "n_undecided": len(undecided), "functions_encoded": sorted(stats["functions"]), "models": sorted(models_used), "scenarios": stats["scenarios"], "paths": stats["paths"],
           "paths_proved": stats["proved"], "queries": stats["queries"], "solver_s": round(stats["solver_s"], 2), "wall_s": round(time.time() - t0, 2),
           "failures": failures[:60], "n_failures": len(failures), "samples": samples}
    if outp:
        json.dump(out, open(outp, "w"), indent=1)
    for f in failures[:8]:
        print("COUNTEREXAMPLE " + json.dumps(f, ensure_ascii=False)[:400])
    print("mirsym duration_parse: %d scenarios, %d paths, %d proved, %d failures, %d queries, %.1fs solver, %.1fs wall" % (
        stats["scenarios"], stats["paths"], stats["proved"], len(failures), stats["queries"], stats["solver_s"], out["wall_s"]))
    return status


if __name__ == "__main__":
    sys.exit(main())
