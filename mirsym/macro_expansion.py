#!/usr/bin/env python3
"""Macro expansion (C10, expansion half) decided on the MIR of antlr/src/macros.rs.

Each expander (`all`, `exists`, `exists_one`, `map` with two and three arguments, `filter`,
`has`) is executed symbolically on an abstract receiver expression T, the iteration variable
`x` and abstract body / filter expressions P, F.  `MacroExprHelper::next_expr` is modelled as
"wrap the expression with a fresh id".  The tree that comes back must be, ids aside, exactly the
comprehension CEL defines for the macro:

  all        : init true,  cond @not_strictly_false(@result),  step @result && P,  result @result
  exists     : init false, cond @not_strictly_false(!@result), step @result || P,  result @result
  exists_one : init 0,     cond true, step P ? @result + 1 : @result,              result @result == 1
  map(x,P)   : init [],    cond true, step @result + [P],                          result @result
  map(x,F,P) : init [],    cond true, step F ? @result + [P] : @result,            result @result
  filter     : init [],    cond true, step P ? @result + [x] : @result,            result @result
  has(e.f)   : the select e.f with its `test` flag set

with iter_range = T (the receiver, untouched), iter_var = x, accu_var = @result; and a first
argument that is not a plain identifier is a ParseError, not a panic.  Together with the fold
loop (comprehension_node.py, C11) and the node semantics of `&&`, `||`, `?:`,
`@not_strictly_false`, `==` and int `+` (resolve_node.py and the Kani harnesses of C08/C09) this
composes to the defining folds of all / exists / exists_one; map and filter additionally rest on
list concatenation `@result + [e]`, which is outside every claim (C14).

usage: macro_expansion.py <parser-mir-file> <repo-root> [--json out.json]
"""
import json
import os
import re
import sys
import time
sys.path.insert(0, os.path.dirname(os.path.abspath(__file__)))
from mirsym import Engine, parse_mir, STD_MODELS, Unsupported, PanicFound, Ref, Opaque


class Stop(Exception):
    pass


def strip(x):
    """drop ids: IdedExpr values are [id, expr]"""
    if isinstance(x, list) and len(x) == 2 and isinstance(x[0], tuple) and x[0] and x[0][0] == "id":
        return ("ided", strip(x[1]))
    if isinstance(x, Ref):
        return strip(x.frame[x.local]) if not x.proj else ("ref?",)
    if isinstance(x, list):
        return [strip(y) for y in x]
    if isinstance(x, tuple):
        return tuple(strip(y) for y in x)
    return x


def main():
    mir, repo = sys.argv[1], sys.argv[2]
    outp = sys.argv[sys.argv.index("--json") + 1] if "--json" in sys.argv else None
    t0 = time.time()
    fns, consts = parse_mir(open(mir).read())
    ref_src = open(os.path.join(repo, "antlr/src/reference.rs")).read()
    vbody = ref_src[ref_src.index("pub enum Val {") + len("pub enum Val {"):]
    vbody = vbody[:vbody.index("\n}")]
    val_disc = {"Val::" + nme: k for k, nme in enumerate(re.findall(r"^\s*([A-Z]\w*)\b", vbody, re.M))}
    ops_src = open(os.path.join(repo, "antlr/src/ast/operators.rs")).read()
    ops = dict(re.findall(r"pub const (\w+): &str = \"([^\"]*)\";", ops_src))
    stats = {"scenarios": 0, "paths": 0, "proved": 0, "functions": set()}
    failures, samples = [], []
    status = 0
    counter = [0]

    def deref(e, x):
        return e.read_path(x.frame, x.local, list(x.proj)) if isinstance(x, Ref) else x

    def ided(expr):
        counter[0] += 1
        return [("id", counter[0]), expr]

    def m_next_expr(e, m, a):
        return ided(a[1])

    def m_vec_len(e, m, a):
        return len(deref(e, a[0])[1])

    def m_vec_remove(e, m, a):
        v = deref(e, a[0])
        if a[1] >= len(v[1]):
            e.violations.append({"kind": "panic", "message": "Vec::remove index out of bounds", "function": "expander", "model": None})
            raise PanicFound("Vec::remove", None)
        return v[1].pop(a[1])

    def m_vec_pop(e, m, a):
        v = deref(e, a[0])
        return ("Some", v[1].pop()) if v[1] else ("None",)

    def m_vec_push(e, m, a):
        deref(e, a[0])[1].append(a[1])
        return []

    def m_vec_insert(e, m, a):
        deref(e, a[0])[1].insert(a[1], a[2])
        return []

    def m_new_uninit(e, m, a):
        n = int(re.search(r"; (\d+)\]", m.group(0)).group(1))
        # MaybeUninit<[T; n]> { uninit: (), value: ManuallyDrop { MaybeDangling { [T; n] } } }
        hold = {0: [[], [[[None] * n]]]}
        return [[Ref(hold, 0, ())]]

    def m_assume_init_into_vec(e, m, a):
        inner = deref(e, a[0][0][0])
        return ("vec", list(inner[1][0][0]))

    def m_box_new(e, m, a):
        return [[Ref({0: a[0]}, 0, ())]]

    def m_opt_unwrap(e, m, a):
        if a[0][0] != "Some":
            e.violations.append({"kind": "panic", "message": "unwrap on None", "function": "expander", "model": None})
            raise PanicFound("unwrap on None", None)
        return a[0][1]

    def m_panic(e, m, a):
        e.violations.append({"kind": "panic", "message": "panic_fmt reached", "function": "expander", "model": None})
        raise PanicFound("panic_fmt", None)

    def ext_const(name):
        short = name.split("::")[-1]
        if "operators::" in name and short in ops:
            return ("str", ops[short].encode())
        return None

    def text_of(e, x):
        x = deref(e, x)
        while isinstance(x, Ref):
            x = deref(e, x)
        if isinstance(x, tuple) and x[0] == "string":
            return x[1]
        if isinstance(x, tuple) and x[0] == "str":
            return x[1].decode()
        raise Unsupported("text of %r" % (str(x)[:60],))

    def m_vec_index(e, m, a):
        v = deref(e, a[0])
        if a[1] >= len(v[1]):
            e.violations.append({"kind": "panic", "message": "index out of bounds", "function": "expander", "model": None})
            raise PanicFound("index out of bounds", None)
        return Ref({0: v[1][a[1]]}, 0, ())

    extern = [
        (r"^<String as Deref>::deref$", lambda e, m, a: ("string", text_of(e, a[0]))),
        (r"^String::as_str$", lambda e, m, a: ("string", text_of(e, a[0]))),
        (r"^<(?:&)?(?:String|str|&str) as PartialEq(?:<(?:&)?(?:String|str|&str|&&str)>)?>::(eq|ne)$", lambda e, m, a: (text_of(e, a[0]) == text_of(e, a[1])) == (m.group(1) == "eq")),
        (r"^<Vec<IdedExpr> as Index<usize>>::index$", m_vec_index),
        (r"^core::slice::<impl \[IdedExpr\]>::len$", m_vec_len),
        (r"^parser::MacroExprHelper::<'_>::next_expr$", m_next_expr),
        (r"^parser::MacroExprHelper::<'_>::pos_for$", lambda e, m, a: ("None",)),
        (r"^Option::<\(isize, isize\)>::unwrap_or_default$", lambda e, m, a: [0, 0]),
        (r"^Option::<.*>::(is_some|is_none)$", lambda e, m, a: (deref(e, a[0])[0] == "Some") == (m.group(1) == "is_some")),
        (r"^Option::<IdedExpr>::unwrap$", m_opt_unwrap),
        (r"^Vec::<IdedExpr>::len$", m_vec_len),
        (r"^Vec::<IdedExpr>::remove$", m_vec_remove),
        (r"^Vec::<IdedExpr>::pop$", m_vec_pop),
        (r"^Vec::<IdedExpr>::push$", m_vec_push),
        (r"^Vec::<IdedExpr>::insert$", m_vec_insert),
        (r"^Vec::<IdedExpr>::new$", lambda e, m, a: ("vec", [])),
        (r"^Box::<\[IdedExpr; \d+\]>::new_uninit$", m_new_uninit),
        (r"^std::boxed::box_assume_init_into_vec_unsafe::<IdedExpr, \d+>$", m_assume_init_into_vec),
        (r"^Box::<IdedExpr>::new$", m_box_new),
        (r"^<IdedExpr as Into<Box<IdedExpr>>>::into$", m_box_new),
        (r"^<Box<IdedExpr> as From<IdedExpr>>::from$", m_box_new),
        (r"^<String as Clone>::clone$", lambda e, m, a: deref(e, a[0])),
        (r"^<IdedExpr as Clone>::clone$", lambda e, m, a: deref(e, a[0])),
        (r"^<str as ToString>::to_string$", lambda e, m, a: ("string", a[0][1].decode())),
        (r"^<Result<.*> as Try>::branch$", lambda e, m, a: ("enum", "ControlFlow::Continue", [a[0][2][0]]) if a[0][1].endswith("Ok") else ("enum", "ControlFlow::Break", [("enum", "Result::Err", [a[0][2][0]])])),
        (r"^<Result<.*> as FromResidual<Result<Infallible, parser::ParseError>>>::from_residual$", lambda e, m, a: ("enum", "Result::Err", [a[0][2][0]])),
        (r"^Arguments::<'_>::(?:from_str|from_str_nonconst|new|new_const)(?:::<.*>)?$", lambda e, m, a: ("fmt_args",)),
        (r"^(?:core::panicking::)?panic_fmt$", m_panic),
    ] + STD_MODELS

    def engine():
        e = Engine(fns, consts, extern)
        e.discriminants = {"Expr::Unspecified": 0, "Expr::Call": 1, "Expr::Comprehension": 2, "Expr::Ident": 3, "Expr::List": 4,
                           "Expr::Literal": 5, "Expr::Map": 6, "Expr::Select": 7, "Expr::Struct": 8,
                           "ControlFlow::Continue": 0, "ControlFlow::Break": 1, "Result::Ok": 0, "Result::Err": 1}
        e.discriminants.update(val_disc)
        e.ext_const = ext_const
        e.steps = 0
        return e

    S = lambda t: ("string", t)
    I = lambda expr: ("ided", expr)
    ident = lambda n: I(("enum", "Expr::Ident", [S(n)]))
    call = lambda name, args: I(("enum", "Expr::Call", [[S(ops[name]), ("None",), ("vec", args)]]))
    lit_b = lambda b: I(("enum", "Expr::Literal", [("enum", "Val::Boolean", [b])]))
    lit_i = lambda k: I(("enum", "Expr::Literal", [("enum", "Val::Int", [k])]))
    lst = lambda items: I(("enum", "Expr::List", [[("vec", items)]]))
    X = ident("x")
    R = ident("@result")
    boxed = lambda x: [[x]]
    # receiver / body / filter take the shapes an expander could be tempted to look into
    SHAPES = {
        "abstract": lambda tag: I(("abs_expr", tag)),
        "identifier": lambda tag: ident("v_" + tag),
        "literal true": lambda tag: lit_b(True),
        "literal false": lambda tag: lit_b(False),
        "call": lambda tag: I(("enum", "Expr::Call", [[S("f_" + tag), ("None",), ("vec", [ident("a_" + tag)])]])),
        # bodies over the iteration variable itself, as users write them
        "loop variable": lambda tag: ident("x"),
        "x == literal": lambda tag: call("EQUALS", [ident("x"), lit_i(3)]),
        "x == other": lambda tag: call("EQUALS", [ident("x"), ident("c_" + tag)]),
        "literal == x": lambda tag: call("EQUALS", [lit_i(3), ident("x")]),
        "x > literal": lambda tag: call("GREATER", [ident("x"), lit_i(3)]),
        "x in other": lambda tag: call("IN", [ident("x"), ident("c_" + tag)]),
    }

    def expectations(T, P, F):
        def comp(init, cond, step, result):
            return I(("enum", "Expr::Comprehension", [[boxed(T), S("x"), ("None",), S("@result"), boxed(init), boxed(cond), boxed(step), boxed(result)]]))
        return {
            "all": ([X, P], comp(lit_b(True), call("NOT_STRICTLY_FALSE", [R]), call("LOGICAL_AND", [R, P]), R)),
            "exists": ([X, P], comp(lit_b(False), call("NOT_STRICTLY_FALSE", [call("LOGICAL_NOT", [R])]), call("LOGICAL_OR", [R, P]), R)),
            "exists_one": ([X, P], comp(lit_i(0), lit_b(True), call("CONDITIONAL", [P, call("ADD", [R, lit_i(1)]), R]), call("EQUALS", [R, lit_i(1)]))),
            "map": ([X, P], comp(lst([]), lit_b(True), call("ADD", [R, lst([P])]), R)),
            "map3": ([X, F, P], comp(lst([]), lit_b(True), call("CONDITIONAL", [F, call("ADD", [R, lst([P])]), R]), R)),
            "filter": ([X, P], comp(lst([]), lit_b(True), call("CONDITIONAL", [P, call("ADD", [R, lst([X])]), R]), R)),
        }

    def raw(x):
        """build engine-side values from the stripped notation"""
        if isinstance(x, tuple) and x and x[0] == "ided":
            return ided(raw(x[1]))
        if isinstance(x, list):
            return [raw(y) for y in x]
        if isinstance(x, tuple):
            return tuple(raw(y) for y in x)
        return x

    def unbox(x):
        """Box values come back as [[Ref]]: replace by [[value]] for comparison"""
        if isinstance(x, Ref):
            return unbox(x.frame[x.local])
        if isinstance(x, list):
            return [unbox(y) for y in x]
        if isinstance(x, tuple):
            return tuple(unbox(y) for y in x)
        return x

    try:
        combos = [(t, p_, f_) for t in ("identifier", "call") for p_ in ("identifier", "literal true", "literal false", "call")
                  for f_ in ("identifier", "literal true", "literal false")]
        combos += [("identifier", p_, "identifier") for p_ in ("loop variable", "x == literal", "x == other", "literal == x", "x > literal", "x in other")]
        combos += [("identifier", "identifier", f_) for f_ in ("x == literal", "x > literal", "loop variable")]
        for (ts, ps, fs) in combos:
          T, P, F = SHAPES[ts]("T"), SHAPES[ps]("P"), SHAPES[fs]("F")
          for name, (args, want) in expectations(T, P, F).items():
            if name != "map3" and fs not in (combos[0][2], "identifier"):
                continue   # the filter shape only matters for the three-argument map
            if name != "map3" and fs == "identifier" and ps in ("identifier", "literal true", "literal false", "call"):
                continue
            fname = {"map3": "map"}.get(name, name) + "_macro_expander"
            if fname not in fns:
                raise Unsupported("expander %s not found" % fname)
            for first_is_ident in (True, False):
                stats["scenarios"] += 1
                eng = engine()
                a = [raw(x) for x in args]
                if not first_is_ident:
                    a[0] = raw(lit_i(7))
                try:
                    res = eng.call_fn(fns[fname], [Ref({0: ("helper",)}, 0, ()), ("Some", raw(T)), ("vec", a)])
                except PanicFound as p:
                    failures.append({"macro": name, "shapes": [ts, ps, fs], "first_argument_is_identifier": first_is_ident, "problems": ["panic reachable: %s" % p.msg]})
                    continue
                stats["paths"] += 1
                got = strip(unbox(res))
                if first_is_ident:
                    good = got == ("enum", "Result::Ok", [want])
                else:
                    good = isinstance(got, tuple) and got[1] == "Result::Err"
                if good:
                    stats["proved"] += 1
                    if first_is_ident and len(samples) < 6:
                        samples.append({"macro": name, "expansion": json.dumps(got)[:400]})
                else:
                    failures.append({"macro": name, "shapes": [ts, ps, fs], "first_argument_is_identifier": first_is_ident,
                                     "problems": ["expansion differs from the defining comprehension"], "got": json.dumps(got)[:900], "want": json.dumps(want)[:900]})
                stats["functions"] |= eng.stats["functions"]
        # has(e.f)
        # ---- macro lookup: which call shapes are macros at all (name, arity, receiver presence)
        from mirsym import SliceRef
        fx = [f for n_, f in fns.items() if n_.split("#")[0].split("::")[-1] == "find_expander"]
        if len(fx) != 1:
            raise Unsupported("find_expander not found uniquely")
        table = {("has", 1, False): "has_macro_expander", ("exists", 2, True): "exists_macro_expander", ("all", 2, True): "all_macro_expander",
                 ("exists_one", 2, True): "exists_one_macro_expander", ("existsOne", 2, True): "exists_one_macro_expander",
                 ("map", 2, True): "map_macro_expander", ("map", 3, True): "map_macro_expander", ("filter", 2, True): "filter_macro_expander"}
        for fname in ("has", "exists", "all", "exists_one", "existsOne", "map", "filter", "size", "f", "Has", "hass", ""):
            for nargs in range(0, 5):
                for has_target in (False, True):
                    stats["scenarios"] += 1
                    eng = engine()
                    hold = {0: [("abs_expr", "arg%d" % j) for j in range(nargs)]}
                    tgt = ("Some", Ref({0: ("abs_expr", "receiver")}, 0, ())) if has_target else ("None",)
                    try:
                        res = eng.call_fn(fx[0], [("str", fname.encode()), tgt, SliceRef(Ref(hold, 0, ()), 0, nargs)])
                    except PanicFound as p:
                        failures.append({"macro": "lookup", "name": fname, "args": nargs, "receiver": has_target, "problems": ["panic reachable: %s" % p.msg]})
                        continue
                    stats["paths"] += 1
                    want = table.get((fname, nargs, has_target))
                    got = None
                    if isinstance(res, tuple) and res[0] == "Some":
                        got = str(res[1][1] if isinstance(res[1], tuple) else res[1]).split("::")[-1]
                    if got == want:
                        stats["proved"] += 1
                    else:
                        failures.append({"macro": "lookup", "name": fname, "args": nargs, "receiver": has_target,
                                         "problems": ["the call %s%s(%d arguments) is looked up as %s, the macro table says %s" % ("x." if has_target else "", fname, nargs, got, want)]})
                    stats["functions"] |= eng.stats["functions"]
        for shape in ("select", "ident"):
            stats["scenarios"] += 1
            eng = engine()
            inner = raw(I(("abs_expr", "E")))
            arg = ided(("enum", "Expr::Select", [[[[Ref({0: inner}, 0, ())]], S("f"), False]])) if shape == "select" else raw(ident("y"))
            try:
                res = eng.call_fn(fns["has_macro_expander"], [Ref({0: ("helper",)}, 0, ()), ("None",), ("vec", [arg])])
            except PanicFound as p:
                failures.append({"macro": "has", "argument": shape, "problems": ["panic reachable: %s" % p.msg]})
                continue
            stats["paths"] += 1
            got = strip(unbox(res))
            if shape == "select":
                want = ("enum", "Result::Ok", [I(("enum", "Expr::Select", [[[[I(("abs_expr", "E"))]], S("f"), True]]))])
                good = got == want
            else:
                good = got[1] == "Result::Err"
            if good:
                stats["proved"] += 1
            else:
                failures.append({"macro": "has", "argument": shape, "problems": ["has() expansion is not the select with test=true / an error"], "got": json.dumps(got)[:600]})
            stats["functions"] |= eng.stats["functions"]
    except Unsupported as u:
        status = 2
        print("INCONCLUSIVE: unsupported: %s" % u)
    if failures:  # a counterexample stands even if a later scenario met an unmodelled call (it is replayed natively anyway)
        status = 1
    out = {"functions_encoded": sorted(stats["functions"]), "scenarios": stats["scenarios"], "paths": stats["paths"], "paths_proved": stats["proved"],
           "queries": 0, "solver_s": 0.0, "wall_s": round(time.time() - t0, 2), "failures": failures[:10], "samples": samples}
    if outp:
        json.dump(out, open(outp, "w"), indent=1)
    for f in failures[:4]:
        print("COUNTEREXAMPLE " + json.dumps(f)[:1200])
    print("mirsym macro_expansion: %d scenarios, %d executions, %d proved, %d failures, %.1fs wall" % (stats["scenarios"], stats["paths"], stats["proved"], len(failures), out["wall_s"]))
    return status


if __name__ == "__main__":
    sys.exit(main())
