#!/usr/bin/env python3
"""C14 (concatenation half), decided on the MIR of `<Value as Add>::add` (interpreter/src/objects.rs).

`l + r` for two lists (0-3 abstract elements each) and for two strings (abstract chunks) is
executed from the entry of the operator implementation.  The reference counts of the two
`Arc`s are symbolic integers (>= 1; >= 2 when both operands are the same allocation), so the
solver decides which of the in-place / copy paths are feasible (`Arc::make_mut`,
`Arc::get_mut`, `Arc::strong_count` are modelled on a small heap of cells).  Proved per path:
  * the result is `Ok(List)` / `Ok(String)` whose contents are the left operand's elements
    followed by the right operand's, in order (hence size is additive);
  * every allocation that somebody else still holds (initial count minus the operand handles
    > 0) has exactly its original contents afterwards: the operands are left intact;
  * no panic is reachable.

usage: value_concat.py <interpreter-mir-file> <repo-root> [--json out.json]
"""
import json
import os
import re
import sys
import time
import z3
sys.path.insert(0, os.path.dirname(os.path.abspath(__file__)))
# bound on the number of children / elements per node; the thorough tier of the driver raises it
DEPTH = int(os.environ.get("MIRSYM_DEPTH", "3"))
from mirsym import Engine, parse_mir, STD_MODELS, Unsupported, PanicFound, Ref, Opaque, is_sym


def enum_order(src, header):
    body = src[src.index(header) + len(header):]
    body = body[:body.index("\n}")]
    names = []
    for line in body.splitlines():
        line = line.strip()
        m = re.match(r"^([A-Z]\w*)\b", line)
        if m and not line.startswith("//"):
            names.append(m.group(1))
    return names


def main():
    mir, repo = sys.argv[1], sys.argv[2]
    outp = sys.argv[sys.argv.index("--json") + 1] if "--json" in sys.argv else None
    t0 = time.time()
    fns, consts = parse_mir(open(mir).read())
    objects_src = open(os.path.join(repo, "interpreter/src/objects.rs")).read()
    value_names = enum_order(objects_src, "pub enum Value {")
    cands = [f for n, f in fns.items() if re.match(r"^objects::<impl at [^>]*>::add(#\d+)?$", n) and f.args and f.args[0].endswith(": Value")]
    if len(cands) != 1:
        print("INCONCLUSIVE: <Value as Add>::add not found uniquely (%d)" % len(cands))
        return 2
    fn = cands[0]
    stats = {"scenarios": 0, "paths": 0, "proved": 0, "queries": 0, "solver_s": 0.0, "functions": set()}
    failures, samples = [], []
    status = 0
    cur = {}

    def deref(e, x):
        return e.read_path(x.frame, x.local, list(x.proj)) if isinstance(x, Ref) else x

    # ---- a heap of cells: cur["heap"][cid] is the (mutable) content list, cur["strong"][cid] the reference count
    def new_cell(items, strong):
        cid = len(cur["heap"])
        cur["heap"][cid] = list(items)
        cur["strong"][cid] = strong
        return cid

    def cell_ref(cid):
        return Ref(cur["heap"], cid, ())

    def m_make_mut(e, m, a):
        arc = deref(e, a[0])
        cid = arc[1]
        if e.decide(cur["strong"][cid] == 1):
            return cell_ref(cid)
        new = new_cell(cur["heap"][cid], 1)
        cur["strong"][cid] = cur["strong"][cid] - 1
        e.write_path(a[0].frame, a[0].local, list(a[0].proj), ("arcp", new))
        return cell_ref(new)

    def m_get_mut(e, m, a):
        arc = deref(e, a[0])
        cid = arc[1]
        if e.decide(cur["strong"][cid] == 1):
            return ("Some", cell_ref(cid))
        return ("None",)

    def m_strong_count(e, m, a):
        return cur["strong"][deref(e, a[0])[1]]

    def m_arc_deref(e, m, a):
        return cell_ref(deref(e, a[0])[1])

    def m_arc_clone(e, m, a):
        arc = deref(e, a[0])
        cur["strong"][arc[1]] = cur["strong"][arc[1]] + 1
        return arc

    def m_arc_new(e, m, a):
        v = a[0]
        if isinstance(v, tuple) and v[0] == "vecp":
            cur["strong"][v[1]] = 1
            return ("arcp", v[1])
        raise Unsupported("Arc::new of %r" % (v,))

    def items_of(e, x):
        x = deref(e, x)
        if isinstance(x, tuple) and x[0] in ("vecp", "arcp"):
            return cur["heap"][x[1]]
        if isinstance(x, tuple) and x[0] in ("iter", "strchunks"):
            return x[1]
        if isinstance(x, list):
            return x
        raise Unsupported("contents of %r" % (x,))

    def m_vec_append(e, m, a):
        l, r = items_of(e, a[0]), items_of(e, a[1])
        moved = list(r)
        del r[:]
        l.extend(moved)
        return ("unit",)

    def m_vec_extend(e, m, a):
        l = items_of(e, a[0])
        l.extend(list(items_of(e, a[1])))
        return ("unit",)

    def m_slice_iter(e, m, a):
        return ("iter", list(items_of(e, a[0])))

    def m_len(e, m, a):
        return len(items_of(e, a[0]))

    def m_rotate(e, m, a):
        l, k = items_of(e, a[0]), a[1]
        if is_sym(k):
            raise Unsupported("rotation by a symbolic amount")
        if k > len(l):
            raise PanicFound("rotate: mid > len", None)
        if l:
            k = k % len(l) if len(l) else 0
            rot = (l[k:] + l[:k]) if m.group(1) == "left" else (l[len(l) - k:] + l[:len(l) - k])
            l[:] = rot
        return ("unit",)

    def m_vec_new(e, m, a):
        return ("vecp", new_cell([], 0))

    def m_vec_push(e, m, a):
        items_of(e, a[0]).append(a[1])
        return ("unit",)

    def m_vec_insert(e, m, a):
        l, k = items_of(e, a[0]), a[1]
        if is_sym(k):
            raise Unsupported("insert at a symbolic position")
        if k > len(l):
            raise PanicFound("insert: index > len", None)
        l.insert(k, a[2])
        return ("unit",)

    def m_vec_clone(e, m, a):
        return ("vecp", new_cell(items_of(e, a[0]), 0))

    def m_reverse(e, m, a):
        items_of(e, a[0]).reverse()
        return ("unit",)

    def m_vec_truncate(e, m, a):
        l, k = items_of(e, a[0]), a[1]
        if is_sym(k):
            raise Unsupported("truncate to a symbolic length")
        del l[k:]
        return ("unit",)

    def m_identity_ref(e, m, a):
        return a[0]

    def m_str_chunks(e, m, a):
        return ("strchunks", list(items_of(e, a[0])))

    def m_value_clone(e, m, a):
        return deref(e, a[0])

    T = r"(?:Value|objects::Value)"
    extern = [
        (r"^Arc::<(?:Vec<Value>|std::string::String)>::make_mut$", m_make_mut),
        (r"^Arc::<(?:Vec<Value>|std::string::String)>::get_mut$", m_get_mut),
        (r"^Arc::<(?:Vec<Value>|std::string::String)>::strong_count$", m_strong_count),
        (r"^<Arc<(?:Vec<Value>|std::string::String)> as Deref>::deref$", m_arc_deref),
        (r"^<Arc<(?:Vec<Value>|std::string::String)> as Clone>::clone$", m_arc_clone),
        (r"^Arc::<(?:Vec<Value>|std::string::String)>::new$", m_arc_new),
        (r"^<Vec<Value> as (?:std::convert::)?Into<Arc<Vec<Value>>>>::into$", m_arc_new),
        (r"^<Arc<Vec<Value>> as From<Vec<Value>>>::from$", m_arc_new),
        (r"^<std::string::String as (?:std::convert::)?Into<Arc<std::string::String>>>::into$", m_arc_new),
        (r"^<Vec<Value> as Deref(?:Mut)?>::deref(?:_mut)?$", m_identity_ref),
        (r"^Vec::<Value>::as_(?:mut_)?slice$", m_identity_ref),
        (r"^Vec::<Value>::append$", m_vec_append),
        (r"^<Vec<Value> as Extend<Value>>::extend::<.*>$", m_vec_extend),
        (r"^Vec::<Value>::extend_from_slice$", m_vec_extend),
        (r"^core::slice::<impl \[Value\]>::iter$", m_slice_iter),
        (r"^<std::slice::Iter<'_, Value> as Iterator>::cloned::<'_, Value>$", lambda e, m, a: a[0]),
        (r"^<std::slice::Iter<'_, Value> as Iterator>::rev$", lambda e, m, a: ("iter", list(reversed(a[0][1])))),
        (r"^(?:Vec::<Value>|core::slice::<impl \[Value\]>|std::string::String|core::str::<impl str>)::len$", m_len),
        (r"^(?:Vec::<Value>|core::slice::<impl \[Value\]>|std::string::String|core::str::<impl str>)::is_empty$", lambda e, m, a: len(items_of(e, a[0])) == 0),
        (r"^core::slice::<impl \[Value\]>::rotate_(left|right)$", m_rotate),
        (r"^core::slice::<impl \[Value\]>::reverse$", m_reverse),
        (r"^Vec::<Value>::(?:new|with_capacity)$", m_vec_new),
        (r"^std::string::String::(?:new|with_capacity)$", m_vec_new),
        (r"^Vec::<Value>::push$", m_vec_push),
        (r"^Vec::<Value>::insert$", m_vec_insert),
        (r"^Vec::<Value>::truncate$", m_vec_truncate),
        (r"^Vec::<Value>::reserve$", lambda e, m, a: ("unit",)),
        (r"^std::string::String::reserve$", lambda e, m, a: ("unit",)),
        (r"^<Vec<Value> as Clone>::clone$", m_vec_clone),
        (r"^<std::string::String as Clone>::clone$", m_vec_clone),
        (r"^<Value as Clone>::clone$", m_value_clone),
        (r"^<std::string::String as Deref>::deref$", m_str_chunks),
        (r"^std::string::String::as_str$", m_str_chunks),
        (r"^std::string::String::push_str$", m_vec_extend),
        (r"^std::string::String::insert_str$", lambda e, m, a: m_vec_insert_many(e, a)),
    ] + STD_MODELS

    def m_vec_insert_many(e, a):
        l, k = items_of(e, a[0]), a[1]
        if is_sym(k):
            raise Unsupported("insert at a symbolic position")
        if k > len(l):
            raise PanicFound("insert_str: index > len", None)
        l[k:k] = list(items_of(e, a[2]))
        return ("unit",)

    def run(kind, nl, nr, alias):
        """kind: 'list' | 'string'; alias: both operands are handles of one allocation (`x + x`)"""
        stats["scenarios"] += 1
        desc = {"kind": kind, "left_len": nl, "right_len": nr, "same_allocation": alias}
        eng = Engine(fns, consts, extern)
        eng.discriminants = {"Value::" + n: k for k, n in enumerate(value_names)}
        eng.discriminants.update({"Result::Ok": 0, "Result::Err": 1})
        sl, sr = z3.Int("strong_l"), z3.Int("strong_r")
        var = "Value::List" if kind == "list" else "Value::String"
        el = (lambda side, j: ("abs_val", "%s%d" % (side, j))) if kind == "list" else (lambda side, j: ("chunk", "%s%d" % (side, j)))
        litems = [el("l", j) for j in range(nl)]
        ritems = litems if alias else [el("r", j) for j in range(nr)]

        def entry(e):
            cur.clear()
            cur.update({"heap": {}, "strong": {}})
            cl = new_cell(litems, sl)
            cr = cl if alias else new_cell(ritems, sr)
            cur["cells"] = (cl, cr)
            return e.call_fn(fn, [("enum", var, [("arcp", cl)]), ("enum", var, [("arcp", cr)])])

        def on_path(res, e):
            probs = []
            cl, cr = cur["cells"]
            want = litems + ritems
            if not (isinstance(res, tuple) and res[1] == "Result::Ok" and res[2][0][1] == var and res[2][0][2][0][0] == "arcp"):
                probs.append("the result is not Ok(%s): %r" % (var, str(res)[:200]))
            else:
                got = cur["heap"][res[2][0][2][0][1]]
                if got != want:
                    probs.append("contents %s, expected the left operand's elements followed by the right's: %s" % ([x[1] for x in got], [x[1] for x in want]))
            # whoever else holds an operand's allocation must still see its original contents
            holders = {cl: 2 if alias else 1}
            if not alias:
                holders[cr] = 1
            shared_model = {}
            for cid, orig, s0 in ((cl, litems, sl), (cr, ritems, sl if alias else sr)):
                others_exist = e.check(s0 > holders[cid])
                if others_exist and cur["heap"][cid] != orig:
                    mdl = e.solver.model()
                    shared_model = {"strong_l": mdl.eval(sl, model_completion=True).as_long(), "strong_r": mdl.eval(sr, model_completion=True).as_long()}
                    probs.append("an operand that is still referenced elsewhere was modified: %s -> %s" % ([x[1] for x in orig], [x[1] for x in cur["heap"][cid]]))
            if probs:
                if not shared_model and e.check():
                    mdl = e.solver.model()
                    shared_model = {"strong_l": mdl.eval(sl, model_completion=True).as_long(), "strong_r": mdl.eval(sr, model_completion=True).as_long()}
                failures.append(dict(desc, problems=probs, model=shared_model))
            else:
                stats["proved"] += 1
                if len(samples) < 12 and stats["scenarios"] % 3 == 0:
                    samples.append(dict(desc, result_len=len(want)))
        base = [sl >= (2 if alias else 1), sr >= 1, sl <= 4, sr <= 4]
        try:
            eng.explore(entry, None, on_path, base)
        except PanicFound as p:
            failures.append(dict(desc, problems=["panic reachable: %s" % p.msg], model={}))
        for k in ("paths", "queries"):
            stats[k] += eng.stats[k]
        stats["solver_s"] += eng.stats["solver_s"]
        stats["functions"] |= eng.stats["functions"]

    try:
        for kind in ("list", "string"):
            for nl in range(0, DEPTH + 1):
                for nr in range(0, DEPTH + 1):
                    run(kind, nl, nr, False)
                run(kind, nl, nl, True)
    except Unsupported as u:
        status = 2
        print("INCONCLUSIVE: unsupported: %s" % u)
    if failures:  # a counterexample stands even if a later scenario met an unmodelled call (it is replayed natively anyway)
        status = 1
    out = {"functions_encoded": sorted(stats["functions"]), "scenarios": stats["scenarios"], "paths": stats["paths"], "paths_proved": stats["proved"],
           "queries": stats["queries"], "solver_s": round(stats["solver_s"], 2), "wall_s": round(time.time() - t0, 2), "failures": failures[:12], "samples": samples}
    if outp:
        json.dump(out, open(outp, "w"), indent=1)
    for f in failures[:4]:
        print("COUNTEREXAMPLE " + json.dumps(f)[:700])
    print("mirsym value_concat: %d scenarios, %d paths, %d proved, %d failures, %d queries, %.1fs solver, %.1fs wall" % (
        stats["scenarios"], stats["paths"], stats["proved"], len(failures), stats["queries"], stats["solver_s"], out["wall_s"]))
    return status


if __name__ == "__main__":
    sys.exit(main())
