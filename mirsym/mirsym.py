#!/usr/bin/env python3
"""mirsym - a small symbolic executor for rustc MIR (text form, -Zunpretty=mir) over z3.

Scope: the integer / bool / fixed-array / reference subset that the formatting kernels of
cel-interpreter use (see DESIGN.md section 9).  Integers are mathematical integers constrained to
their machine range; the MIR is produced with -C overflow-checks=on, so every arithmetic operation
that could wrap is preceded by an explicit `assert` terminator, which the executor turns into a
proof obligation ("this panic is unreachable").  Unchecked operators (Div, Rem, comparisons) are
exact on in-range operands.  Paths are enumerated depth first by decision replay; a branch is
followed only if the solver finds it feasible, so loops unroll exactly as far as some input drives
them.  Anything outside the subset raises Unsupported (reported as inconclusive, never as a pass).
"""
import os
import re
import sys
import time
import z3


class Unsupported(Exception):
    pass


# A spec that could not decide some scenario prints an `INCONCLUSIVE: ...` line where it happens; counterexamples found
# elsewhere still stand, but the run must never be taken for a pass.  The line is repeated as the very last line of the
# output so that a driver which only keeps the tail of the output sees it.
import atexit
import builtins
_seen_inconclusive = []
_plain_print = builtins.print


def _watching_print(*args, **kwargs):
    if args and isinstance(args[0], str) and args[0].startswith("INCONCLUSIVE"):
        _seen_inconclusive.append(args[0][:300])
    return _plain_print(*args, **kwargs)


builtins.print = _watching_print


@atexit.register
def _repeat_inconclusive():
    if _seen_inconclusive:
        _plain_print("FINAL-INCONCLUSIVE: %s" % _seen_inconclusive[0], flush=True)


# ------------------------------------------------------------------ parsing

class Fn:
    def __init__(self, name, args, ret):
        self.name, self.args, self.ret = name, args, ret
        self.types = {}
        self.blocks = {}


def split_top(s, sep=","):
    """split at top-level separators (outside (), [], {}, <>, and string literals)"""
    out, depth, cur, i, n = [], 0, "", 0, len(s)
    instr = False
    while i < n:
        c = s[i]
        if instr:
            cur += c
            if c == "\\":
                cur += s[i + 1]
                i += 1
            elif c == '"':
                instr = False
        elif c == '"':
            instr = True
            cur += c
        elif c in "([{<":
            depth += 1
            cur += c
        elif c in ")]}>":
            # '->' and '=>' are not brackets
            if c == ">" and i > 0 and s[i - 1] in "-=":
                cur += c
            else:
                depth -= 1
                cur += c
        elif c == sep and depth == 0:
            out.append(cur.strip())
            cur = ""
        else:
            cur += c
        i += 1
    if cur.strip():
        out.append(cur.strip())
    return out


def parse_mir(text):
    fns, consts = {}, {}
    lines = text.split("\n")
    i = 0
    while i < len(lines):
        l = lines[i]
        m = re.match(r"^fn (.+?)\((.*)\) -> (.+) \{$", l)
        mc = re.match(r"^const (.+): (.+?) = \{$", l)
        ms = re.match(r"^const (.+): (.+?) = const (.+);$", l)
        if ms:
            f = Fn(ms.group(1), [], ms.group(2))
            f.literal = ms.group(3)
            consts[f.name] = f
            i += 1
            continue
        if m or mc:
            if m:
                f = Fn(m.group(1), split_top(m.group(2)), m.group(3))
                for a in f.args:
                    am = re.match(r"_(\d+): (.*)$", a)
                    f.types[int(am.group(1))] = am.group(2)
                f.types[0] = f.ret
                f.nargs = len(f.args)
            else:
                f = Fn(mc.group(1), [], mc.group(2))
                f.nargs = 0
                f.types[0] = mc.group(2)
            i += 1
            cur = None
            while i < len(lines) and lines[i] != "}":
                s = lines[i].strip()
                lm = re.match(r"let (?:mut )?_(\d+): (.*);$", s)
                bm = re.match(r"bb(\d+)(?: \(cleanup\))?: \{$", s)
                if lm:
                    f.types[int(lm.group(1))] = lm.group(2)
                elif bm:
                    cur = []
                    f.blocks[int(bm.group(1))] = cur
                elif s == "}":
                    if cur is not None:
                        cur = None
                elif cur is not None and s and not s.startswith("//"):
                    # statements may span several lines only for asserts with long messages: join
                    stmt = s
                    while not stmt.endswith(";"):
                        i += 1
                        stmt += " " + lines[i].strip()
                    cur.append(stmt[:-1])
                i += 1
            tgt = fns if m else consts
            key = f.name
            k = 1
            while key in tgt:
                k += 1
                key = "%s#%d" % (f.name, k)
            tgt[key] = f
        i += 1
    return fns, consts


# ------------------------------------------------------------------ values

INT_RANGES = {
    "u8": (0, 2 ** 8 - 1), "u16": (0, 2 ** 16 - 1), "u32": (0, 2 ** 32 - 1), "u64": (0, 2 ** 64 - 1),
    "usize": (0, 2 ** 64 - 1), "i8": (-2 ** 7, 2 ** 7 - 1), "i16": (-2 ** 15, 2 ** 15 - 1),
    "i32": (-2 ** 31, 2 ** 31 - 1), "i64": (-2 ** 63, 2 ** 63 - 1), "isize": (-2 ** 63, 2 ** 63 - 1),
    "u128": (0, 2 ** 128 - 1), "i128": (-2 ** 127, 2 ** 127 - 1),
}


class Ref:
    """pointer to a place: frame store + local + projection path"""
    def __init__(self, frame, local, proj=()):
        self.frame, self.local, self.proj = frame, local, tuple(proj)


class SliceRef:
    """&[T] / &mut [T] into an array place: elements [start, start+len)"""
    def __init__(self, base, start, length):
        self.base, self.start, self.len = base, start, length


class Opaque:
    def __init__(self, what):
        self.what = what


def is_sym(v):
    return isinstance(v, z3.ExprRef)


class PanicFound(Exception):
    def __init__(self, msg, model_vals):
        self.msg, self.model_vals = msg, model_vals


class Engine:
    def __init__(self, fns, consts, externs, max_steps=20000):
        self.fns, self.consts, self.externs = fns, consts, externs
        self.solver = z3.SolverFor(os.environ.get("MIRSYM_LOGIC")) if os.environ.get("MIRSYM_LOGIC") else z3.Solver()
        self.max_steps = max_steps
        self.stats = {"paths": 0, "queries": 0, "solver_s": 0.0, "steps": 0, "assert_obligations": 0,
                      "functions": set()}
        self.violations = []
        self.discriminants = {}

    # -------- solver helpers
    def model_says(self, cond):
        """True if the cached model (a model of the current path condition) satisfies cond"""
        m = getattr(self, "cached_model", None)
        if m is None:
            return False
        try:
            return z3.is_true(m.eval(cond, model_completion=True))
        except z3.Z3Exception:
            return False

    def check(self, *extra):
        t0 = time.time()
        r = self.solver.check(*extra)
        self.stats["solver_s"] += time.time() - t0
        self.stats["queries"] += 1
        if r == z3.unknown:
            raise Unsupported("solver returned unknown")
        return r == z3.sat

    def feasible(self, cond):
        if cond is True:
            return True
        if cond is False:
            return False
        return self.check(cond)

    # -------- path enumeration by decision replay
    def explore(self, entry, make_args, on_path, base_constraints):
        """runs `entry` on every feasible path; on_path(result, engine) is called with the path
        condition asserted in the solver"""
        work = [[]]
        while work:
            prefix = work.pop()
            self.decisions, self.dpos, self.new_alts = list(prefix), 0, []
            self.solver.push()
            for c in base_constraints:
                self.solver.add(c)
            self.steps = 0
            self.cached_model = None
            try:
                res = entry(self) if callable(entry) else self.call_fn(entry, make_args(self))
                self.stats["paths"] += 1
                on_path(res, self)
            finally:
                self.solver.pop()
            for alt in self.new_alts:
                work.append(alt)

    def decide(self, cond):
        """two-way decision on a symbolic condition; returns the Python bool chosen on this path"""
        if not is_sym(cond):
            return bool(cond)
        cond = z3.simplify(cond)
        if z3.is_true(cond):
            return True
        if z3.is_false(cond):
            return False
        if not hasattr(self, "dpos"):
            raise Unsupported("a symbolic decision outside path exploration")
        if self.dpos < len(self.decisions):
            choice = self.decisions[self.dpos]
            self.dpos += 1
            self.solver.add(cond if choice else z3.Not(cond))
            if not self.model_says(cond if choice else z3.Not(cond)):
                self.cached_model = None
            return choice
        # a cached model of the path condition decides one side for free
        if self.model_says(cond):
            t_ok = True
            f_ok = self.check(z3.Not(cond))
            keep = getattr(self, "cached_model", None)
        elif self.model_says(z3.Not(cond)):
            f_ok = True
            keep_f = getattr(self, "cached_model", None)
            t_ok = self.check(cond)
            keep = self.solver.model() if t_ok else None
            if not t_ok:
                keep = keep_f
        else:
            t_ok = self.check(cond)
            keep = self.solver.model() if t_ok else None
            f_ok = self.check(z3.Not(cond))
            if not t_ok and f_ok:
                keep = self.solver.model()
        # the model kept must satisfy the side that is followed (true side when both are feasible)
        self.cached_model = keep if (t_ok or f_ok) else None
        if t_ok and f_ok:
            self.new_alts.append(self.decisions[:self.dpos] + [False])
            choice = True
        elif t_ok:
            choice = True
        elif f_ok:
            choice = False
        else:
            raise Unsupported("infeasible path reached")
        self.decisions.append(choice)
        self.dpos += 1
        self.solver.add(cond if choice else z3.Not(cond))
        return choice

    # -------- places
    def parse_place(self, s):
        """returns (local, [projections]) ; projections: ('deref',), ('field', k), ('index', local), ('downcast', name)"""
        s = s.strip()
        pos = 0

        def skip_type(i):
            depth = 0
            while i < len(s):
                c = s[i]
                if c in "([{<":
                    depth += 1
                elif c in ")]}>":
                    if c == ">" and s[i - 1] in "-=":
                        pass
                    elif depth == 0:
                        return i
                    else:
                        depth -= 1
                i += 1
            return i

        def atom(i):
            if s[i] == "_":
                j = i + 1
                while j < len(s) and s[j].isdigit():
                    j += 1
                return (int(s[i + 1:j]), []), j
            if s[i] == "(":
                if s[i + 1] == "*":
                    (loc, proj), j = place(i + 2)
                    assert s[j] == ")", s
                    return (loc, proj + [("deref",)]), j + 1
                (loc, proj), j = place(i + 1)
                if s.startswith(" as ", j):
                    k = j + 4
                    e = k
                    while s[e] != ")":
                        e += 1
                    return (loc, proj + [("downcast", s[k:e])]), e + 1
                if s[j] == ".":
                    k = j + 1
                    while s[k].isdigit():
                        k += 1
                    fld = int(s[j + 1:k])
                    assert s[k] == ":", s
                    e = skip_type(k + 1)
                    return (loc, proj + [("field", fld)]), e + 1
                raise Unsupported("place syntax: " + s)
            raise Unsupported("place syntax: " + s)

        def place(i):
            (loc, proj), j = atom(i)
            while j < len(s) and s[j] == "[":
                e = s.index("]", j)
                idx = s[j + 1:e]
                if idx.startswith("_"):
                    proj = proj + [("index", int(idx[1:]))]
                else:
                    raise Unsupported("constant index place: " + s)
                j = e + 1
            return (loc, proj), j

        (loc, proj), j = place(pos)
        if j != len(s):
            raise Unsupported("trailing place text: %r in %r" % (s[j:], s))
        return loc, proj

    def resolve(self, frame, loc, proj):
        """follow derefs so that the result is (frame, local, path) with path of ('field',k)/('idx',i)/('slice',start)"""
        cur_frame, cur_loc, path = frame, loc, []
        for p in proj:
            if p[0] == "deref":
                v = self.read_path(cur_frame, cur_loc, path)
                if isinstance(v, Ref):
                    cur_frame, cur_loc, path = v.frame, v.local, list(v.proj)
                elif isinstance(v, SliceRef):
                    b = v.base
                    cur_frame, cur_loc, path = b.frame, b.local, list(b.proj) + [("slice", v.start, v.len)]
                else:
                    raise Unsupported("deref of %r" % (v,))
            elif p[0] == "field":
                path.append(("field", p[1]))
            elif p[0] == "downcast":
                path.append(("downcast", p[1]))
            elif p[0] == "index":
                idx = frame[p[1]]
                if is_sym(idx):
                    idx = z3.simplify(idx)
                    if z3.is_int_value(idx):
                        idx = idx.as_long()
                    else:
                        raise Unsupported("symbolic array index")
                path.append(("idx", idx))
        return cur_frame, cur_loc, path

    def read_path(self, frame, loc, path):
        if loc not in frame:
            raise Unsupported("read of unset local _%d" % loc)
        v = frame[loc]
        off = 0
        for p in path:
            if p[0] == "field":
                if isinstance(v, tuple) and v and v[0] == "Some":
                    v = v[1]
                elif isinstance(v, tuple) and v and v[0] == "enum":
                    v = v[2][p[1]]
                else:
                    v = v[p[1]]
            elif p[0] == "downcast":
                pass
            elif p[0] == "slice":
                off += p[1]
            elif p[0] == "idx":
                v = v[off + p[1]]
                off = 0
        return v

    def write_path(self, frame, loc, path, val):
        if not path:
            frame[loc] = val
            return
        v = frame[loc]
        off = 0
        for k, p in enumerate(path):
            last = k == len(path) - 1
            if p[0] == "slice":
                off += p[1]
                continue
            if p[0] == "downcast":
                continue
            key = p[1] if p[0] == "field" else off + p[1]
            if p[0] == "idx":
                off = 0
            if last:
                v[key] = val
            else:
                v = v[key]

    def read_place(self, frame, s):
        loc, proj = self.parse_place(s)
        f, l, path = self.resolve(frame, loc, proj)
        return self.read_path(f, l, path)

    def write_place(self, frame, s, val):
        loc, proj = self.parse_place(s)
        f, l, path = self.resolve(frame, loc, proj)
        self.write_path(f, l, path, val)

    # -------- operands / rvalues
    def const(self, s):
        s = s.strip()
        if s in ("true", "false"):
            return s == "true"
        if s == "()":
            return ("unit",)
        if len(s) >= 3 and s[0] == "'" and s[-1] == "'" and getattr(self, "chars_as_ints", False):
            body = s[1:-1]
            um = re.match(r"^\\u\{([0-9a-fA-F]+)\}$", body)
            if um:
                return int(um.group(1), 16)
            ch = bytes(body, "utf-8").decode("unicode_escape") if body.startswith("\\") else body
            if len(ch) != 1:
                raise Unsupported("char constant " + s)
            return ord(ch)
        if len(s) >= 3 and s[0] == "'" and s[-1] == "'":
            body = s[1:-1]
            return ("char", bytes(body, "utf-8").decode("unicode_escape") if body.startswith("\\") else body)
        m = re.match(r"^(-?[0-9_]+)_(u8|u16|u32|u64|usize|i8|i16|i32|i64|isize|u128|i128)$", s)
        if m:
            return int(m.group(1).replace("_", ""))
        mm = re.match(r"^(u8|u16|u32|u64|usize|i8|i16|i32|i64|isize|u128|i128)::(MIN|MAX)$", s)
        if mm:
            return INT_RANGES[mm.group(1)][0 if mm.group(2) == "MIN" else 1]
        fm = re.match(r"^(-?(?:\d[\d_]*\.?[\d_]*(?:[eE][+-]?\d+)?|inf|NaN))f64$", s)
        if fm:
            # IEEE-754 doubles are z3 floating-point terms (only specs that put f64 values in use them)
            txt = fm.group(1).replace("_", "")
            if txt == "NaN":
                return z3.fpNaN(z3.Float64())
            if txt.endswith("inf"):
                return z3.fpMinusInfinity(z3.Float64()) if txt.startswith("-") else z3.fpPlusInfinity(z3.Float64())
            return z3.FPVal(float(txt), z3.Float64())
        fc = re.match(r"^(?:core|std)::f64::(?:<impl f64>::)?(INFINITY|NEG_INFINITY|NAN|MAX|MIN|EPSILON|MIN_POSITIVE)$", s)
        if fc:
            import struct as _st
            f64c = {"INFINITY": z3.fpPlusInfinity(z3.Float64()), "NEG_INFINITY": z3.fpMinusInfinity(z3.Float64()), "NAN": z3.fpNaN(z3.Float64()),
                    "MAX": z3.FPVal(1.7976931348623157e308, z3.Float64()), "MIN": z3.FPVal(-1.7976931348623157e308, z3.Float64()),
                    "EPSILON": z3.FPVal(2.220446049250313e-16, z3.Float64()), "MIN_POSITIVE": z3.FPVal(2.2250738585072014e-308, z3.Float64())}
            return f64c[fc.group(1)]
        if s.startswith('b"'):
            return ("bytes_const", s)
        if s.startswith('"'):
            return ("str", bytes(s[1:-1], "utf-8").decode("unicode_escape").encode("latin-1") if "\\" in s else s[1:-1].encode())
        if s.startswith("ZeroSized: "):
            return ("zst", s[11:])
        ext = getattr(self, "ext_const", None)
        if ext is not None:
            v = ext(s)
            if v is not None:
                return v
        cands = [c for name, c in self.consts.items()
                 if name == s or name.endswith("::" + s) or s.endswith("::" + name)]
        if not cands and "::promoted[" in s:
            # promoted constants are printed as `<module>::<Type>::<fn>::promoted[k]` at the use site and
            # as `<module>::<impl at ...>::<fn>::promoted[k]` at the definition
            tail = "::".join(s.split("::")[-2:])
            head = s.split("::")[0]
            cands = [c for name, c in self.consts.items() if name.endswith("::" + tail) and (name.startswith(head) or head.startswith("<"))]
        if not cands and re.match(r"^(?:\w+::)+[A-Z][A-Z0-9_]*$", s):
            # an associated constant: `module::Type::NAME` at the use site, `module::<impl at ..>::NAME` at the definition
            last, head = s.split("::")[-1], s.split("::")[0]
            cands = [c for name, c in self.consts.items() if name.endswith(">::" + last) and name.startswith(head)]
        if len(cands) == 1:
            c = cands[0]
            if hasattr(c, "literal"):
                return self.const(c.literal)
            return self.call_fn(c, [])
        if not cands and re.match(r"^(?:\w+::)*[A-Z]\w*$", s) and not s.split("::")[-1].isupper():
            return ("enum", s.split("::")[-1], [])  # unit struct value
        raise Unsupported("constant %s (%d candidates)" % (s, len(cands)))

    def operand(self, frame, s):
        s = s.strip()
        if s.startswith("no_retag "):
            s = s[9:]
        if s.startswith("copy "):
            return self.read_place(frame, s[5:])
        if s.startswith("move "):
            return self.read_place(frame, s[5:])
        if s.startswith("const "):
            return self.const(s[6:])
        if re.match(r"^[A-Za-z_]\w*(::[A-Za-z_]\w*)*::[A-Z]\w*$", s):
            # a tuple-variant constructor used as a function item, e.g. `Value::Int`
            return ("ctor", "::".join(s.split("::")[-2:]))
        if re.match(r"^(?:[a-z_]\w*|String|Vec|Option|Result|Box|Arc)(::(?:<impl [^>]*>|[A-Za-z_]\w*))*(::<.*>)?$", s) and (s in self.fns or any(n.endswith("::" + s) or s.endswith("::" + n) for n in self.fns) or "::" in s):
            # a function item passed as a value (e.g. a parser function handed to a combinator)
            return ("fnitem", s)
        raise Unsupported("operand " + s)

    def wrap(self, v, ty):
        lo, hi = INT_RANGES[ty]
        width = hi - lo + 1
        if is_sym(v):
            if lo == 0:
                return v % width
            return ((v - lo) % width) + lo
        return ((v - lo) % width) + lo

    def binop(self, op, a, b, ty):
        if (is_sym(a) and z3.is_fp(a)) or (is_sym(b) and z3.is_fp(b)):
            rm = z3.RNE()
            fpops = {"Lt": z3.fpLT, "Le": z3.fpLEQ, "Gt": z3.fpGT, "Ge": z3.fpGEQ, "Eq": z3.fpEQ, "Ne": z3.fpNEQ}
            if op in fpops:
                return fpops[op](a, b)
            arith = {"Add": z3.fpAdd, "Sub": z3.fpSub, "Mul": z3.fpMul, "Div": z3.fpDiv}
            if op in arith:
                return arith[op](rm, a, b)
            if op == "Rem":
                return z3.fpRem(a, b)
            raise Unsupported("floating-point operator " + op)
        if op in ("Lt", "Le", "Gt", "Ge", "Eq", "Ne"):
            if isinstance(a, bool) and isinstance(b, bool):
                return {"Eq": a == b, "Ne": a != b}[op]
            if isinstance(a, bool) or isinstance(b, bool) or z3.is_bool(a) if is_sym(a) else False:
                A = a if is_sym(a) else z3.BoolVal(a)
                B = b if is_sym(b) else z3.BoolVal(b)
                return {"Eq": A == B, "Ne": A != B}[op]
            return {"Lt": lambda: a < b, "Le": lambda: a <= b, "Gt": lambda: a > b, "Ge": lambda: a >= b,
                    "Eq": lambda: a == b, "Ne": lambda: a != b}[op]()
        if op in ("AddWithOverflow", "SubWithOverflow", "MulWithOverflow"):
            r = {"A": lambda: a + b, "S": lambda: a - b, "M": lambda: a * b}[op[0]]()
            if is_sym(r):
                r = z3.simplify(r)
            lo, hi = INT_RANGES[ty]
            if is_sym(r):
                ovf = z3.Or(r < lo, r > hi)
            else:
                ovf = r < lo or r > hi
            return [self.wrap(r, ty), ovf]
        if op in ("Add", "Sub", "Mul"):
            r = {"Add": lambda: a + b, "Sub": lambda: a - b, "Mul": lambda: a * b}[op]()
            return self.wrap(r, ty)
        if op in ("Div", "Rem"):
            if ty[0] != "u":
                # signed division truncates; model through absolute values
                if not is_sym(a) and not is_sym(b):
                    q = abs(a) // abs(b)
                    q = q if (a < 0) == (b < 0) else -q
                    return q if op == "Div" else a - q * b
                A, B = (a if is_sym(a) else z3.IntVal(a)), (b if is_sym(b) else z3.IntVal(b))
                absa, absb = z3.If(A < 0, -A, A), z3.If(B < 0, -B, B)
                q = absa / absb
                q = z3.If((A < 0) == (B < 0), q, -q)
                return q if op == "Div" else A - q * B
            if not is_sym(a) and not is_sym(b):
                return a // b if op == "Div" else a % b
            A = a if is_sym(a) else z3.IntVal(a)
            return A / b if op == "Div" else A % b
        if op in ("Shl", "Shr", "ShlUnchecked", "ShrUnchecked") and ty in INT_RANGES and not is_sym(b):
            # shifts by a concrete amount: multiplication / floor division by a power of two (Shl wraps to the type's width)
            if op.startswith("Shl"):
                return self.wrap(a * (2 ** int(b)), ty)
            return (a / (2 ** int(b))) if is_sym(a) else (a // (2 ** int(b)))
        if op in ("BitAnd", "BitOr", "BitXor") and (isinstance(a, bool) or (is_sym(a) and z3.is_bool(a))):
            A = a if is_sym(a) else z3.BoolVal(a)
            B = b if is_sym(b) else z3.BoolVal(b)
            return {"BitAnd": z3.And(A, B), "BitOr": z3.Or(A, B), "BitXor": z3.Xor(A, B)}[op]
        raise Unsupported("binary operator %s on %s" % (op, ty))

    def rvalue(self, frame, fn, dst_ty, s):
        s = s.strip()
        m = re.match(r"^(\w+)\((.*)\)$", s)
        if m and m.group(1) in ("Lt", "Le", "Gt", "Ge", "Eq", "Ne", "Add", "Sub", "Mul", "Div", "Rem",
                                "AddWithOverflow", "SubWithOverflow", "MulWithOverflow", "BitAnd", "BitOr", "BitXor", "Shl", "Shr", "ShlUnchecked", "ShrUnchecked"):
            a, b = [self.operand(frame, x) for x in split_top(m.group(2))]
            ty = dst_ty
            if m.group(1).endswith("WithOverflow"):
                ty = re.match(r"^\((\w+), bool\)$", dst_ty).group(1)
            elif m.group(1) in ("Lt", "Le", "Gt", "Ge", "Eq", "Ne"):
                ty = "bool"
            return self.binop(m.group(1), a, b, ty)
        if m and m.group(1) == "Neg":
            v = self.operand(frame, m.group(2))
            if dst_ty == "f64" and is_sym(v) and z3.is_fp(v):
                return z3.fpNeg(v)
            if dst_ty not in INT_RANGES:
                raise Unsupported("Neg on " + dst_ty)
            return self.wrap(-v, dst_ty)
        sm = re.match(r"^(?:std::option::)?Option::<.*>::Some\((copy _\d+|move _\d+|const [^()]*)\)$", s)
        if sm:
            return ("Some", self.operand(frame, sm.group(1)))
        em = re.match(r"^([A-Za-z_][\w:<>, &'\[\];()]*?)::([A-Z]\w*)\((.*)\)$", s)
        if em and not s.startswith(("Lt(", "Le(", "Gt(", "Ge(", "Eq(", "Ne(")):
            path = re.sub(r"::<.*>$", "", em.group(1))
            name = path.split("::")[-1] + "::" + em.group(2)
            vals = [self.operand(frame, x) for x in split_top(em.group(3))]
            if name == "Option::Some":
                return ("Some", vals[0])
            return ("enum", name, vals)
        if re.match(r"^(std::option::)?Option::<.*>::None$", s):
            return ("None",)
        tm = re.match(r"^((?:\w+::)*[A-Z]\w*(?:::<.*?>)?)\((.*)\)$", s)
        if tm and tm.group(1).split("::")[0] not in ("Lt", "Le", "Gt", "Ge", "Eq", "Ne", "Add", "Sub", "Mul", "Div", "Rem", "Not", "Neg",
                                                    "PtrMetadata", "AddWithOverflow", "SubWithOverflow", "MulWithOverflow", "BitAnd", "BitOr", "BitXor", "Len"):
            # tuple struct constructor, e.g. `Argument(copy _2)` or `This::<T>(copy _9)`
            return ("enum", tm.group(1), [self.operand(frame, x) for x in split_top(tm.group(2))])
        if m and m.group(1) == "Not":
            v = self.operand(frame, m.group(2))
            return (not v) if isinstance(v, bool) else z3.Not(v)
        if m and m.group(1) == "PtrMetadata":
            v = self.operand(frame, m.group(2))
            if isinstance(v, SliceRef):
                return v.len
            t = self.read_path(v.frame, v.local, list(v.proj)) if isinstance(v, Ref) else v
            if isinstance(t, tuple) and t and t[0] == "slice":
                # structural slice of a modelled vector: ("slice", ref-to-vec[, start])
                base = self.read_path(t[1].frame, t[1].local, list(t[1].proj))
                return len(base[1]) - (t[2] if len(t) > 2 else 0)
            raise Unsupported("PtrMetadata of non-slice")
        if m and m.group(1) == "discriminant":
            v = self.read_place(frame, m.group(2))
            if isinstance(v, tuple) and v[0] in ("Some", "None"):
                return 1 if v[0] == "Some" else 0
            if isinstance(v, tuple) and v[0] == "enum":
                name = v[1]
                if name in self.discriminants:
                    return self.discriminants[name]
                if name.split("::")[-1] in ("Ok", "Err"):
                    return 0 if name.endswith("Ok") else 1
            if isinstance(v, tuple) and v and v[0] == "abs_val" and any(k.startswith("Value::") for k in self.discriminants):
                # an abstract value whose kind the code asks for: the kind becomes a solver decision (one symbolic discriminant
                # per abstract value, consistent along the path); obligations are stated for all kinds, so whatever the code
                # does for a particular kind is explored
                n_kinds = 1 + max(d for k, d in self.discriminants.items() if k.startswith("Value::"))
                d = z3.Int("kind_of_%s" % re.sub(r"\W+", "_", str(v[1])))
                self.solver.add(z3.And(d >= 0, d < n_kinds))
                self.cached_model = None
                return d
            raise Unsupported("discriminant of %r" % (v,))
        if s.startswith("&raw const (fake) ") or s.startswith("&raw const ") or s.startswith("&raw mut "):
            pl = s.split(") ", 1)[1] if "(fake)" in s else s.split(" ", 2)[2]
            return self.make_ref(frame, pl)
        if s.startswith("&mut "):
            return self.make_ref(frame, s[5:])
        if s.startswith("&"):
            return self.make_ref(frame, s[1:])
        cm = re.match(r"^(.*) as (.+?) \((\w+)(?:\(.*\))?\)$", s)
        if cm:
            v = self.operand(frame, cm.group(1))
            kind, ty = cm.group(3), cm.group(2)
            if kind == "IntToInt":
                # a widening cast cannot wrap: keep the term free of mod-2^k arithmetic
                sm = re.match(r"^(?:copy|move) _(\d+)$", cm.group(1).strip())
                sty = fn.types.get(int(sm.group(1))) if sm else None
                if sty in INT_RANGES and ty in INT_RANGES and INT_RANGES[sty][0] >= INT_RANGES[ty][0] and INT_RANGES[sty][1] <= INT_RANGES[ty][1]:
                    return v
                return self.wrap(v, ty)
            if kind == "FloatToInt" and ty in INT_RANGES and is_sym(v) and z3.is_fp(v):
                # `as` saturates and maps NaN to 0
                lo, hi = INT_RANGES[ty]
                t = z3.fpRoundToIntegral(z3.RTZ(), v)
                as_int = z3.ToInt(z3.fpToReal(t))
                return z3.If(z3.fpIsNaN(v), 0, z3.If(z3.fpGEQ(v, z3.FPVal(float(hi + 1), z3.Float64())), hi,
                                                       z3.If(z3.fpLEQ(v, z3.FPVal(float(lo), z3.Float64())), lo, as_int)))
            if kind == "IntToFloat" and ty == "f64":
                V = v if is_sym(v) else z3.IntVal(v)
                return z3.fpToFP(z3.RNE(), z3.ToReal(V), z3.Float64())
            if kind in ("Transmute", "PtrToPtr"):
                return v
            if kind == "PointerCoercion":
                # &[T; N] -> &[T]
                if isinstance(v, Ref):
                    arr = self.read_path(v.frame, v.local, list(v.proj))
                    return SliceRef(v, 0, len(arr))
                return v
            raise Unsupported("cast kind " + kind)
        if s.startswith("[") and s.endswith("]") and ";" not in s:
            return [self.operand(frame, x) for x in split_top(s[1:-1])]
        if s.startswith("[") and ";" in s:
            inner = s[1:-1]
            val, n = inner.rsplit(";", 1)
            return [self.operand(frame, val) for _ in range(int(n.strip()))]
        if s.startswith("(") and not s.startswith("(*") and not re.match(r"^\(_\d+\.", s) and not re.match(r"^\(\(", s):
            return [self.operand(frame, x) for x in split_top(s[1:-1])]
        am = re.match(r"^(.*?) \{ (.*) \}$", s)
        if am:
            fields = split_top(am.group(2))
            vals = [self.operand(frame, f.split(":", 1)[1]) for f in fields]
            path = re.sub(r"::<.*?>", "", am.group(1)).split("::")
            if len(path) >= 2 and path[-1][:1].isupper() and path[-2][:1].isupper():
                return ("enum", path[-2] + "::" + path[-1], vals)  # struct-like enum variant
            return vals
        uv = getattr(self, "unit_variants", {})
        if s in uv:
            return uv[s]
        return self.operand(frame, s)

    def make_ref(self, frame, pl):
        loc, proj = self.parse_place(pl)
        f, l, path = self.resolve(frame, loc, proj)
        if path and path[-1][0] == "slice":
            # reborrow of a slice place: stays a slice
            return SliceRef(Ref(f, l, path[:-1]), path[-1][1], path[-1][2])
        return Ref(f, l, path)

    # -------- execution
    def call_fn(self, fn, args):
        self.stats["functions"].add(fn.name)
        frame = {}
        for k, a in enumerate(args):
            frame[k + 1] = a
        bb = 0
        while True:
            for stmt in fn.blocks[bb]:
                self.steps += 1
                self.stats["steps"] += 1
                if self.steps > self.max_steps:
                    raise Unsupported("step bound exceeded")
                try:
                    nxt = self.exec_stmt(fn, frame, stmt)
                except (TypeError, KeyError, IndexError, AttributeError, ValueError) as ex:
                    # a value of a shape the engine's operators do not handle (an abstract payload in arithmetic, a projection
                    # into an opaque value): this path cannot be followed - undecided, never a crash and never a pass
                    raise Unsupported("engine cannot execute `%s` in %s: %s: %s" % (stmt[:80], fn.name[:60], type(ex).__name__, str(ex)[:80]))
                if nxt is not None:
                    if nxt == "return":
                        return frame.get(0)
                    bb = nxt
                    break
            else:
                raise Unsupported("block without terminator")

    def run_from(self, fn, bb, frame):
        """execute from basic block `bb` with a prepared frame until the return place _0 is written"""
        self.stats["functions"].add(fn.name + " [from bb%d]" % bb)
        while True:
            for stmt in fn.blocks[bb]:
                self.steps += 1
                self.stats["steps"] += 1
                if self.steps > self.max_steps:
                    raise Unsupported("step bound exceeded")
                nxt = self.exec_stmt(fn, frame, stmt)
                if 0 in frame:
                    return frame[0]
                if nxt is not None:
                    if nxt == "return":
                        return frame.get(0)
                    bb = nxt
                    break
            else:
                raise Unsupported("block without terminator")

    def exec_stmt(self, fn, frame, stmt):
        if stmt == "return":
            return "return"
        if stmt == "unreachable":
            raise Unsupported("reached `unreachable`")
        if stmt.startswith(("StorageLive", "StorageDead", "nop", "FakeRead", "PlaceMention", "Retag", "AscribeUserType", "Coverage")):
            return None
        m = re.match(r"^goto -> bb(\d+)$", stmt)
        if m:
            return int(m.group(1))
        m = re.match(r"^switchInt\((.*)\) -> \[(.*)\]$", stmt)
        if m:
            v = self.operand(frame, m.group(1))
            targets = [t.strip() for t in m.group(2).split(",")]
            other = None
            for t in targets:
                k, b = t.split(": ")
                b = int(b[2:])
                if k == "otherwise":
                    other = b
                    continue
                k = int(k)
                if isinstance(v, bool) or (is_sym(v) and z3.is_bool(v)):
                    cond = (v == bool(k)) if isinstance(v, bool) else (v if k else z3.Not(v))
                else:
                    cond = v == k
                if self.decide(cond):
                    return b
            return other
        m = re.match(r"^assert\((.*?), \"(.*?)\"(?:, .*)?\) -> \[success: bb(\d+), unwind.*\]$", stmt)
        if m:
            cs = m.group(1)
            neg = cs.startswith("!")
            c = self.operand(frame, cs[1:] if neg else cs)
            if neg:
                c = (not c) if isinstance(c, bool) else z3.Not(c)
            self.stats["assert_obligations"] += 1
            if isinstance(c, bool):
                if not c:
                    self.violations.append({"kind": "panic", "message": m.group(2), "function": fn.name, "model": self.model_inputs()})
                    raise PanicFound(m.group(2), None)
            else:
                if self.check(z3.Not(c)):
                    self.violations.append({"kind": "panic", "message": m.group(2), "function": fn.name, "model": self.model_inputs()})
                    # continue on the non-panicking side if there is one
                    if not self.check(c):
                        raise PanicFound(m.group(2), None)
                self.solver.add(c)
                if not self.model_says(c):
                    self.cached_model = None
            return int(m.group(3))
        m = re.match(r"^drop\(.*\) -> \[return: bb(\d+), unwind.*\]$", stmt)
        if m:
            return int(m.group(1))
        m = re.match(r"^(.+?) = (.+\)) -> (?:bb\d+|unwind .*)$", stmt)
        if m:
            # a call that never returns (only an unwind edge): panic!, todo!, unreachable!, expect failures
            callee = m.group(2).split("(")[0]
            self.violations.append({"kind": "panic", "message": "diverging call to %s" % callee, "function": fn.name,
                                    "model": self.model_inputs() if self.check() else None})
            raise PanicFound("diverging call to %s" % callee, None)
        m = re.match(r"^(.+?) = (.+\)) -> \[return: bb(\d+), unwind.*\]$", stmt)
        if m:
            dst, body, nxt = m.group(1), m.group(2), int(m.group(3))
            # the argument list is the last balanced (...) group; the callee may itself contain parentheses
            depth, k = 0, len(body) - 1
            while k >= 0:
                if body[k] == ")":
                    depth += 1
                elif body[k] == "(":
                    depth -= 1
                    if depth == 0:
                        break
                k -= 1
            callee, argstr = body[:k], body[k + 1:-1]
            if not re.match(r"^(Lt|Le|Gt|Ge|Eq|Ne|Add|Sub|Mul|Div|Rem|\w+WithOverflow|PtrMetadata|discriminant|Not)$", callee):
                args = [self.operand(frame, a) for a in split_top(argstr)]
                res = self.call(callee, args)
                self.write_place(frame, dst, res)
                return nxt
        m = re.match(r"^(.+?) = (.*)$", stmt)
        if m:
            dst = m.group(1)
            loc, proj = self.parse_place(dst)
            dst_ty = fn.types.get(loc, "?") if not proj else self.proj_type(fn, frame, dst)
            val = self.rvalue(frame, fn, dst_ty, m.group(2))
            self.write_place(frame, dst, val)
            return None
        raise Unsupported("statement: " + stmt)

    def proj_type(self, fn, frame, dst):
        m = re.search(r": ([^():]+)\)$", dst)
        if m:
            return m.group(1).strip()
        # element of a byte array / slice
        return "u8"

    def model_inputs(self):
        return None

    def call(self, callee, args):
        if os.environ.get("MIRSYM_TRACE"):
            print("CALL", callee, file=sys.stderr)
        if callee in self.fns:
            return self.call_fn(self.fns[callee], args)
        for pat, impl in self.externs:
            m = re.match(pat, callee)
            if m:
                return impl(self, m, args)
        if re.match(r"^<(?:usize|u64|i64|u32|i32|u8|f64|bool|str|char|std::|core::|alloc::|Vec<|Option<|Box<|Arc<|String|&|\[)", callee):
            # a trait method of a std type is never a crate-local function
            raise Unsupported("call to " + callee)
        # crate-local functions may be printed with their module path
        for name, f in self.fns.items():
            if name.endswith("::" + callee) or callee.endswith("::" + name):
                return self.call_fn(f, args)
        # inherent methods are printed as `Type::method` at the call site and `module::<impl at ..>::method`
        # at the definition: accept a unique match on the method name
        if re.match(r"^[\w:<>', ]+::[a-z_]\w*$", callee) and not callee.startswith(("std::", "core::", "alloc::")):
            last = callee.split("::")[-1]
            c2 = [f for name, f in self.fns.items() if name.endswith(">::" + last)]
            if len(c2) == 1:
                return self.call_fn(c2[0], args)
        raise Unsupported("call to " + callee)

    def closure_fn(self, closure_ty):
        for name, f in self.fns.items():
            if "{closure#" in name and f.args and f.args[0].split(": ", 1)[1] in (closure_ty, "&mut " + closure_ty, "&" + closure_ty):
                return f
        raise Unsupported("closure body for " + closure_ty)


# ------------------------------------------------------------------ std models (each is part of the claim)

def ext_unsigned_abs(e, m, args):
    v = args[0]
    return z3.If(v < 0, -v, v) if is_sym(v) else abs(v)


def ext_option_map(e, m, args):
    opt, clo = args
    if isinstance(clo, tuple) and clo and clo[0] == "ctor":
        return ("None",) if opt[0] == "None" else ("Some", ("enum", clo[1], [opt[1]]))
    if isinstance(clo, tuple) and clo and clo[0] == "fnitem":
        return ("None",) if opt[0] == "None" else ("Some", e.call(clo[1], [opt[1]]))
    cty = re.search(r"(\{closure@[^}]*\})", m.group(0)).group(1)
    if opt[0] == "None":
        return ("None",)
    return ("Some", e.call_fn(e.closure_fn(cty), [clo, opt[1]]))


def ext_unwrap_or_else(e, m, args):
    opt, clo = args
    cty = re.search(r"(\{closure@[^}]*\})", m.group(0)).group(1)
    if opt[0] == "Some":
        return opt[1]
    return e.call_fn(e.closure_fn(cty), [clo])


def ext_index_range_to(e, m, args):
    r, rng = args
    end = rng[0]
    base = r if isinstance(r, SliceRef) else SliceRef(r, 0, len(e.read_path(r.frame, r.local, list(r.proj))))
    if is_sym(end):
        raise Unsupported("symbolic slice bound")
    if end > base.len:
        e.violations.append({"kind": "panic", "message": "range end index out of range for slice", "function": "index_mut", "model": None})
        raise PanicFound("slice index", None)
    return SliceRef(base.base, base.start, end)


def ext_index_range_from(e, m, args):
    r, rng = args
    start = rng[0]
    base = r if isinstance(r, SliceRef) else SliceRef(r, 0, len(e.read_path(r.frame, r.local, list(r.proj))))
    if is_sym(start):
        raise Unsupported("symbolic slice bound")
    if start > base.len:
        e.violations.append({"kind": "panic", "message": "range start index out of range for slice", "function": "index", "model": None})
        raise PanicFound("slice index", None)
    return SliceRef(base.base, base.start + start, base.len - start)


def ext_range_into_iter(e, m, args):
    return args[0]


def ext_range_next(e, m, args):
    r = args[0]
    rng = e.read_path(r.frame, r.local, list(r.proj))
    start, end = rng
    if e.decide(start < end):
        rng[0] = start + 1
        return ("Some", start)
    return ("None",)


def ext_from_utf8_lossy(e, m, args):
    s = args[0]
    arr = e.read_path(s.base.frame, s.base.local, list(s.base.proj))
    return ("bytes", list(arr[s.start:s.start + s.len]))


def ext_identity(e, m, args):
    return args[0]


def ext_str_to_string(e, m, args):
    return ("bytes", list(args[0][1]))


def ext_checked_neg(e, m, args):
    v = args[0]
    if e.decide(v == -2 ** 63):
        return ("None",)
    return ("Some", -v)


def ext_usize_try_from_i64(e, m, args):
    v = args[0]
    if e.decide(v >= 0):
        return ("enum", "Result::Ok", [v])
    return ("enum", "Result::Err", [("unit",)])


def ext_usize_checked_add(e, m, args):
    v = args[0] + args[1]
    if e.decide(v <= 2 ** 64 - 1):
        return ("Some", v)
    return ("None",)


def ext_option_try_branch(e, m, args):
    o = args[0]
    if o[0] == "Some":
        return ("enum", "ControlFlow::Continue", [o[1]])
    return ("enum", "ControlFlow::Break", [("None",)])


def ext_wrapping_neg(e, m, args):
    return e.wrap(-args[0], "i64")


def ext_option_ok_or(e, m, args):
    opt, err = args
    if opt[0] == "Some":
        return ("enum", "Result::Ok", [opt[1]])
    return ("enum", "Result::Err", [err])


def ext_result_map_ctor(e, m, args):
    res = args[0]
    ctor = re.search(r"\{(\w+)::(\w+)\}", m.group(0))
    if res[1].endswith("Ok"):
        return ("enum", "Result::Ok", [("enum", ctor.group(1) + "::" + ctor.group(2), [res[2][0]])])
    return res


def ext_into_value(e, m, args):
    kind = {"i64": "Int", "u64": "UInt", "f64": "Float", "bool": "Bool"}[m.group(1)]
    return ("enum", "Value::" + kind, [args[0]])


def _deref(e, x):
    return e.read_path(x.frame, x.local, list(x.proj)) if isinstance(x, Ref) else x


def _closure_call(e, m, args_for_closure, clo):
    cty = re.search(r"(\{closure@[^}]*\})", m.group(0))
    if not cty:
        raise Unsupported("closure type in " + m.group(0))
    return e.call_fn(e.closure_fn(cty.group(1)), [clo] + args_for_closure)


def ext_opt_as_ref(e, m, args):
    o = _deref(e, args[0])
    if o[0] == "Some":
        return ("Some", Ref({0: o[1]}, 0, ()))
    return ("None",)


def ext_opt_is(e, m, args):
    o = _deref(e, args[0])
    return (o[0] == "Some") == (m.group(1) == "is_some")


def ext_opt_unwrap_or(e, m, args):
    o = args[0]
    return o[1] if o[0] == "Some" else args[1]


def ext_opt_and_then(e, m, args):
    o, clo = args
    return _closure_call(e, m, [o[1]], clo) if o[0] == "Some" else ("None",)


def ext_generic_ok_or(e, m, args):
    o, err = args
    return ("enum", "Result::Ok", [o[1]]) if o[0] == "Some" else ("enum", "Result::Err", [err])


def ext_res_is(e, m, args):
    r = _deref(e, args[0])
    return r[1].endswith("Ok") == (m.group(1) == "is_ok")


def ext_res_ok(e, m, args):
    r = args[0]
    want = "Ok" if m.group(1) == "ok" else "Err"
    return ("Some", r[2][0]) if r[1].endswith(want) else ("None",)


def ext_res_map(e, m, args):
    r, clo = args
    if r[1].endswith("Ok"):
        if isinstance(clo, tuple) and clo and clo[0] == "ctor":
            return ("enum", "Result::Ok", [("enum", clo[1], [r[2][0]])])
        if isinstance(clo, tuple) and clo and clo[0] == "fnitem":
            return ("enum", "Result::Ok", [e.call(clo[1], [r[2][0]])])
        return ("enum", "Result::Ok", [_closure_call(e, m, [r[2][0]], clo)])
    return r


def ext_res_map_err(e, m, args):
    r, clo = args
    if r[1].endswith("Err"):
        return ("enum", "Result::Err", [_closure_call(e, m, [r[2][0]], clo)])
    return r


def ext_res_and_then(e, m, args):
    r, clo = args
    return _closure_call(e, m, [r[2][0]], clo) if r[1].endswith("Ok") else r


def ext_int_minmax(e, m, args):
    a, b = args
    if is_sym(a) or is_sym(b):
        return z3.If(a <= b, a, b) if m.group(1) == "min" else z3.If(a >= b, a, b)
    return min(a, b) if m.group(1) == "min" else max(a, b)


def ext_int_cmp(e, m, args):
    a, b = _deref(e, args[0]), _deref(e, args[1])
    if is_sym(a) or is_sym(b):
        return ("enum", "Ordering", [z3.If(a < b, -1, z3.If(a == b, 0, 1))])
    return ("enum", "Ordering", [(a > b) - (a < b)])


def ext_str_starts_with(e, m, args):
    s, pat = args
    text = s[1].decode() if isinstance(s[1], bytes) else s[1]
    if isinstance(pat, tuple) and pat[0] == "char":
        return text.startswith(pat[1])
    if isinstance(pat, tuple) and pat[0] == "str":
        return text.startswith(pat[1].decode())
    if isinstance(pat, list):
        return any(text.startswith(p[1]) for p in pat)
    raise Unsupported("starts_with pattern %r" % (pat,))


def ext_char_class(e, m, args):
    c = _deref(e, args[0])
    if isinstance(c, tuple) and c[0] == "char":
        c = ord(c[1])
    rng = {"digit": [(48, 57)], "hexdigit": [(48, 57), (65, 70), (97, 102)], "alphabetic": [(65, 90), (97, 122)],
           "alphanumeric": [(48, 57), (65, 90), (97, 122)], "uppercase": [(65, 90)], "lowercase": [(97, 122)],
           "punctuation": [(33, 47), (58, 64), (91, 96), (123, 126)], "whitespace": [(9, 10), (12, 13), (32, 32)]}[m.group(1)]
    if is_sym(c):
        return z3.Or(*[z3.And(c >= lo, c <= hi) for lo, hi in rng])
    return any(lo <= c <= hi for lo, hi in rng)


def ext_str_starts_with_closure(e, m, args):
    s = args[0]
    text = s[1].decode() if isinstance(s[1], bytes) else s[1]
    if not text:
        return False
    cty = re.search(r"(\{closure@[^}]*\})", m.group(0)).group(1)
    first = ord(text[0]) if getattr(e, "chars_as_ints", False) else ("char", text[0])
    return e.call_fn(e.closure_fn(cty), [Ref({0: args[1]}, 0, ()), first])


def ext_opt_unwrap(e, m, args):
    o = args[0]
    if o[0] != "Some":
        e.violations.append({"kind": "panic", "message": "called `Option::%s()` on a `None` value" % m.group(1), "function": "?", "model": e.model_inputs() if e.check() else None})
        raise PanicFound("Option::%s on None" % m.group(1), None)
    return o[1]


def ext_opt_mutators(e, m, args):
    r = args[0]
    old = e.read_path(r.frame, r.local, list(r.proj))
    kind = m.group(1)
    if kind == "take":
        e.write_path(r.frame, r.local, list(r.proj), ("None",))
        return old
    if kind == "replace":
        e.write_path(r.frame, r.local, list(r.proj), ("Some", args[1]))
        return old
    if kind == "insert" or (kind == "get_or_insert" and old[0] == "None"):
        e.write_path(r.frame, r.local, list(r.proj), ("Some", args[1]))
    return Ref(r.frame, r.local, list(r.proj) + [("field", 0)])


def ext_bool_then(e, m, args):
    b, clo = args
    if e.decide(b):
        return ("Some", _closure_call(e, m, [], clo))
    return ("None",)


def ext_bool_then_some(e, m, args):
    b, v = args
    return ("Some", v) if e.decide(b) else ("None",)


def ext_res_try_branch(e, m, args):
    r = args[0]
    if r[1].endswith("Ok"):
        return ("enum", "ControlFlow::Continue", [r[2][0]])
    return ("enum", "ControlFlow::Break", [("enum", "Result::Err", [r[2][0]])])


def ext_res_unwrap_or(e, m, args):
    r = args[0]
    return r[2][0] if r[1].endswith("Ok") else args[1]


def ext_unwrap_or_default(e, m, args):
    """Result / Option ::unwrap_or_default for the integer, bool and unit payload types"""
    r = args[0]
    if isinstance(r, tuple) and r[0] == "Some":
        return r[1]
    if isinstance(r, tuple) and r[0] == "enum" and r[1].endswith("Ok"):
        return r[2][0]
    ty = m.group(1)
    if ty in INT_RANGES:
        return 0
    if ty == "bool":
        return False
    raise Unsupported("unwrap_or_default for " + ty)


def ext_opt_filter(e, m, args):
    o, clo = args
    if o[0] == "None":
        return o
    keep = _closure_call(e, m, [Ref({0: o[1]}, 0, ())], clo)
    return o if e.decide(keep) else ("None",)


def ext_opt_is_some_and(e, m, args):
    o, clo = args
    if o[0] == "None":
        return False
    return _closure_call(e, m, [o[1]], clo)


def ext_int_try_from(e, m, args):
    dst = m.group(1)
    lo, hi = INT_RANGES[dst]
    v = args[0]
    inr = z3.And(v >= lo, v <= hi) if is_sym(v) else (lo <= v <= hi)
    if e.decide(inr):
        return ("enum", "Result::Ok", [v])
    return ("enum", "Result::Err", [("unit",)])


def ext_int_checked(e, m, args):
    ty, op = m.group(1), m.group(2)
    lo, hi = INT_RANGES[ty]
    x, y = args
    v = {"add": lambda: x + y, "sub": lambda: x - y, "mul": lambda: x * y}[op]()
    inr = z3.And(v >= lo, v <= hi) if is_sym(v) else (lo <= v <= hi)
    return ("Some", v) if e.decide(inr) else ("None",)


STD_MODELS = [
    (r"^(?:std::option::)?Option::<.*>::(take|replace|insert|get_or_insert)$", ext_opt_mutators),
    (r"^(?:std::option::)?Option::<.*>::(unwrap|expect)$", ext_opt_unwrap),
    # formatting is only ever used to build error texts: opaque
    (r"^core::fmt::rt::Argument::<'_>::new_(?:debug|display)::<.*>$", lambda e, m, a: ("fmt_arg",)),
    (r"^std::fmt::Arguments::<'_>::(?:new|new_const|from_str|from_str_nonconst)(?:::<.*>)?$", lambda e, m, a: ("fmt_args",)),
    (r"^(?:std|alloc)::fmt::format$", lambda e, m, a: ("string", "<formatted>")),
    (r"^must_use::<.*>$", lambda e, m, a: a[0]),
    (r"^<(?:Arc|std::sync::Arc|Box|std::boxed::Box)<.*> as Clone>::clone$", lambda e, m, a: _deref(e, a[0])),
    (r"^<(?:i64|u64|f64|bool|usize|TimeDelta|chrono::TimeDelta|DateTime<FixedOffset>|chrono::DateTime<chrono::FixedOffset>) as Clone>::clone$", lambda e, m, a: _deref(e, a[0])),
    (r"^core::str::<impl str>::starts_with::<\{closure@[^}]*\}>$", ext_str_starts_with_closure),
    (r"^core::str::<impl str>::starts_with::<.*>$", ext_str_starts_with),
    (r"^(?:core::)?char::methods::<impl char>::is_ascii_(digit|hexdigit|alphabetic|alphanumeric|uppercase|lowercase|punctuation|whitespace)$", ext_char_class),
    (r"^std::option::Option::<.*>::as_ref$", ext_opt_as_ref),
    (r"^std::option::Option::<.*>::(is_some|is_none)$", ext_opt_is),
    (r"^std::option::Option::<.*>::unwrap_or$", ext_opt_unwrap_or),
    (r"^std::option::Option::<.*>::and_then::<.*>$", ext_opt_and_then),
    (r"^std::result::Result::<.*>::(is_ok|is_err)$", ext_res_is),
    (r"^std::result::Result::<.*>::(ok|err)$", ext_res_ok),
    (r"^std::result::Result::<.*>::and_then::<.*>$", ext_res_and_then),
    (r"^<(?:usize|u64|i64|u32|i32) as Ord>::(min|max)$", ext_int_minmax),
    (r"^(?:std|core)::cmp::(min|max)::<(?:usize|u64|i64|u32|i32)>$", ext_int_minmax),
    (r"^<(?:usize|u64|i64|u32|i32) as Ord>::cmp$", ext_int_cmp),
    (r"^core::num::<impl i64>::checked_neg$", ext_checked_neg),
    (r"^<usize as TryFrom<i64>>::try_from$", ext_usize_try_from_i64),
    (r"^core::num::<impl usize>::checked_add$", ext_usize_checked_add),
    (r"^<std::option::Option<.*> as Try>::branch$", ext_option_try_branch),
    (r"^<std::option::Option<.*> as FromResidual<std::option::Option<Infallible>>>::from_residual$", lambda e, m, a: ("None",)),
    (r"^core::num::<impl i64>::wrapping_neg$", ext_wrapping_neg),
    (r"^std::option::Option::<.*>::ok_or::<.*>$", ext_option_ok_or),
    (r"^std::result::Result::<.*>::map::<Value, fn\(\w+\) -> Value \{\w+::\w+\}>$", ext_result_map_ctor),
    (r"^<(i64|u64|f64|bool) as (?:std::convert::)?Into<Value>>::into$", ext_into_value),
    (r"^core::num::<impl i64>::unsigned_abs$", ext_unsigned_abs),
    (r"^std::option::Option::<.*>::map::<.*>$", ext_option_map),
    (r"^std::option::Option::<.*>::unwrap_or_else::<.*>$", ext_unwrap_or_else),
    (r"^<\[u8; \d+\] as IndexMut<RangeTo<usize>>>::index_mut$", ext_index_range_to),
    (r"^<\[u8\] as IndexMut<RangeTo<usize>>>::index_mut$", ext_index_range_to),
    (r"^<\[u8; \d+\] as Index<std::ops::RangeFrom<usize>>>::index$", ext_index_range_from),
    (r"^<std::ops::Range<usize> as IntoIterator>::into_iter$", ext_range_into_iter),
    (r"^<std::ops::Range<usize> as Iterator>::next$", ext_range_next),
    (r"^std::string::String::from_utf8_lossy$", ext_from_utf8_lossy),
    (r"^Cow::<'_, str>::into_owned$", ext_identity),
    (r"^<str as ToString>::to_string$", ext_str_to_string),
    (r"^std::option::Option::<.*>::ok_or::<.*>$", ext_generic_ok_or),
    (r"^std::result::Result::<.*>::map::<.*\{closure@.*\}>$", ext_res_map),
    (r"^(?:std::result::)?Result::<.*>::map::<.*fn\(.*\) -> .* \{.*\}>$", ext_res_map),
    (r"^std::result::Result::<.*>::map_err::<.*\{closure@.*\}>$", ext_res_map_err),
    # ---- general fallbacks (spec-local models are matched first)
    (r"^<(\{closure@[^}]*\}) as Fn(?:Mut|Once)?<\(.*\)>>::call(?:_mut|_once)?$", lambda e, m, a: e.call_fn(e.closure_fn(m.group(1)), [a[0]] + list(a[1]))),
    (r"^core::bool::<impl bool>::then::<.*>$", ext_bool_then),
    (r"^core::bool::<impl bool>::then_some::<.*>$", ext_bool_then_some),
    (r"^<(?:std::result::)?Result<.*> as Try>::branch$", ext_res_try_branch),
    (r"^<(?:std::result::)?Result<.*> as FromResidual<(?:std::result::)?Result<Infallible, .*>>>::from_residual$", lambda e, m, a: ("enum", "Result::Err", [a[0][2][0]])),
    (r"^<(?:i16|i32|i64|i128|u16|u32|u64|u128|usize|isize) as (?:std::convert::)?From<(?:i8|i16|i32|i64|u8|u16|u32|u64|bool)>>::from$", lambda e, m, a: (z3.If(a[0], 1, 0) if is_sym(a[0]) and z3.is_bool(a[0]) else (int(a[0]) if isinstance(a[0], bool) else a[0]))),
    (r"^<(?:i8|i16|i32|i64|u8|u16|u32|u64) as (?:std::convert::)?Into<(?:i16|i32|i64|i128|u16|u32|u64|u128)>>::into$", lambda e, m, a: a[0]),
    (r"^std::result::Result::<.*>::unwrap_or$", ext_res_unwrap_or),
    (r"^std::result::Result::<.*>::or::<.*>$", lambda e, m, a: a[0] if a[0][1].endswith("Ok") else a[1]),
    (r"^std::option::Option::<.*>::or$", lambda e, m, a: a[0] if a[0][0] == "Some" else a[1]),
    (r"^std::result::Result::<.*>::unwrap_or_else::<.*>$", lambda e, m, a: a[0][2][0] if a[0][1].endswith("Ok") else _closure_call(e, m, [a[0][2][0]], a[1])),
    (r"^std::result::Result::<.*>::or_else::<.*>$", lambda e, m, a: a[0] if a[0][1].endswith("Ok") else _closure_call(e, m, [a[0][2][0]], a[1])),
    (r"^std::option::Option::<.*>::or_else::<.*>$", lambda e, m, a: a[0] if a[0][0] == "Some" else _closure_call(e, m, [], a[1])),
    (r"^std::result::Result::<(\w+), .*>::unwrap_or_default$", ext_unwrap_or_default),
    (r"^std::option::Option::<(\w+)>::unwrap_or_default$", ext_unwrap_or_default),
    (r"^std::option::Option::<.*>::filter::<.*>$", ext_opt_filter),
    (r"^std::option::Option::<.*>::is_some_and::<.*>$", ext_opt_is_some_and),
    (r"^<(usize|u64|i64|u32|i32|u8|i128|u128) as TryFrom<(?:usize|u64|i64|u32|i32|u8|i128|u128)>>::try_from$", ext_int_try_from),
    (r"^core::num::<impl (usize|u64|i64|u32|i32|i128|u128)>::checked_(add|sub|mul)$", ext_int_checked),
]
