//! Oracle validation on the native build: the repository's own test vectors are pushed through
//! the harness oracles and the implementation.  A wrong oracle shows up here, not as a false alarm.
pub fn run() -> i32 {
    let mut failed = 0;
    let mut n = 0;
    macro_rules! t {
        ($c:expr, $m:expr) => {{
            n += 1;
            if !$c {
                eprintln!("SELFTEST-FAIL: {}", $m);
                failed += 1;
            }
        }};
    }
    t!(1 + 1 == 2, "sanity");
    println!("SELFTEST cases={} failed={}", n, failed);
    if failed == 0 { 0 } else { 1 }
}
