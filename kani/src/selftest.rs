//! Oracle validation on the native build: the repository's own test vectors (and a deterministic
//! sweep) are pushed through the harness oracles and the real implementation.  A wrong oracle
//! shows up here, not as a false alarm later.  Run by the driver before every check.
use crate::oracle;
use cel_interpreter::extractors::This;
use cel_interpreter::{functions, Context, FunctionContext, Value};
use std::cmp::Ordering;
use std::sync::Arc;

fn impl_duration_string(n: i64) -> String {
    let ctx = Context::empty();
    let ftx = FunctionContext::new(Arc::new(String::new()), None, &ctx, Vec::new());
    match functions::string(&ftx, This(Value::Duration(chrono::Duration::nanoseconds(n)))) {
        Ok(Value::String(s)) => s.to_string(),
        other => format!("<{:?}>", other),
    }
}
fn canon(text: &str, n: i64) -> bool {
    let mut buf = [0u8; 40];
    let b = text.as_bytes();
    if b.len() > 40 {
        return false;
    }
    buf[..b.len()].copy_from_slice(b);
    oracle::is_canonical_go_duration(&buf, b.len(), n)
}

pub fn run() -> i32 {
    let mut failed = 0;
    let mut n = 0;
    macro_rules! t {
        ($c:expr, $($m:tt)*) => {{
            n += 1;
            if !$c {
                eprintln!("SELFTEST-FAIL: {}", format!($($m)*));
                failed += 1;
            }
        }};
    }
    // ---- duration text: vectors of interpreter/src/duration.rs::test_format_durations
    let fmt: &[(i64, &str)] = &[
        (0, "0s"),
        (1, "1ns"),
        (1100, "1.1µs"),
        (2_200_000, "2.2ms"),
        (3_300_000_000, "3.3s"),
        (245_000_000_000, "4m5s"),
        (245_001_000_000, "4m5.001s"),
        (18_367_001_000_000, "5h6m7.001s"),
        (480_000_000_001, "8m0.000000001s"),
        (i64::MAX, "2562047h47m16.854775807s"),
        (i64::MIN, "-2562047h47m16.854775808s"),
        (3_600_000_000_000, "1h0m0s"),
        (-1_500_000, "-1.5ms"),
        (-2_000_000_000, "-2s"),
        (5_400_000_000_000, "1h30m0s"),
        (60_000_000_000, "1m0s"),
        (59_999_999_999, "59.999999999s"),
        (999, "999ns"),
        (-999_999_999, "-999.999999ms"),
    ];
    for (ns, text) in fmt {
        t!(canon(text, *ns), "canonical text {:?} for {} rejected by the oracle", text, ns);
        t!(oracle::read_go_duration(text.as_bytes()) == Some(*ns as i128), "reader on {:?}", text);
        let mut b = [0u8; 32];
        let w = oracle::go_duration_string(*ns, &mut b);
        t!(&b[w..] == text.as_bytes(), "reference model B on {} gives {:?}", ns, String::from_utf8_lossy(&b[w..]));
    }
    // non-canonical or wrong spellings must be rejected
    let bad: &[(i64, &str)] = &[
        (60_000_000_000, "60s"),
        (1_000_000_000, "01s"),
        (1_500_000_000, "1.50s"),
        (1_000_000_000, "1000ms"),
        (500_000_000, "0.5s"),
        (1_000_000_000, "1s "),
        (1_000_000_000, "1"),
        (3_600_000_000_000, "1h"),
        (3_600_000_000_000, "1h0s"),
        (3_600_000_000_000, "60m0s"),
        (-1_000_000_000, "1s"),
        (1_000_000_000, "-1s"),
        (1_000_000_000, "2s"),
        (1_100, "1.1us"),
        (0, "0ns"),
        (0, "-0s"),
        (1, "1.0ns"),
        (61_000_000_000, "1m1.s"),
        (1_000_000_000, "1s1s"),
        (9_000_000_000, "0m9s"),
    ];
    for (ns, text) in bad {
        t!(!canon(text, *ns), "non-canonical text {:?} for {} accepted by the oracle", text, ns);
    }
    // ---- oracle against the real formatter on a deterministic sweep (both signs)
    let mut x: u64 = 0x9E3779B97F4A7C15;
    let mut mism = 0;
    for k in 0..20000u64 {
        x ^= x << 13;
        x ^= x >> 7;
        x ^= x << 17;
        let shift = (k % 64) as u32;
        let v = (x >> shift) as i64;
        for ns in [v, v.wrapping_neg()] {
            // reference model B must satisfy the exact reader + canonicity oracle on every swept input
            let mut b = [0u8; 32];
            let w = oracle::go_duration_string(ns, &mut b);
            let txt = String::from_utf8_lossy(&b[w..]).to_string();
            t!(canon(&txt, ns) && oracle::read_go_duration(&b[w..]) == Some(ns as i128), "reference model B on {} gives non-canonical {:?}", ns, txt);
            let s = impl_duration_string(ns);
            if !canon(&s, ns) {
                mism += 1;
                if mism <= 3 {
                    eprintln!("SELFTEST-NOTE: string(duration {}ns) = {:?} is not the canonical text for that count", ns, s);
                }
            }
        }
    }
    // a mismatch here is a disagreement between implementation and oracle on concrete inputs; it
    // is reported, and decided by the Kani harnesses (c15_format_*), not silently trusted
    if mism > 0 {
        eprintln!("SELFTEST-NOTE: {} of 40000 swept durations disagree with the oracle", mism);
    }
    // ---- exact comparisons: vectors of objects.rs tests (test_float_compare & friends)
    t!(oracle::cmp_int_float(1, 1.0) == Some(Ordering::Equal), "1 == 1.0");
    t!(oracle::cmp_int_float(1, 1.5) == Some(Ordering::Less), "1 < 1.5");
    t!(oracle::cmp_int_float(-1, -1.5) == Some(Ordering::Greater), "-1 > -1.5");
    t!(oracle::cmp_int_float(i64::MAX, 9223372036854775808.0) == Some(Ordering::Less), "MAX < 2^63");
    t!(oracle::cmp_int_float(i64::MIN, -9223372036854775808.0) == Some(Ordering::Equal), "MIN == -2^63");
    t!(oracle::cmp_int_float((1 << 53) + 1, 9007199254740992.0) == Some(Ordering::Greater), "2^53+1 > 2^53");
    t!(oracle::cmp_uint_float(u64::MAX, 18446744073709551616.0) == Some(Ordering::Less), "u64::MAX < 2^64");
    t!(oracle::cmp_uint_float(0, -0.0) == Some(Ordering::Equal), "0 == -0.0");
    t!(oracle::cmp_uint_float(0, -0.5) == Some(Ordering::Greater), "0 > -0.5");
    t!(oracle::cmp_int_float(0, f64::NAN).is_none(), "NaN unordered");
    t!(oracle::cmp_int_uint(-1, 0) == Ordering::Less, "-1 < 0u");
    // ---- node-level reference semantics (native replay body of the MIR engine) against the real
    // evaluator: every operator x operand-result kinds, a few payloads; the only tolerated
    // disagreement is none
    #[cfg(not(kani))]
    {
        let payloads: [(i64, bool); 3] = [(0, false), (5, true), (-3, true)];
        let mut node_bad = 0;
        for op in (0..17u8).filter(|o| *o != 15) {
            for k0 in 0..5u8 {
                for k1 in 0..5u8 {
                    for k2 in [0u8, 2] {
                        for (pi, (p, b)) in payloads.iter().enumerate() {
                            let (q, c) = payloads[(pi + 1) % 3];
                            let vals: Vec<Vec<u8>> = vec![
                                vec![op], vec![k0], vec![k1], vec![k2],
                                p.to_le_bytes().to_vec(), q.to_le_bytes().to_vec(), 7i64.to_le_bytes().to_vec(),
                                vec![*b as u8], vec![c as u8], vec![1],
                                vec![(pi as u8 + k0) % 4], vec![(pi as u8 + k1 + 1) % 4], vec![(k2 + op) % 4],
                            ];
                            crate::sym::load(vals);
                            let r = std::panic::catch_unwind(|| crate::node::c06_node());
                            n += 1;
                            if r.is_err() {
                                node_bad += 1;
                                if node_bad <= 3 {
                                    eprintln!("SELFTEST-FAIL: node reference semantics disagrees with the evaluator: op={} kinds=({},{},{}) payloads=({},{})", op, k0, k1, k2, p, q);
                                }
                            }
                        }
                    }
                }
            }
        }
        failed += node_bad;
        // ---- C11 replay bodies against the real Context / comprehension evaluator
        let mut c11_bad = 0;
        for levels in 1..=3u8 {
            for m0 in 0..8u8 {
                for m1 in 0..8u8 {
                    for m2 in [0u8, 5, 7] {
                        crate::sym::load(vec![vec![levels], vec![m0], vec![m1], vec![m2]]);
                        n += 1;
                        if std::panic::catch_unwind(|| crate::node::c11_chain()).is_err() {
                            c11_bad += 1;
                        }
                    }
                }
            }
        }
        for nn in 0..=3u8 {
            for fail in 0..12u8 {
                for conds in 0..8u8 {
                    crate::sym::load(vec![vec![nn], vec![fail], vec![conds]]);
                    n += 1;
                    if std::panic::catch_unwind(|| crate::node::c11_fold()).is_err() {
                        c11_bad += 1;
                        if c11_bad <= 3 {
                            eprintln!("SELFTEST-FAIL: c11_fold reference trace disagrees with the evaluator: n={} fail={} conds={}", nn, fail, conds);
                        }
                    }
                }
            }
        }
        for t in 0..=6u8 {
            for k in 0..=5u8 {
                crate::sym::load(vec![vec![t], vec![k]]);
                n += 1;
                if std::panic::catch_unwind(|| crate::node::c20_conversion()).is_err() {
                    c11_bad += 1;
                    eprintln!("SELFTEST-FAIL: c20_conversion reference disagrees with the implementation: target={} kind={}", t, k);
                }
            }
        }
        for is_map in 0..2u8 {
            for nn in 0..=3u8 {
                for bad in [0u8, 1, 2, 3, 4, 5, 255] {
                    crate::sym::load(vec![vec![is_map], vec![nn], vec![bad]]);
                    n += 1;
                    if std::panic::catch_unwind(|| crate::node::c07_literal()).is_err() {
                        c11_bad += 1;
                        eprintln!("SELFTEST-FAIL: c07_literal reference disagrees with the evaluator: map={} n={} bad={}", is_map, nn, bad);
                    }
                }
            }
        }
        for mac in 0..=4u8 {
            for len in 1..=4u8 {
                for err_pos in 0..len {
                    for bits in 0..(1u8 << len) {
                        crate::sym::load(vec![vec![mac], vec![len], vec![err_pos], vec![bits]]);
                        n += 1;
                        if std::panic::catch_unwind(|| crate::node::c10_error_element()).is_err() {
                            c11_bad += 1;
                            eprintln!("SELFTEST-FAIL: c10_error_element: macro={} n={} failing={} bits={}", mac, len, err_pos, bits);
                        }
                    }
                }
            }
        }
        for mac in 0..=4u8 {
            for pred in 0..2u8 {
                for recv in 0..=4u8 {
                    crate::sym::load(vec![vec![mac], vec![pred], vec![recv]]);
                    n += 1;
                    if std::panic::catch_unwind(|| crate::node::c10_literal_predicate()).is_err() {
                        c11_bad += 1;
                        eprintln!("SELFTEST-FAIL: c10_literal_predicate: macro={} literal={} receiver={}", mac, pred, recv);
                    }
                }
            }
        }
        for mac in 0..=5u8 {
            for nn in 0..=3u8 {
                for bits in 0..8u8 {
                    crate::sym::load(vec![vec![mac], vec![nn], vec![bits]]);
                    n += 1;
                    if std::panic::catch_unwind(|| crate::node::c10_macro()).is_err() {
                        c11_bad += 1;
                        eprintln!("SELFTEST-FAIL: c10_macro reference disagrees with the evaluator: macro={} n={} bits={}", mac, nn, bits);
                    }
                }
            }
        }
        for pos in 0..=14u8 {
            crate::sym::load(vec![vec![pos]]);
            n += 1;
            if std::panic::catch_unwind(|| crate::node::c19_references()).is_err() {
                c11_bad += 1;
                eprintln!("SELFTEST-FAIL: c19_references disagrees with the implementation at position {}", pos);
            }
        }
        for test in 0..2u8 {
            for lk in 0..=5u8 {
                for cfg in 0..8u8 {
                    for hf in 0..2u8 {
                        crate::sym::load(vec![vec![test], vec![lk], vec![cfg], vec![hf]]);
                        n += 1;
                        if std::panic::catch_unwind(|| crate::node::c14_select()).is_err() {
                            c11_bad += 1;
                            eprintln!("SELFTEST-FAIL: c14_select reference disagrees with the evaluator: test={} kind={} map={} fn={}", test, lk, cfg, hf);
                        }
                    }
                }
            }
        }
        for op in 0..2u8 {
            for lk in 0..8u8 {
                for rk in 0..8u8 {
                    for (p0, p1) in [(0i64, 0i64), (1, 1), (2, 2), (-1, -1), (i64::MAX, i64::MAX), (0, 1), (1, 0), (i64::MIN, 3)] {
                        crate::sym::load(vec![vec![op], vec![lk], vec![rk], p0.to_le_bytes().to_vec(), p1.to_le_bytes().to_vec()]);
                        n += 1;
                        if std::panic::catch_unwind(|| crate::node::c14_access()).is_err() {
                            c11_bad += 1;
                            eprintln!("SELFTEST-FAIL: c14_access reference disagrees with the evaluator: op={} kinds=({},{}) payloads=({},{})", op, lk, rk, p0, p1);
                        }
                    }
                }
            }
        }
        for kind in 0..2u8 {
            for nl in 0..=3u8 {
                for nr in 0..=3u8 {
                    for bits in 0..18u8 {
                        let (alias, sl, sr) = (bits / 9, 1 + bits % 3, 1 + (bits / 3) % 3);
                        crate::sym::load(vec![vec![kind], vec![nl], vec![nr], vec![alias], vec![sl], vec![sr]]);
                        n += 1;
                        if std::panic::catch_unwind(|| crate::node::c14_concat()).is_err() {
                            c11_bad += 1;
                            eprintln!("SELFTEST-FAIL: c14_concat: kind={} lens=({},{}) alias={} counts=({},{})", kind, nl, nr, alias, sl, sr);
                        }
                    }
                }
            }
        }
        for shape in 0..=6u8 {
            for cfg in 0..7u8 {
                if (shape == 0 && cfg > 3) || (shape != 0 && shape != 4 && cfg > 0) {
                    continue;
                }
                for bad in [255u8, 0, 1, 2] {
                    crate::sym::load(vec![vec![shape], vec![cfg], vec![bad]]);
                    n += 1;
                    if std::panic::catch_unwind(|| crate::node::c17_compound()).is_err() {
                        c11_bad += 1;
                        eprintln!("SELFTEST-FAIL: c17_compound: shape={} cfg={} failing={}", shape, cfg, bad);
                    }
                }
            }
        }
        for (shape, top) in [(0u8, 3u8), (1, 12), (2, 6)] {
            for idx in 0..=top {
                for bad in [255u8, 0, 1, 2] {
                    crate::sym::load(vec![vec![shape], vec![idx], vec![bad]]);
                    n += 1;
                    if std::panic::catch_unwind(|| crate::node::c18_structure()).is_err() {
                        c11_bad += 1;
                        eprintln!("SELFTEST-FAIL: c18_structure: shape={} index={} failing={}", shape, idx, bad);
                    }
                }
            }
        }
        for op in 0..=12u8 {
            for ls in 0..3u8 {
                for rs in 0..3u8 {
                    crate::sym::load(vec![vec![op], vec![ls], vec![rs]]);
                    n += 1;
                    if std::panic::catch_unwind(|| crate::node::c04_binary()).is_err() {
                        c11_bad += 1;
                        eprintln!("SELFTEST-FAIL: c04_binary: op={} shapes=({},{})", op, ls, rs);
                    }
                }
            }
        }
        for op in 0..2u8 {
            for k in 1..=9u8 {
                for operand in 0..2u8 {
                    crate::sym::load(vec![vec![op], vec![k], vec![operand]]);
                    n += 1;
                    if std::panic::catch_unwind(|| crate::node::c04_prefix()).is_err() {
                        c11_bad += 1;
                        eprintln!("SELFTEST-FAIL: c04_prefix: op={} k={} operand={}", op, k, operand);
                    }
                }
            }
            for len in 1..=64u8 {
                crate::sym::load(vec![vec![op], vec![len]]);
                n += 1;
                if std::panic::catch_unwind(|| crate::node::c04_chain()).is_err() {
                    c11_bad += 1;
                    eprintln!("SELFTEST-FAIL: c04_chain: op={} n={}", op, len);
                }
            }
        }
        // C12: every quoting style x bodies outside the recorded findings
        for b in ["", "b", "B"] {
            for raw in ["", "r", "R"] {
                for q in ["'", "\"", "'''", "\"\"\""] {
                    let mut bodies: Vec<&str> = vec!["", "a", "é💖z", "a b"];
                    if raw.is_empty() {
                        bodies.extend(["\\n", "x\\ty", "\\x41", "\\X6a", "\\101", "\\377", "\\\\", "\\?", "\\`", "\\a\\b\\f\\r\\v"]);
                        if b.is_empty() {
                            bodies.extend(["\\u00e9", "\\U0001F600", "\\ud800", "\\U00110000"]);
                        } else {
                            bodies.extend(["\\u00e9", "\\'", "\\\""]);
                        }
                    } else {
                        bodies.extend(["\\n", "\\x41 \\q"]);
                    }
                    for body in bodies {
                        let text: Vec<char> = format!("{}{}{}{}{}", b, raw, q, body, q).chars().collect();
                        let mut vals = vec![vec![text.len() as u8]];
                        vals.extend(text.iter().map(|c| (*c as u32).to_le_bytes().to_vec()));
                        crate::sym::load(vals);
                        n += 1;
                        if std::panic::catch_unwind(|| crate::node::c12_literal()).is_err() {
                            c11_bad += 1;
                            eprintln!("SELFTEST-FAIL: c12_literal: {}", text.iter().collect::<String>());
                        }
                    }
                }
            }
        }
        for code in 0..8u8 {
            crate::sym::load(vec![vec![code]]);
            n += 1;
            if std::panic::catch_unwind(|| crate::node::c13_double_literal()).is_err() {
                c11_bad += 1;
                eprintln!("SELFTEST-FAIL: c13_double_literal: case {}", code);
            }
        }
        for kind in 0..=2u8 {
            for bits in [0u64, 1, u64::MAX, 1 << 63, (1 << 63) - 1, 1 << 53, (1 << 53) + 1, 0x43E0000000000000, 0x4340000000000001, 0x8000000000000000, 0x3FF8000000000000,
                         0x7FF0000000000000, 0xFFF0000000000000, 0x7FF8000000000000, 0x0000000000000001, 0x7FEFFFFFFFFFFFFF, 0xC3E0000000000001, 0x4415AF1D78B58C40] {
                crate::sym::load(vec![vec![kind], bits.to_le_bytes().to_vec()]);
                n += 1;
                if std::panic::catch_unwind(|| crate::node::c13_string_roundtrip()).is_err() {
                    c11_bad += 1;
                    eprintln!("SELFTEST-FAIL: c13_string_roundtrip: kind={} bits={:#x}", kind, bits);
                }
            }
        }
        for method in 0..2u8 {
            for neg in 0..(2 - method) {
                for hex in 0..2u8 {
                    for mag in [0u128, 1, 16, 255, (1 << 63) - 1, 1 << 63, (1 << 63) + 1, (1 << 64) - 1, 1 << 64, 1 << 90] {
                        crate::sym::load(vec![vec![method], vec![neg], vec![hex], mag.to_le_bytes().to_vec()]);
                        n += 1;
                        if std::panic::catch_unwind(|| crate::node::c13_literal()).is_err() {
                            c11_bad += 1;
                            eprintln!("SELFTEST-FAIL: c13_literal: method={} neg={} hex={} magnitude={}", method, neg, hex, mag);
                        }
                    }
                }
            }
        }
        // the repository's own duration vectors (duration.rs / functions.rs tests) through the parse-half replay body
        for text in ["1s", "-1s", "1.1s", "1.5m", "1m1s", "1h1m1s", "1ms", "1us", "1ns", "1.1ns", "1.123us", "0s", "0h0m0s", "0h0m1s", "1000ms", "60s", "60m", "24h", "1h30m", "59m", "1h1m"] {
            let mut v = vec![vec![text.len() as u8]];
            v.extend(text.bytes().map(|b| vec![b]));
            crate::sym::load(v);
            n += 1;
            if std::panic::catch_unwind(|| crate::node::c15_parse()).is_err() {
                c11_bad += 1;
                eprintln!("SELFTEST-FAIL: c15_parse: the reference reader disagrees with duration({:?})", text);
            }
        }
        for test in 0..2u8 {
            for depth in 1..=6u8 {
                crate::sym::load(vec![vec![test], vec![depth]]);
                n += 1;
                if std::panic::catch_unwind(|| crate::node::c07_select_chain()).is_err() {
                    c11_bad += 1;
                    eprintln!("SELFTEST-FAIL: c07_select_chain: test={} depth={}", test, depth);
                }
            }
        }
        for mac in 0..5u8 {
            for recv in 0..4u8 {
                for body in 0..8u8 {
                    if recv == 2 && body == 3 {
                        continue;
                    }
                    crate::sym::load(vec![vec![mac], vec![recv], vec![body]]);
                    n += 1;
                    if std::panic::catch_unwind(|| crate::node::c10_body_over_variable()).is_err() {
                        c11_bad += 1;
                        eprintln!("SELFTEST-FAIL: c10_body_over_variable: macro={} receiver={} body={}", mac, recv, body);
                    }
                }
            }
        }
        for f in [0.0f64, -0.0, 1.5, -2.25, f64::INFINITY, f64::NEG_INFINITY, f64::NAN, f64::MIN_POSITIVE, f64::MAX] {
            crate::sym::load(vec![f.to_bits().to_le_bytes().to_vec()]);
            n += 1;
            if std::panic::catch_unwind(|| crate::node::c08_unary_minus_float()).is_err() {
                c11_bad += 1;
                eprintln!("SELFTEST-FAIL: c08_unary_minus_float: {:?}", f);
            }
        }
        for mac in 0..5u8 {
            for len in 1..=4u8 {
                crate::sym::load(vec![vec![mac], vec![len]]);
                n += 1;
                if std::panic::catch_unwind(|| crate::node::c07_macro_over_literal()).is_err() {
                    c11_bad += 1;
                    eprintln!("SELFTEST-FAIL: c07_macro_over_literal: macro={} n={}", mac, len);
                }
            }
        }
        for case in 0..=9u8 {
            crate::sym::load(vec![vec![case]]);
            n += 1;
            if std::panic::catch_unwind(|| crate::node::c20_extractor_combos()).is_err() {
                c11_bad += 1;
                eprintln!("SELFTEST-FAIL: c20_extractor_combos: case {}", case);
            }
        }
        for outer in 0..2u8 {
            for inner in 0..2u8 {
                for var in 0..5u8 {
                    if var == 3 && inner == 0 {
                        continue;
                    }
                    crate::sym::load(vec![vec![outer], vec![inner], vec![var]]);
                    n += 1;
                    if std::panic::catch_unwind(|| crate::node::c04_nested_prefix()).is_err() {
                        c11_bad += 1;
                        eprintln!("SELFTEST-FAIL: c04_nested_prefix: outer={} inner={} var={}", outer, inner, var);
                    }
                }
            }
        }
        for case in 0..=9u8 {
            crate::sym::load(vec![vec![case]]);
            n += 1;
            if std::panic::catch_unwind(|| crate::node::c06_skipped_undeclared()).is_err() {
                c11_bad += 1;
                eprintln!("SELFTEST-FAIL: c06_skipped_undeclared: case {}", case);
            }
        }
        for case in 0..=15u8 {
            crate::sym::load(vec![vec![case]]);
            n += 1;
            if std::panic::catch_unwind(|| crate::node::c04_macro_lookup()).is_err() {
                c11_bad += 1;
                eprintln!("SELFTEST-FAIL: c04_macro_lookup: case {}", case);
            }
        }
        for case in 0..=7u8 {
            crate::sym::load(vec![vec![case]]);
            n += 1;
            if std::panic::catch_unwind(|| crate::node::c17_special_members()).is_err() {
                c11_bad += 1;
                eprintln!("SELFTEST-FAIL: c17_special_members: case {}", case);
            }
        }
        for shape in 0..4u8 {
            for payload in 0..2u8 {
                for via in 0..3u8 {
                    crate::sym::load(vec![vec![shape], vec![payload], vec![via]]);
                    n += 1;
                    if std::panic::catch_unwind(|| crate::node::c09_container_self_equality()).is_err() {
                        c11_bad += 1;
                        eprintln!("SELFTEST-FAIL: c09_container_self_equality: shape={} payload={} via={}", shape, payload, via);
                    }
                }
            }
        }
        for which in 0..2u8 {
            for form in 0..2u8 {
                for count in 1..=4u8 {
                    for perm in 0..24u8 {
                        crate::sym::load(vec![vec![which], vec![form], vec![count], vec![perm]]);
                        n += 1;
                        if std::panic::catch_unwind(|| crate::node::c09_min_max()).is_err() {
                            c11_bad += 1;
                            eprintln!("SELFTEST-FAIL: c09_min_max: which={} form={} count={} perm={}", which, form, count, perm);
                        }
                    }
                }
            }
        }
        for case in 0..=5u8 {
            for a in 0..4u8 {
                for b in 0..4u8 {
                    crate::sym::load(vec![vec![case], vec![a], vec![b]]);
                    n += 1;
                    if std::panic::catch_unwind(|| crate::node::c14_size_affixes()).is_err() {
                        c11_bad += 1;
                        eprintln!("SELFTEST-FAIL: c14_size_affixes: case={} a={} b={}", case, a, b);
                    }
                }
            }
        }
        for case in 0..=8u8 {
            for bits in 0..8u8 {
                crate::sym::load(vec![vec![case], vec![bits]]);
                n += 1;
                if std::panic::catch_unwind(|| crate::node::c06_nested_operators()).is_err() {
                    c11_bad += 1;
                    eprintln!("SELFTEST-FAIL: c06_nested_operators: case={} bits={}", case, bits);
                }
            }
        }
        for case in 0..=2u8 {
            crate::sym::load(vec![vec![case]]);
            n += 1;
            if std::panic::catch_unwind(|| crate::node::c07_method_too_few_arguments()).is_err() {
                c11_bad += 1;
                eprintln!("SELFTEST-FAIL: c07_method_too_few_arguments: case {}", case);
            }
        }
        for op in 0..2u8 {
            for case in 0..=5u8 {
                crate::sym::load(vec![vec![op], vec![case]]);
                n += 1;
                if std::panic::catch_unwind(|| crate::node::c04_grouped_chain()).is_err() {
                    c11_bad += 1;
                    eprintln!("SELFTEST-FAIL: c04_grouped_chain: op={} case={}", op, case);
                }
            }
        }
        for case in 0..=9u8 {
            crate::sym::load(vec![vec![case]]);
            n += 1;
            if std::panic::catch_unwind(|| crate::node::c20_builtin_override()).is_err() {
                c11_bad += 1;
                eprintln!("SELFTEST-FAIL: c20_builtin_override: case {}", case);
            }
        }
        for case in 0..=3u8 {
            crate::sym::load(vec![vec![case]]);
            n += 1;
            if std::panic::catch_unwind(|| crate::node::c10_map_filter_order()).is_err() {
                c11_bad += 1;
                eprintln!("SELFTEST-FAIL: c10_map_filter_order: case {}", case);
            }
        }
        for code in 0..=5u8 {
            crate::sym::load(vec![vec![code]]);
            n += 1;
            if std::panic::catch_unwind(|| crate::node::c02_unsupported_nodes()).is_err() {
                c11_bad += 1;
                eprintln!("SELFTEST-FAIL: c02_unsupported_nodes: program {} is not an execution error", code);
            }
        }
        // call nodes
        for nargs in 0..=3u8 {
            for bits in 0..8u8 {
                for name in [0u8, 1, 3] {
                    if name == 3 && bits & 1 == 1 {
                        continue;
                    }
                    crate::sym::load(vec![vec![nargs], vec![bits & 1], vec![(bits >> 1) & 1], vec![(bits >> 2) & 1], vec![name]]);
                    n += 1;
                    if std::panic::catch_unwind(|| crate::node::c07_call()).is_err() {
                        c11_bad += 1;
                        eprintln!("SELFTEST-FAIL: c07_call reference disagrees with the evaluator: nargs={} bits={} name={}", nargs, bits, name);
                    }
                }
            }
        }
        failed += c11_bad;
    }
    println!("SELFTEST cases={} failed={} sweep_mismatches={}", n, failed, mism);
    if failed == 0 {
        0
    } else {
        1
    }
}
