//! C14 — map lookups agree on int/uint twins (map half).
//! Encoded: `Map::get` (objects.rs), `functions::contains` on `Value::Map`, over the cfg(kani)
//! association-list map (hook H1; std's HashMap cannot be executed symbolically).  The native
//! replay build runs the same harness against the real std HashMap.
use crate::sym::{self, any, forget};
use crate::{check, cover};
use cel_interpreter::extractors::This;
use cel_interpreter::objects::{Key, Map};
use cel_interpreter::{functions, Value};
use std::sync::Arc;

#[cfg(kani)]
use cel_interpreter::verif_map::HashMap;
#[cfg(not(kani))]
use std::collections::HashMap;

/// key kinds: 0 int, 1 uint, 2 bool
fn key(kind: u8, bits: u64) -> Key {
    match kind {
        0 => Key::Int(bits as i64),
        1 => Key::Uint(bits),
        _ => Key::Bool(bits & 1 == 1),
    }
}
fn key_value(kind: u8, bits: u64) -> Value {
    match kind {
        0 => Value::Int(bits as i64),
        1 => Value::UInt(bits),
        _ => Value::Bool(bits & 1 == 1),
    }
}
/// do two keys denote the same CEL key?  numerically equal int and uint are one key; a bool never
/// matches a number
fn same_key(ka: u8, a: u64, kb: u8, b: u64) -> bool {
    match (ka, kb) {
        (0, 0) => a as i64 == b as i64,
        (1, 1) => a == b,
        (0, 1) => (a as i64) >= 0 && a == b,
        (1, 0) => (b as i64) >= 0 && a == b,
        (2, 2) => (a & 1) == (b & 1),
        _ => false,
    }
}

/// one-entry map {k: 7}, queried with key q of every kind (kinds enumerated, payloads symbolic)
fn one_entry(kk: u8, kq: u8) {
    let (kb, qb): (u64, u64) = (any(), any());
    let mut m: HashMap<Key, Value> = HashMap::new();
    m.insert(key(kk, kb), Value::Int(7));
    let map = Map { map: Arc::new(m) };
    let present = same_key(kk, kb, kq, qb);
    cover!(present, "query key present reachable");
    cover!(!present, "query key absent reachable");
    cover!(present || kk == kq, "int/uint twin of the stored key reachable (when kinds differ)");
    let got = map.get(&key(kq, qb)).is_some();
    check!(got == present, "m[k] finds an entry iff some stored key denotes the same CEL key (int/uint twins are one key)");
    let c = functions::contains(This(Value::Map(map.clone())), key_value(kq, qb));
    check!(matches!(&c, Ok(Value::Bool(b)) if *b == present), "m.contains(k) agrees with m[k] on whether k is present");
    forget(c);
    forget(map);
}
pub fn c14_int_key_int_query() {
    one_entry(0, 0)
}
pub fn c14_int_key_uint_query() {
    one_entry(0, 1)
}
pub fn c14_uint_key_int_query() {
    one_entry(1, 0)
}
pub fn c14_uint_key_uint_query() {
    one_entry(1, 1)
}
pub fn c14_bool_vs_numbers() {
    // bool never matches a number, numbers never match a bool
    let (kb, qb): (u64, u64) = (any(), any());
    let mut m: HashMap<Key, Value> = HashMap::new();
    m.insert(key(2, kb), Value::Int(7));
    let map = Map { map: Arc::new(m) };
    check!(map.get(&key(0, qb)).is_none() && map.get(&key(1, qb)).is_none(), "a number never finds a bool key");
    check!(map.get(&key(2, qb)).is_some() == ((kb & 1) == (qb & 1)), "bool keys match by value");
    let c = functions::contains(This(Value::Map(map.clone())), key_value(0, qb));
    check!(matches!(&c, Ok(Value::Bool(false))), "contains(int) on a bool-keyed map is false");
    cover!(qb == 1 && (kb & 1) == 1, "int 1 against key true reachable");
    forget(c);
    forget(map);
}

crate::harnesses! {
    #[kani::unwind(3)] c14_int_key_int_query: "quick", "Map::get, functions::contains on Value::Map (hook H1 map model)", "map {int k: 7}, query int q; k, q: all i64";
    #[kani::unwind(3)] c14_int_key_uint_query: "quick", "Map::get, functions::contains on Value::Map (hook H1 map model)", "map {int k: 7}, query uint q; all 64-bit payloads";
    #[kani::unwind(3)] c14_uint_key_int_query: "quick", "Map::get, functions::contains on Value::Map (hook H1 map model)", "map {uint k: 7}, query int q; all 64-bit payloads";
    #[kani::unwind(3)] c14_uint_key_uint_query: "quick", "Map::get, functions::contains on Value::Map (hook H1 map model)", "map {uint k: 7}, query uint q; all u64";
    #[kani::unwind(3)] c14_bool_vs_numbers: "quick", "Map::get, functions::contains on Value::Map (hook H1 map model)", "map {bool k: 7}, queries of every kind";
}
