//! C08 — 64-bit integer arithmetic is exact or reports overflow.
//! Encoded: `impl Add/Sub/Mul/Div/Rem for Value` (interpreter/src/objects.rs).
use crate::sym::{self, any, forget};
use crate::{check, cover};
use cel_interpreter::{ExecutionError, Value};

fn is_overflow(r: &Result<Value, ExecutionError>) -> bool {
    matches!(r, Err(ExecutionError::IntegerOverflow(..)))
}
fn as_int(r: &Result<Value, ExecutionError>) -> Option<i64> {
    match r {
        Ok(Value::Int(v)) => Some(*v),
        _ => None,
    }
}
fn as_uint(r: &Result<Value, ExecutionError>) -> Option<u64> {
    match r {
        Ok(Value::UInt(v)) => Some(*v),
        _ => None,
    }
}

/// exact-or-overflow against a wide oracle
fn judge_int(r: &Result<Value, ExecutionError>, exact: i128) {
    let fits = exact >= i64::MIN as i128 && exact <= i64::MAX as i128;
    if fits {
        check!(as_int(r) == Some(exact as i64), "int result is the exact value when representable");
    } else {
        check!(is_overflow(r), "int result out of range is IntegerOverflow");
    }
    cover!(fits, "representable result reachable");
    cover!(!fits, "overflow reachable");
}
fn judge_uint(r: &Result<Value, ExecutionError>, exact: i128) {
    let fits = exact >= 0 && exact <= u64::MAX as i128;
    if fits {
        check!(as_uint(r) == Some(exact as u64), "uint result is the exact value when representable");
    } else {
        check!(is_overflow(r), "uint result out of range is IntegerOverflow");
    }
    cover!(fits, "representable result reachable");
    cover!(!fits, "overflow reachable");
}

pub fn c08_int_add() {
    let (a, b): (i64, i64) = (any(), any());
    let r = Value::Int(a) + Value::Int(b);
    judge_int(&r, a as i128 + b as i128);
    forget(r);
}
pub fn c08_int_sub() {
    let (a, b): (i64, i64) = (any(), any());
    let r = Value::Int(a) - Value::Int(b);
    judge_int(&r, a as i128 - b as i128);
    forget(r);
}
pub fn c08_int_mul() {
    let (a, b): (i64, i64) = (any(), any());
    let r = Value::Int(a) * Value::Int(b);
    judge_int(&r, a as i128 * b as i128);
    forget(r);
}
/// same as `c08_int_mul` with one factor below 2^32 in magnitude (quick tier)
pub fn c08_int_mul_half() {
    let (a, b): (i64, i64) = (any(), any());
    sym::assume(b > -(1 << 32) && b < (1 << 32));
    let r = Value::Int(a) * Value::Int(b);
    judge_int(&r, a as i128 * b as i128);
    forget(r);
}
pub fn c08_uint_add() {
    let (a, b): (u64, u64) = (any(), any());
    let r = Value::UInt(a) + Value::UInt(b);
    judge_uint(&r, a as i128 + b as i128);
    forget(r);
}
pub fn c08_uint_sub() {
    let (a, b): (u64, u64) = (any(), any());
    let r = Value::UInt(a) - Value::UInt(b);
    judge_uint(&r, a as i128 - b as i128);
    forget(r);
}
pub fn c08_uint_mul() {
    let (a, b): (u64, u64) = (any(), any());
    let r = Value::UInt(a) * Value::UInt(b);
    // u64*u64 needs 128 unsigned bits: use u128 and compare against the bound there
    let exact = a as u128 * b as u128;
    let fits = exact <= u64::MAX as u128;
    if fits {
        check!(as_uint(&r) == Some(exact as u64), "uint product is exact when representable");
    } else {
        check!(is_overflow(&r), "uint product out of range is IntegerOverflow");
    }
    cover!(fits, "representable result reachable");
    cover!(!fits, "overflow reachable");
    forget(r);
}

/// Division and remainder: classification over the full width.  The quotient/remainder values are
/// compared with the machine's truncating division (CBMC's signed division == Rust's; the
/// algebraic law is checked separately at reduced width in `c08_int_divrem_law`).
pub fn c08_int_div_class() {
    let (a, b): (i64, i64) = (any(), any());
    let r = Value::Int(a) / Value::Int(b);
    if b == 0 {
        check!(matches!(r, Err(ExecutionError::DivisionByZero(_))), "int / 0 is DivisionByZero");
    } else if a == i64::MIN && b == -1 {
        check!(is_overflow(&r), "MIN / -1 is IntegerOverflow");
    } else {
        check!(as_int(&r).is_some(), "int quotient is defined for every other pair");
    }
    cover!(b == 0, "zero divisor reachable");
    cover!(a == i64::MIN && b == -1, "MIN/-1 reachable");
    cover!(b != 0 && as_int(&r).is_some(), "ordinary quotient reachable");
    forget(r);
}
pub fn c08_int_rem_class() {
    let (a, b): (i64, i64) = (any(), any());
    let r = Value::Int(a) % Value::Int(b);
    if b == 0 {
        check!(matches!(r, Err(ExecutionError::RemainderByZero(_))), "int % 0 is RemainderByZero");
    } else if a == i64::MIN && b == -1 {
        check!(is_overflow(&r), "MIN % -1 is IntegerOverflow (as in cel-go)");
    } else {
        check!(as_int(&r).is_some(), "int remainder is defined for every other pair");
    }
    cover!(b == 0, "zero divisor reachable");
    cover!(a == i64::MIN && b == -1, "MIN%-1 reachable");
    cover!(b != 0 && as_int(&r).is_some(), "ordinary remainder reachable");
    forget(r);
}
pub fn c08_uint_divrem_class() {
    let (a, b): (u64, u64) = (any(), any());
    let q = Value::UInt(a) / Value::UInt(b);
    let m = Value::UInt(a) % Value::UInt(b);
    if b == 0 {
        check!(matches!(q, Err(ExecutionError::DivisionByZero(_))), "uint / 0 is DivisionByZero");
        check!(matches!(m, Err(ExecutionError::RemainderByZero(_))), "uint % 0 is RemainderByZero");
    } else {
        check!(as_uint(&q).is_some(), "uint quotient defined");
        check!(as_uint(&m).is_some(), "uint remainder defined");
    }
    cover!(b == 0, "zero divisor reachable");
    cover!(b != 0, "non-zero divisor reachable");
    forget(q);
    forget(m);
}

/// Quotient and remainder *values*.  CBMC encodes a 64-bit division as a multiplier circuit, and a
/// query that relates two symbolic 64x64 divisions does not finish; the value checks therefore run
/// (1) with one operand drawn from a concrete boundary list and the other fully symbolic, and
/// (2) with both operands symbolic at reduced magnitude, where the algebraic law
/// (a/b)*b + a%b == a, sign(a%b) in {0, sign a}, |a%b| < |b| (which determines both results
/// uniquely) is asserted as well.
pub const DIVISORS: [i64; 8] = [1, -1, 2, -3, 10, 1 << 32, i64::MAX, i64::MIN];
pub const DIVISORS_T: [i64; 8] = [7, -7, 60, -1_000_000_007, (1 << 31) - 1, -(1 << 31), 1 << 62, i64::MIN + 1];
pub const DIVIDENDS: [i64; 8] = [0, 1, -1, i64::MAX, i64::MIN, i64::MIN + 1, 1 << 53, -1_000_000_000_000];
pub const UDIVISORS: [u64; 6] = [1, 2, 3, 10, 1 << 63, u64::MAX];

fn int_divrem_values(a: i64, b: i64) {
    if b == 0 || (a == i64::MIN && b == -1) {
        return;
    }
    let q = Value::Int(a) / Value::Int(b);
    let m = Value::Int(a) % Value::Int(b);
    check!(as_int(&q) == Some(a.wrapping_div(b)), "int quotient is the truncated machine quotient");
    check!(as_int(&m) == Some(a.wrapping_rem(b)), "int remainder is the truncated machine remainder");
    forget(q);
    forget(m);
}
pub fn c08_int_divrem_const_divisor() {
    let a: i64 = any();
    let mut i = 0;
    while i < DIVISORS.len() {
        int_divrem_values(a, DIVISORS[i]);
        i += 1;
    }
    cover!(a < 0, "negative dividend reachable");
}
pub fn c08_int_divrem_const_divisor2() {
    let a: i64 = any();
    let mut i = 0;
    while i < DIVISORS_T.len() {
        int_divrem_values(a, DIVISORS_T[i]);
        i += 1;
    }
    cover!(a < 0, "negative dividend reachable");
}
pub fn c08_int_divrem_const_dividend() {
    let b: i64 = any();
    let mut i = 0;
    while i < DIVIDENDS.len() {
        int_divrem_values(DIVIDENDS[i], b);
        i += 1;
    }
    cover!(b < 0, "negative divisor reachable");
}
pub fn c08_uint_divrem_const_divisor() {
    let a: u64 = any();
    let mut i = 0;
    while i < UDIVISORS.len() {
        let b = UDIVISORS[i];
        let q = Value::UInt(a) / Value::UInt(b);
        let m = Value::UInt(a) % Value::UInt(b);
        check!(as_uint(&q) == Some(a / b), "uint quotient is the machine quotient");
        check!(as_uint(&m) == Some(a % b), "uint remainder is the machine remainder");
        forget(q);
        forget(m);
        i += 1;
    }
    cover!(a > (1 << 63), "dividend above i64::MAX reachable");
}

fn divrem_law(a: i64, b: i64) {
    let q = Value::Int(a) / Value::Int(b);
    let m = Value::Int(a) % Value::Int(b);
    if b != 0 {
        let (q, m) = match (as_int(&q), as_int(&m)) {
            (Some(q), Some(m)) => (q, m),
            _ => {
                check!(false, "in-range division and remainder are both defined");
                return;
            }
        };
        // operands are bounded by the caller so that none of this wraps
        check!(q.wrapping_mul(b).wrapping_add(m) == a, "(a/b)*b + a%b == a");
        check!(m == 0 || (m < 0) == (a < 0), "remainder takes the sign of the dividend");
        check!(m.wrapping_abs() < b.wrapping_abs(), "|a%b| < |b|");
        cover!(m != 0 && a < 0, "negative dividend with non-zero remainder");
        cover!(m != 0 && b < 0, "negative divisor with non-zero remainder");
    }
    forget(q);
    forget(m);
}
pub fn c08_int_divrem_law() {
    let (a, b): (i64, i64) = (any(), any());
    sym::assume(a > -(1 << 16) && a < (1 << 16));
    sym::assume(b > -(1 << 8) && b < (1 << 8));
    divrem_law(a, b);
}
pub fn c08_int_divrem_law_wide() {
    let (a, b): (i64, i64) = (any(), any());
    sym::assume(a > -(1 << 24) && a < (1 << 24));
    sym::assume(b > -(1 << 12) && b < (1 << 12));
    divrem_law(a, b);
}

fn num(kind: u8, bits: u64) -> Value {
    match kind {
        0 => Value::Int(bits as i64),
        1 => Value::UInt(bits),
        _ => Value::Float(f64::from_bits(bits)),
    }
}
/// Mixing int, uint and double operands in arithmetic is an error, not a coercion.
/// Kinds and operator are concrete (6 ordered mixed pairs, enumerated; one harness per operator),
/// payloads symbolic.
fn mixed_kinds(op: u8) {
    let (x, y): (u64, u64) = (any(), any());
    let mut ka = 0u8;
    while ka < 3 {
        let mut kb = 0u8;
        while kb < 3 {
            if ka != kb {
                let (l, r) = (num(ka, x), num(kb, y));
                let res = match op {
                    0 => l + r,
                    1 => l - r,
                    2 => l * r,
                    3 => l / r,
                    _ => l % r,
                };
                check!(
                    matches!(res, Err(ExecutionError::UnsupportedBinaryOperator(..))),
                    "mixed numeric kinds are rejected"
                );
                forget(res);
            }
            kb += 1;
        }
        ka += 1;
    }
    cover!(x == 0 && y == u64::MAX, "payload extremes reachable");
}
pub fn c08_mixed_add() {
    mixed_kinds(0)
}
pub fn c08_mixed_sub() {
    mixed_kinds(1)
}
pub fn c08_mixed_mul() {
    mixed_kinds(2)
}
pub fn c08_mixed_div() {
    mixed_kinds(3)
}
pub fn c08_mixed_rem() {
    mixed_kinds(4)
}

/// |a|,|b| >= 2^32: the product always overflows (complements the two `*_half` harnesses, which
/// together with this one cover all of i64 x i64)
pub fn c08_int_mul_big() {
    let (a, b): (i64, i64) = (any(), any());
    sym::assume(a <= -(1 << 32) || a >= (1 << 32));
    sym::assume(b <= -(1 << 32) || b >= (1 << 32));
    let r = Value::Int(a) * Value::Int(b);
    check!(is_overflow(&r), "product of two factors of magnitude >= 2^32 is IntegerOverflow");
    cover!(a < 0 && b > 0, "mixed signs reachable");
    forget(r);
}
pub fn c08_int_mul_half2() {
    let (a, b): (i64, i64) = (any(), any());
    sym::assume(a > -(1 << 32) && a < (1 << 32));
    let r = Value::Int(a) * Value::Int(b);
    judge_int(&r, a as i128 * b as i128);
    forget(r);
}

crate::harnesses! {
    #[kani::unwind(2)] c08_int_add: "quick", "<Value as Add>::add (Int,Int)", "a,b: all i64; oracle i128";
    #[kani::unwind(2)] c08_int_sub: "quick", "<Value as Sub>::sub (Int,Int)", "a,b: all i64; oracle i128";
    #[kani::unwind(2)] c08_int_mul: "thorough", "<Value as Mul>::mul (Int,Int)", "a,b: all i64; oracle i128";
    #[kani::unwind(2)] c08_int_mul_half: "quick", "<Value as Mul>::mul (Int,Int)", "a: all i64, |b| < 2^32; oracle i128";
    #[kani::unwind(2)] c08_int_mul_half2: "quick", "<Value as Mul>::mul (Int,Int)", "|a| < 2^32, b: all i64; oracle i128";
    #[kani::unwind(2)] c08_int_mul_big: "quick", "<Value as Mul>::mul (Int,Int)", "|a| >= 2^32 and |b| >= 2^32: always overflow";
    #[kani::unwind(2)] c08_uint_add: "quick", "<Value as Add>::add (UInt,UInt)", "a,b: all u64; oracle i128";
    #[kani::unwind(2)] c08_uint_sub: "quick", "<Value as Sub>::sub (UInt,UInt)", "a,b: all u64; oracle i128";
    #[kani::unwind(2)] c08_uint_mul: "quick", "<Value as Mul>::mul (UInt,UInt)", "a,b: all u64; oracle u128";
    #[kani::unwind(2)] c08_int_div_class: "quick", "<Value as Div>::div (Int,Int)", "a,b: all i64; which of Ok / DivisionByZero / IntegerOverflow";
    #[kani::unwind(2)] c08_int_rem_class: "quick", "<Value as Rem>::rem (Int,Int)", "a,b: all i64; which of Ok / RemainderByZero / IntegerOverflow";
    #[kani::unwind(2)] c08_uint_divrem_class: "quick", "<Value as Div>::div, <Value as Rem>::rem (UInt,UInt)", "a,b: all u64; Ok / DivisionByZero / RemainderByZero";
    #[kani::unwind(10)] c08_int_divrem_const_divisor: "quick", "<Value as Div>::div, <Value as Rem>::rem (Int,Int)", "a: all i64; b in {1,-1,2,-3,10,2^32,MAX,MIN}; values vs machine division";
    #[kani::unwind(10)] c08_int_divrem_const_divisor2: "off", "<Value as Div>::div, <Value as Rem>::rem (Int,Int)", "a: all i64; b in {7,-7,60,-1000000007,2^31-1,-2^31,2^62,MIN+1}";
    #[kani::unwind(10)] c08_int_divrem_const_dividend: "off", "<Value as Div>::div, <Value as Rem>::rem (Int,Int)", "b: all i64; a in {0,1,-1,MAX,MIN,MIN+1,2^53,-10^12}";
    #[kani::unwind(8)] c08_uint_divrem_const_divisor: "quick", "<Value as Div>::div, <Value as Rem>::rem (UInt,UInt)", "a: all u64; b in {1,2,3,10,2^63,MAX}";
    #[kani::unwind(2)] c08_int_divrem_law: "quick", "<Value as Div>::div, <Value as Rem>::rem (Int,Int)", "|a| < 2^16, |b| < 2^8; law (a/b)*b+a%b==a, sign, magnitude";
    #[kani::unwind(2)] c08_int_divrem_law_wide: "off", "<Value as Div>::div, <Value as Rem>::rem (Int,Int)", "|a| < 2^24, |b| < 2^12; same law";
    #[kani::unwind(5)] c08_mixed_add: "quick", "<Value as Add>::add on mixed Int/UInt/Float pairs", "6 ordered mixed kind pairs (enumerated concretely); payloads: all 64-bit patterns";
    #[kani::unwind(5)] c08_mixed_sub: "quick", "<Value as Sub>::sub on mixed Int/UInt/Float pairs", "6 ordered mixed kind pairs; payloads: all 64-bit patterns";
    #[kani::unwind(5)] c08_mixed_mul: "quick", "<Value as Mul>::mul on mixed Int/UInt/Float pairs", "6 ordered mixed kind pairs; payloads: all 64-bit patterns";
    #[kani::unwind(5)] c08_mixed_div: "quick", "<Value as Div>::div on mixed Int/UInt/Float pairs", "6 ordered mixed kind pairs; payloads: all 64-bit patterns";
    #[kani::unwind(5)] c08_mixed_rem: "quick", "<Value as Rem>::rem on mixed Int/UInt/Float pairs", "6 ordered mixed kind pairs; payloads: all 64-bit patterns";
}
