//! C18 — exporting a CEL value to JSON is total and faithful (scalar half).
//! Encoded: `Value::json` (interpreter/src/json.rs), re-import through `to_value`.
use crate::sym::{self, any, forget};
use crate::{check, cover};
use cel_interpreter::{to_value, Value};
use chrono::Duration;
use std::sync::Arc;

pub fn c18_int_uint_bool_null() {
    let bits: u64 = any();
    let i = Value::Int(bits as i64);
    let u = Value::UInt(bits);
    let b = Value::Bool(bits & 1 == 1);
    let ji = i.json();
    let ju = u.json();
    let jb = b.json();
    let jn = Value::Null.json();
    check!(matches!(&ji, Ok(serde_json::Value::Number(n)) if n.as_i64() == Some(bits as i64)), "int exports to the same JSON number");
    check!(matches!(&ju, Ok(serde_json::Value::Number(n)) if n.as_u64() == Some(bits)), "uint exports to the same JSON number");
    check!(matches!(&jb, Ok(serde_json::Value::Bool(x)) if *x == (bits & 1 == 1)), "bool exports to the same JSON bool");
    check!(matches!(&jn, Ok(serde_json::Value::Null)), "null exports to JSON null");
    // importing the exported document back yields a value equal to the original
    if let (Ok(serde_json::Value::Number(ni)), Ok(serde_json::Value::Number(nu)), Ok(serde_json::Value::Bool(bb))) = (&ji, &ju, &jb) {
        let (di, du, db) = (serde_json::Value::Number(ni.clone()), serde_json::Value::Number(nu.clone()), serde_json::Value::Bool(*bb));
        let (ri, ru, rb) = (to_value(&di), to_value(&du), to_value(&db));
        forget((di, du, db));
        check!(matches!(&ri, Ok(v) if *v == i), "re-imported int equals the original");
        check!(matches!(&ru, Ok(v) if *v == u), "re-imported uint equals the original");
        check!(matches!(&rb, Ok(v) if *v == b), "re-imported bool equals the original");
        forget(ri);
        forget(ru);
        forget(rb);
    }
    cover!((bits as i64) < 0, "negative int / uint above i64::MAX reachable");
    cover!(bits == 0, "zero reachable");
    forget(ji);
    forget(ju);
    forget(jb);
    forget(jn);
}

pub fn c18_float() {
    let f: f64 = any();
    let v = Value::Float(f);
    let j = v.json();
    let finite = f == f && f != f64::INFINITY && f != f64::NEG_INFINITY;
    cover!(!finite, "non-finite double reachable");
    cover!(finite && f != 0.0, "finite non-zero double reachable");
    if finite {
        match &j {
            Ok(serde_json::Value::Number(n)) => {
                check!(n.as_f64() == Some(f), "finite double exports to the same JSON number");
                // re-materialised with a concrete variant tag (the exported document's tag is a
                // symbolic choice between Number and Null, which would make the importer explore
                // every JSON variant)
                let doc = serde_json::Value::Number(n.clone());
                let r = to_value(&doc);
                check!(matches!(&r, Ok(Value::Float(g)) if *g == f), "re-imported double equals the original");
                forget(r);
                forget(doc);
            }
            _ => check!(false, "finite double exports to a JSON number"),
        }
    } else {
        check!(matches!(&j, Ok(serde_json::Value::Null)), "NaN and infinities export to JSON null");
    }
    forget(j);
}

pub fn c18_duration() {
    let secs: i64 = any();
    let nanos: u32 = any();
    sym::assume(nanos < 1_000_000_000);
    let d = Duration::new(secs, nanos);
    sym::assume(d.is_some());
    let v = Value::Duration(d.unwrap());
    let j = v.json();
    // exact count in floor form; fits in i64 nanoseconds?
    // i64::MIN ns = -9223372037 s + 145224192 ns ; i64::MAX ns = 9223372036 s + 854775807 ns
    let (s, n) = (secs as i128, nanos as i128);
    let ge_min = s > -9_223_372_037 || (s == -9_223_372_037 && n >= 145_224_192);
    let le_max = s < 9_223_372_036 || (s == 9_223_372_036 && n <= 854_775_807);
    cover!(ge_min && le_max, "duration within 64-bit nanoseconds reachable");
    cover!(!le_max, "duration above 2^63 ns reachable");
    cover!(!ge_min, "duration below -2^63 ns reachable");
    // exact count, written with the same truncated (seconds, sub-second) split the accessor uses so
    // that the solver meets the same product on both sides
    let (ts, tn) = if secs < 0 && nanos > 0 { (secs + 1, nanos as i64 - 1_000_000_000) } else { (secs, nanos as i64) };
    let exact: i128 = ts as i128 * 1_000_000_000 + tn as i128;
    if ge_min && le_max {
        check!(matches!(&j, Ok(serde_json::Value::Number(x)) if x.as_i64() == Some(exact as i64)), "duration exports to its nanosecond count");
    } else {
        check!(j.is_err(), "a duration beyond 64-bit nanoseconds is an export error, not a panic or a wrapped count");
    }
    forget(j);
}

pub fn c18_function_is_error() {
    let b: bool = any();
    let f = Value::Function(Arc::new(String::new()), if b { Some(Box::new(Value::Null)) } else { None });
    let j = f.json();
    check!(j.is_err(), "a function value is an export error, not a panic");
    cover!(b, "bound-receiver function reachable");
    forget(j);
    forget(f);
}

const B64: &[u8; 64] = b"ABCDEFGHIJKLMNOPQRSTUVWXYZabcdefghijklmnopqrstuvwxyz0123456789+/";
/// bytes export as standard base64 (RFC 4648 alphabet with '+' and '/', '=' padding)
pub fn c18_bytes_base64() {
    let (a, b, c): (u8, u8, u8) = (any(), any(), any());
    let n: u8 = any();
    sym::assume(n >= 1 && n <= 3);
    let v = Value::Bytes(Arc::new(if n == 1 { vec![a] } else if n == 2 { vec![a, b] } else { vec![a, b, c] }));
    let j = v.json();
    let (b1, c1) = (if n >= 2 { b } else { 0 }, if n >= 3 { c } else { 0 });
    let want: [u8; 4] = [
        B64[(a >> 2) as usize],
        B64[(((a & 3) << 4) | (b1 >> 4)) as usize],
        if n >= 2 { B64[(((b1 & 15) << 2) | (c1 >> 6)) as usize] } else { b'=' },
        if n >= 3 { B64[(c1 & 63) as usize] } else { b'=' },
    ];
    match &j {
        Ok(serde_json::Value::String(s)) => {
            let got = s.as_bytes();
            check!(got.len() == 4, "1-3 bytes export to four base64 characters");
            check!(got.len() == 4 && got[0] == want[0] && got[1] == want[1] && got[2] == want[2] && got[3] == want[3], "bytes export as standard base64 with padding");
        }
        _ => check!(false, "bytes export to a JSON string"),
    }
    cover!(n == 1 && a == 0xff, "single byte 0xff reachable ('/' in the standard alphabet)");
    cover!(n == 3 && a == 0xfb, "three bytes starting 0xfb reachable ('+' in the standard alphabet)");
    forget(j);
    forget(v);
}

crate::harnesses! {
    #[kani::unwind(8)] c18_bytes_base64: "off", "Value::json on Bytes -> base64 STANDARD engine", "every byte string of length 1-3";
    #[kani::unwind(2)] c18_int_uint_bool_null: "quick", "Value::json on Int/UInt/Bool/Null; ser::to_value on the exported document", "all 64-bit payloads";
    #[kani::unwind(2)] c18_float: "quick", "Value::json on Float; ser::to_value on the exported document", "all f64 bit patterns";
    #[kani::unwind(2)] c18_duration: "quick", "Value::json on Duration", "every chrono duration (both sides of +-2^63 ns)";
    #[kani::unwind(2)] c18_function_is_error: "quick", "Value::json on Function", "with and without bound receiver";
}
