#![cfg(not(kani))]
//! Native replay bodies for the MIR engine's node-level evaluator check (mirsym/resolve_node.py).
//! Never run under Kani (the parser and `Value::resolve` are not executable there): tier "off".
//!
//! A single operator node is compiled from source text whose operands are calls to host functions
//! `f0()`, `f1()`, `f2()`; each host function logs its invocation and returns the configured
//! result (an error, or a bool / int / uint / null value).  The observed result and call log are
//! compared with the reference semantics of the node, written here independently of the evaluator.
use crate::sym::any;
use crate::check;
use cel_interpreter::{Context, ExecutionError, Program, Value};
use std::cmp::Ordering;
use std::sync::{Arc, Mutex};

const OPS: [&str; 17] = ["+", "-", "*", "/", "%", "==", "!=", "<", "<=", ">", ">=", "||", "&&", "!", "neg", "@nsf", "?:"];

#[derive(Clone, Debug)]
enum Res {
    Err,
    Val(Value),
}
fn operand(kind: u8, p: i64, b: bool) -> Res {
    match kind {
        0 => Res::Err,
        1 => Res::Val(Value::Bool(b)),
        2 => Res::Val(Value::Int(p)),
        3 => Res::Val(Value::UInt(p as u64)),
        _ => Res::Val(Value::Null),
    }
}
fn truthy(v: &Value) -> bool {
    match v {
        Value::Bool(b) => *b,
        Value::Int(i) => *i != 0,
        Value::UInt(u) => *u != 0,
        _ => false,
    }
}

fn node_replay() {
    let op: u8 = any();
    let (k0, k1, k2): (u8, u8, u8) = (any(), any(), any());
    let (p0, p1, p2): (i64, i64, i64) = (any(), any(), any());
    let (b0, b1, b2): (bool, bool, bool) = (any(), any(), any());
    // syntactic shape of each operand: 0 call to a logging host function, 1 identifier,
    // 2 field selection on a map variable, 3 literal
    let shapes: [u8; 3] = [any(), any(), any()];
    // `@not_strictly_false` (index 15) has no source syntax of its own; it is not replayable here
    crate::sym::assume((op as usize) < OPS.len() && op != 15 && k0 < 5 && k1 < 5 && k2 < 5);
    crate::sym::assume(shapes[0] < 4 && shapes[1] < 4 && shapes[2] < 4);
    let lit = |p: i64| p.rem_euclid(1000);
    let ps = [p0, p1, p2];
    let bs = [b0, b1, b2];
    let ks = [k0, k1, k2];
    let mut rs = [operand(k0, p0, b0), operand(k1, p1, b1), operand(k2, p2, b2)];
    for k in 0..3 {
        if shapes[k] == 3 {
            // literals can only spell small numbers
            rs[k] = operand(ks[k], lit(ps[k]), bs[k]);
        }
    }
    let name = OPS[op as usize];
    let mut ctx = Context::default();
    let operand_src = |k: usize| -> String {
        match shapes[k] {
            0 => format!("f{}()", k),
            1 => format!("v{}", k),
            2 => format!("w{}.field", k),
            _ => match &rs[k] {
                Res::Err => "(1/0)".to_string(),
                Res::Val(Value::Bool(b)) => format!("{}", b),
                Res::Val(Value::Int(i)) => format!("{}", i),
                Res::Val(Value::UInt(u)) => format!("{}u", u),
                _ => "null".to_string(),
            },
        }
    };
    for k in 0..3usize {
        if let Res::Val(v) = &rs[k] {
            ctx.add_variable_from_value(format!("v{}", k), v.clone());
            let mut m = std::collections::HashMap::new();
            m.insert("field".to_string(), v.clone());
            ctx.add_variable_from_value(format!("w{}", k), m);
        } else {
            ctx.add_variable_from_value(format!("w{}", k), std::collections::HashMap::<String, Value>::new());
        }
    }
    let src = match name {
        "!" => format!("!{}", operand_src(0)),
        "neg" => format!("-{}", operand_src(0)),
        "@nsf" => "true".to_string(),
        "?:" => format!("{} ? {} : {}", operand_src(0), operand_src(1), operand_src(2)),
        o => format!("{} {} {}", operand_src(0), o, operand_src(1)),
    };
    let log: Arc<Mutex<Vec<usize>>> = Arc::new(Mutex::new(Vec::new()));
    for k in 0..3usize {
        let (l, r) = (log.clone(), rs[k].clone());
        let fname = format!("f{}", k);
        let fname2 = fname.clone();
        ctx.add_function(&fname, move || -> Result<Value, ExecutionError> {
            l.lock().unwrap().push(k);
            match &r {
                Res::Err => Err(ExecutionError::function_error(&fname2, "configured error")),
                Res::Val(v) => Ok(v.clone()),
            }
        });
    }
    let program = Program::compile(&src).expect("node source compiles");
    let got = program.execute(&ctx);
    let calls = log.lock().unwrap().clone();
    // the error an operand of a given shape produces
    let is_host_err = |r: &Result<Value, ExecutionError>, k: usize| -> bool {
        match shapes[k] {
            0 => matches!(r, Err(ExecutionError::FunctionError { function, .. }) if *function == format!("f{}", k)),
            1 => matches!(r, Err(ExecutionError::UndeclaredReference(n)) if n.as_str() == format!("v{}", k)),
            2 => matches!(r, Err(ExecutionError::NoSuchKey(n)) if n.as_str() == "field"),
            _ => matches!(r, Err(ExecutionError::DivisionByZero(_))),
        }
    };

    // ---- reference semantics of one node
    let v = |k: usize| match &rs[k] {
        Res::Val(v) => v.clone(),
        Res::Err => unreachable!(),
    };
    let err = |k: usize| matches!(rs[k], Res::Err);
    let (want_calls, ok): (Vec<usize>, bool) = match name {
        "?:" => {
            if err(0) {
                (vec![0], is_host_err(&got, 0))
            } else {
                let pick = if truthy(&v(0)) { 1 } else { 2 };
                (vec![0, pick], if err(pick) { is_host_err(&got, pick) } else { got == Ok(v(pick)) })
            }
        }
        "!" => (vec![0], if err(0) { is_host_err(&got, 0) } else { got == Ok(Value::Bool(!truthy(&v(0)))) }),
        "neg" => (
            vec![0],
            if err(0) {
                is_host_err(&got, 0)
            } else {
                match v(0) {
                    Value::Int(i) if i != i64::MIN => got == Ok(Value::Int(-i)),
                    _ => got.is_err(),
                }
            },
        ),
        "@nsf" => {
            // all(x, body): true iff body is not strictly false... with one element: an error in the
            // body aborts, a bool is itself, anything else counts as true
            (vec![0], if err(0) { is_host_err(&got, 0) } else { got == Ok(Value::Bool(match v(0) { Value::Bool(b) => b, _ => true })) })
        }
        "||" => {
            if err(0) {
                (vec![0], is_host_err(&got, 0))
            } else if truthy(&v(0)) {
                (vec![0], got == Ok(v(0)))
            } else {
                (vec![0, 1], if err(1) { is_host_err(&got, 1) } else { got == Ok(v(1)) })
            }
        }
        "&&" => {
            if err(0) {
                (vec![0], is_host_err(&got, 0))
            } else if !truthy(&v(0)) {
                (vec![0], got == Ok(Value::Bool(false)))
            } else {
                (vec![0, 1], if err(1) { is_host_err(&got, 1) } else { got == Ok(Value::Bool(truthy(&v(1)))) })
            }
        }
        o => {
            if err(0) {
                (vec![0], is_host_err(&got, 0))
            } else if err(1) {
                (vec![0, 1], is_host_err(&got, 1))
            } else {
                let (a, b) = (v(0), v(1));
                let want: Result<Value, ExecutionError> = match o {
                    "+" => a.clone() + b.clone(),
                    "-" => a.clone() - b.clone(),
                    "*" => a.clone() * b.clone(),
                    "/" => a.clone() / b.clone(),
                    "%" => a.clone() % b.clone(),
                    "==" => Ok(Value::Bool(a == b)),
                    "!=" => Ok(Value::Bool(!(a == b))),
                    rel => match a.partial_cmp(&b) {
                        None => Err(ExecutionError::ValuesNotComparable(a.clone(), b.clone())),
                        Some(o) => Ok(Value::Bool(match rel {
                            "<" => o == Ordering::Less,
                            "<=" => o != Ordering::Greater,
                            ">" => o == Ordering::Greater,
                            _ => o != Ordering::Less,
                        })),
                    },
                };
                (vec![0, 1], got == want)
            }
        }
    };
    // only call-shaped operands are observable in the log
    let want_calls: Vec<usize> = want_calls.into_iter().filter(|k| shapes[*k] == 0).collect();
    check!(calls == want_calls, "node: operands evaluated exactly as specified (at most once, left to right, skipped operands never)");
    check!(ok, "node: result is the one the reference semantics of the operator prescribes");
}
/// A call to a host function `f` that does not look at its arguments: `f(g0(), g1(), ..)` or
/// `t().f(g0(), ..)`.  The dispatcher must evaluate the receiver once, first, and nothing else:
/// arguments belong to the function's extractors (which `f` does not use), so no `g` may run.
pub fn c07_call() {
    let nargs: u8 = any();
    let (has_target, declared, target_err): (bool, bool, bool) = (any(), any(), any());
    let name_code: u8 = any();
    crate::sym::assume(nargs <= 3 && name_code <= 3 && !(name_code == 3 && has_target));
    // host functions may be named like the parser's internal operators (leading '_' or '@'); only
    // `f` and `_f` can be written in source, `@f` is replayed as `_f`; code 3 is the root-qualified
    // spelling `.f(..)`, whose name (with the dot) is what is looked up and reported
    let fname = match name_code {
        0 => "f",
        3 => ".f",
        _ => "_f",
    };
    let log: Arc<Mutex<Vec<String>>> = Arc::new(Mutex::new(Vec::new()));
    let mut ctx = Context::default();
    for k in 0..3usize {
        let l = log.clone();
        ctx.add_function(&format!("g{}", k), move || -> i64 {
            l.lock().unwrap().push(format!("g{}", k));
            k as i64
        });
    }
    {
        let l = log.clone();
        ctx.add_function("t", move || -> Result<Value, ExecutionError> {
            l.lock().unwrap().push("t".to_string());
            if target_err {
                Err(ExecutionError::function_error("t", "configured error"))
            } else {
                Ok(Value::Int(7))
            }
        });
    }
    if declared {
        let l = log.clone();
        ctx.add_function(fname, move |_ftx: &cel_interpreter::FunctionContext| -> i64 {
            l.lock().unwrap().push("f".to_string());
            1
        });
    }
    let args: Vec<String> = (0..nargs).map(|k| format!("g{}()", k)).collect();
    let src = if has_target { format!("t().{}({})", fname, args.join(", ")) } else { format!("{}({})", fname, args.join(", ")) };
    let program = Program::compile(&src).expect("call source compiles");
    let got = program.execute(&ctx);
    let calls = log.lock().unwrap().clone();
    let mut want: Vec<String> = Vec::new();
    let ok;
    if !declared {
        ok = matches!(&got, Err(ExecutionError::UndeclaredReference(n)) if n.as_str() == fname);
    } else if has_target && target_err {
        want.push("t".to_string());
        ok = matches!(&got, Err(ExecutionError::FunctionError { function, .. }) if function == "t");
    } else {
        if has_target {
            want.push("t".to_string());
        }
        want.push("f".to_string());
        ok = got == Ok(Value::Int(1));
    }
    check!(calls == want, "call node: the receiver is evaluated once and first, arguments are not evaluated by the dispatcher");
    check!(ok, "call node: result is the function's result / the receiver's error / UndeclaredReference");
}
/// A host function whose parameter list is `k` values followed by an unevaluated `Expression`
/// (and, second variant, an `Identifier`), called with `n` arguments.  With n <= k the expression
/// argument is missing: the call must yield an execution error, never a panic.
pub fn c20_missing_argument() {
    let (k, n): (u8, u8) = (any(), any());
    crate::sym::assume(k <= 3 && n <= 3);
    use cel_interpreter::extractors::Identifier;
    use cel_interpreter::IdedExpr as Expression;
    let mut ctx = Context::default();
    match k {
        0 => {
            ctx.add_function("m", |_e: Expression| 1i64);
            ctx.add_function("i", |_e: Identifier| 1i64);
        }
        1 => {
            ctx.add_function("m", |_a: Value, _e: Expression| 1i64);
            ctx.add_function("i", |_a: Value, _e: Identifier| 1i64);
        }
        2 => {
            ctx.add_function("m", |_a: Value, _b: Value, _e: Expression| 1i64);
            ctx.add_function("i", |_a: Value, _b: Value, _e: Identifier| 1i64);
        }
        _ => {
            ctx.add_function("m", |_a: Value, _b: Value, _c: Value, _e: Expression| 1i64);
            ctx.add_function("i", |_a: Value, _b: Value, _c: Value, _e: Identifier| 1i64);
        }
    }
    let args: Vec<String> = (0..n).map(|j| format!("x{}", j)).collect();
    for j in 0..4 {
        ctx.add_variable_from_value(format!("x{}", j), Value::Int(j));
    }
    for f in ["m", "i"] {
        let program = Program::compile(&format!("{}({})", f, args.join(", "))).expect("call source compiles");
        let got = program.execute(&ctx);
        if n <= k {
            check!(got.is_err(), "a call with a missing argument yields an execution error");
        } else {
            check!(got == Ok(Value::Int(1)), "a call with enough arguments invokes the function");
        }
    }
}
/// C11 native replay: a chain of 1-3 scopes, each defining a subset of {a, b, c}; lookups return
/// the innermost binding, definitions in the innermost scope leave enclosing scopes untouched.
pub fn c11_chain() {
    let levels: u8 = any();
    let masks: [u8; 3] = [any(), any(), any()];
    crate::sym::assume(levels >= 1 && levels <= 3 && masks[0] < 8 && masks[1] < 8 && masks[2] < 8);
    let names = ["a", "b", "c"];
    let mut root = Context::default();
    // a function named like a variable: functions live in the root registry and stay callable from
    // every scope whatever variables are bound there
    root.add_function("a", || 42i64);
    let call_a = Program::compile("a()").expect("compiles");
    for (k, n) in names.iter().enumerate() {
        if (masks[0] >> k) & 1 == 1 {
            root.add_variable_from_value(*n, Value::Int(k as i64));
        }
    }
    let expect = |name: &str, upto: usize| -> Option<Value> {
        let k = names.iter().position(|n| *n == name).unwrap();
        for lv in (0..upto).rev() {
            if (masks[lv] >> k) & 1 == 1 {
                // the first inner scope binds `c` to null: a null binding shadows like any other value
                return Some(if lv == 1 && k == 2 { Value::Null } else { Value::Int((lv * 10 + k) as i64) });
            }
        }
        None
    };
    let look = |ctx: &Context, upto: usize| {
        check!(call_a.execute(ctx) == Ok(Value::Int(42)), "a function stays callable from every scope, whatever variables share its name");
        for n in names {
            match (ctx.get_variable(n), expect(n, upto)) {
                (Ok(v), Some(w)) => check!(v == w, "lookup returns the innermost binding"),
                (Err(ExecutionError::UndeclaredReference(x)), None) => check!(x.as_str() == n, "undefined name is UndeclaredReference(name)"),
                _ => check!(false, "lookup agrees with the innermost defining scope"),
            }
        }
    };
    look(&root, 1);
    if levels >= 2 {
        let mut c1 = root.new_inner_scope();
        for (k, n) in names.iter().enumerate() {
            if (masks[1] >> k) & 1 == 1 {
                c1.add_variable_from_value(*n, if k == 2 { Value::Null } else { Value::Int(10 + k as i64) });
            }
        }
        look(&c1, 2);
        if levels >= 3 {
            let mut c2 = c1.new_inner_scope();
            for (k, n) in names.iter().enumerate() {
                if (masks[2] >> k) & 1 == 1 {
                    c2.add_variable_from_value(*n, Value::Int(20 + k as i64));
                }
            }
            look(&c2, 3);
        }
        look(&c1, 2);
        // the host-facing definition with a conversion: define, then redefine, in an inner scope; the enclosing scope keeps its own
        let mut c3 = root.new_inner_scope();
        for n in names {
            check!(c3.add_variable(n, 100i64).is_ok() && c3.get_variable(n) == Ok(Value::Int(100)), "add_variable defines the name in the scope it is called on");
            check!(c3.add_variable(n, "again").is_ok() && c3.get_variable(n) == Ok(Value::String(Arc::new("again".to_string()))), "a redefinition through add_variable replaces the earlier value");
        }
    }
    look(&root, 1);
    for n in names {
        let mut r2 = Context::default();
        check!(r2.add_variable(n, 1i64).is_ok() && r2.add_variable(n, 2i64).is_ok() && r2.get_variable(n) == Ok(Value::Int(2)), "redefinition in the root scope replaces the earlier value");
    }
}

/// C11 / C10 native replay: one comprehension node built directly as an AST whose five
/// sub-expressions are logging host functions that also record which bindings they can see.
pub fn c11_fold() {
    use cel_parser::ast::{CallExpr, ComprehensionExpr, Expr, IdedExpr};
    let n: u8 = any();
    let fail: u8 = any();
    let conds: u8 = any();
    crate::sym::assume(n <= 3 && fail < 12 && conds < 8);
    let call = |name: &str| IdedExpr { id: 1, expr: Expr::Call(CallExpr { func_name: name.to_string(), target: None, args: vec![] }) };
    let node = IdedExpr {
        id: 2,
        expr: Expr::Comprehension(ComprehensionExpr {
            iter_range: Box::new(call("rng")),
            iter_var: "x".to_string(),
            iter_var2: None,
            accu_var: "@result".to_string(),
            accu_init: Box::new(call("ini")),
            loop_cond: Box::new(call("cnd")),
            loop_step: Box::new(call("stp")),
            result: Box::new(call("res")),
        }),
    };
    // neighbouring elements are equal under CEL's == but are different values (int 10, double 10.0,
    // uint 10): an evaluator that confuses "equal" with "same" shows up in what the body sees
    fn item(k: usize) -> Value {
        match k {
            0 => Value::Int(10),
            1 => Value::Float(10.0),
            _ => Value::UInt(10),
        }
    }
    type Log = Arc<Mutex<Vec<(String, Option<Value>, Option<Value>)>>>;
    let log: Log = Arc::new(Mutex::new(Vec::new()));
    let counter = Arc::new(Mutex::new((0usize, 0usize)));
    let see = |ftx: &cel_interpreter::FunctionContext, name: &str| ftx.ptx.get_variable(name.to_string()).ok();
    let mut ctx = Context::default();
    ctx.add_variable_from_value("x", Value::Int(-1));
    let ferr = |f: &str| Err(ExecutionError::function_error(f, "configured error"));
    {
        let l = log.clone();
        ctx.add_function("rng", move |ftx: &cel_interpreter::FunctionContext| -> Result<Value, ExecutionError> {
            l.lock().unwrap().push(("rng".into(), see(ftx, "x"), see(ftx, "@result")));
            if fail == 1 { ferr("rng") } else { Ok(Value::List(Arc::new((0..n as usize).map(item).collect()))) }
        });
        let l = log.clone();
        ctx.add_function("ini", move |ftx: &cel_interpreter::FunctionContext| -> Result<Value, ExecutionError> {
            l.lock().unwrap().push(("ini".into(), see(ftx, "x"), see(ftx, "@result")));
            if fail == 2 { ferr("ini") } else { Ok(Value::Int(100)) }
        });
        let (l, c) = (log.clone(), counter.clone());
        ctx.add_function("cnd", move |ftx: &cel_interpreter::FunctionContext| -> Result<Value, ExecutionError> {
            l.lock().unwrap().push(("cnd".into(), see(ftx, "x"), see(ftx, "@result")));
            let k = { let mut g = c.lock().unwrap(); g.0 += 1; g.0 - 1 };
            if fail as usize == 4 + k { ferr("cnd") } else { Ok(Value::Bool((conds >> k) & 1 == 1)) }
        });
        let (l, c) = (log.clone(), counter.clone());
        ctx.add_function("stp", move |ftx: &cel_interpreter::FunctionContext| -> Result<Value, ExecutionError> {
            l.lock().unwrap().push(("stp".into(), see(ftx, "x"), see(ftx, "@result")));
            let k = { let mut g = c.lock().unwrap(); g.1 += 1; g.1 - 1 };
            if fail as usize == 8 + k { ferr("stp") } else { Ok(Value::Int(200 + k as i64)) }
        });
        let l = log.clone();
        ctx.add_function("res", move |ftx: &cel_interpreter::FunctionContext| -> Result<Value, ExecutionError> {
            l.lock().unwrap().push(("res".into(), see(ftx, "x"), see(ftx, "@result")));
            if fail == 3 { ferr("res") } else { Ok(Value::Int(999)) }
        });
    }
    let got = ctx.resolve(&node);
    let calls = log.lock().unwrap().clone();
    // ---- reference trace (range and init in either order, both in the outer scope)
    let outer_x = Some(Value::Int(-1));
    let mut want: Vec<(String, Option<Value>, Option<Value>)> = Vec::new();
    let mut result: Option<Result<(), &str>> = None; // Some(Err(f)) = error of host function f
    let first_is_ini = calls.first().map(|c| c.0 == "ini").unwrap_or(true);
    let order: [(&str, u8); 2] = if first_is_ini { [("ini", 2), ("rng", 1)] } else { [("rng", 1), ("ini", 2)] };
    for (f, code) in order {
        if result.is_none() {
            want.push((f.to_string(), outer_x.clone(), None));
            if fail == code {
                result = Some(Err(f));
            }
        }
    }
    if result.is_none() {
        let mut acc = Value::Int(100);
        let mut x = outer_x.clone();
        for k in 0..n as usize {
            want.push(("cnd".into(), x.clone(), Some(acc.clone())));
            if fail as usize == 4 + k {
                result = Some(Err("cnd"));
                break;
            }
            if (conds >> k) & 1 == 0 {
                break;
            }
            x = Some(item(k));
            want.push(("stp".into(), x.clone(), Some(acc.clone())));
            if fail as usize == 8 + k {
                result = Some(Err("stp"));
                break;
            }
            acc = Value::Int(200 + k as i64);
        }
        if result.is_none() {
            want.push(("res".into(), x.clone(), Some(acc.clone())));
            result = Some(if fail == 3 { Err("res") } else { Ok(()) });
        }
    }
    // compared through the Debug text: Value's == identifies int 10 with double 10.0
    check!(format!("{:?}", calls) == format!("{:?}", want), "comprehension: sub-expressions are evaluated in the prescribed order, each seeing exactly the bindings of its scope");
    match result.unwrap() {
        Ok(()) => check!(got == Ok(Value::Int(999)), "comprehension: the result expression's value is the node's value"),
        Err(f) => check!(matches!(&got, Err(ExecutionError::FunctionError { function, .. }) if function == f), "comprehension: the first error aborts the node"),
    }
    check!(ctx.get_variable("x") == Ok(Value::Int(-1)) && ctx.get_variable("@result").is_err(), "comprehension: the outer scope is unchanged afterwards");
}
/// Extractor-level replay: built-ins whose parameters are `This<..>` / `Arguments`, applied to
/// logging host functions; every argument is evaluated exactly once, the first error aborts.
pub fn c20_extractor_eval() {
    let code: u8 = any();
    let bad: u8 = any(); // index of the failing argument, 3 = none
    crate::sym::assume(code <= 3 && bad <= 3);
    let log: Arc<Mutex<Vec<usize>>> = Arc::new(Mutex::new(Vec::new()));
    let mut ctx = Context::default();
    // `Arguments` after a positional parameter still receives ALL arguments of the call
    let got_len: Arc<Mutex<Option<usize>>> = Arc::new(Mutex::new(None));
    {
        let g = got_len.clone();
        ctx.add_function("h", move |_first: Value, cel_interpreter::extractors::Arguments(rest): cel_interpreter::extractors::Arguments| -> i64 {
            *g.lock().unwrap() = Some(rest.len());
            1
        });
    }
    for k in 0..3usize {
        let l = log.clone();
        ctx.add_function(&format!("f{}", k), move || -> Result<Value, ExecutionError> {
            l.lock().unwrap().push(k);
            if k == bad as usize {
                Err(ExecutionError::function_error(&format!("f{}", k), "configured error"))
            } else {
                Ok(Value::List(Arc::new(vec![Value::Int(k as i64)])))
            }
        });
    }
    let (src, n) = match code {
        0 => ("size(f0())", 1),    // This<Value> without receiver: consumes the first argument
        1 => ("f0().size()", 1),   // This<Value> with receiver
        2 => ("max(f0(), f1(), f2())", 3), // Arguments: all, in order
        _ => ("h(f0(), f1(), f2())", 3),   // a positional parameter, then Arguments
    };
    let got = Program::compile(src).expect("source compiles").execute(&ctx);
    let calls = log.lock().unwrap().clone();
    let upto = if (bad as usize) < n { bad as usize + 1 } else { n };
    let want: Vec<usize> = (0..upto).collect();
    if code == 3 {
        if bad > 2 {
            check!(*got_len.lock().unwrap() == Some(3), "Arguments receives every argument of the call, also after a positional parameter");
        }
        return;
    }
    check!(calls == want, "extractors: every argument evaluated exactly once, in order, the first error aborts");
    if (bad as usize) < n {
        check!(got.is_err(), "extractors: a failing argument makes the call fail");
    }
}
/// Parameter conversions: a host function with one parameter of a given type, called with one
/// value of a given kind: invoked with that value iff the kinds fit (null fits every Option<T>),
/// otherwise an execution error - never an invocation with different data.
pub fn c20_conversion() {
    let (target, kind): (u8, u8) = (any(), any());
    crate::sym::assume(target <= 6 && kind <= 5);
    let seen: Arc<Mutex<Vec<String>>> = Arc::new(Mutex::new(Vec::new()));
    let mut ctx = Context::default();
    macro_rules! reg {
        ($t:ty) => {{
            let s = seen.clone();
            ctx.add_function("h", move |v: $t| -> i64 {
                s.lock().unwrap().push(format!("{:?}", v));
                1
            });
        }};
    }
    // Option<T> parameters are only available through the `This` extractor
    macro_rules! reg_opt {
        ($t:ty) => {{
            let s = seen.clone();
            ctx.add_function("h", move |cel_interpreter::extractors::This(v): cel_interpreter::extractors::This<Option<$t>>| -> i64 {
                s.lock().unwrap().push(format!("{:?}", v));
                1
            });
        }};
    }
    match target {
        0 => reg!(i64),
        1 => reg!(u64),
        2 => reg!(bool),
        3 => reg!(f64),
        4 => reg_opt!(i64),
        5 => reg_opt!(u64),
        _ => reg_opt!(bool),
    }
    let (val, shown_plain, shown_opt) = match kind {
        0 => (Value::Int(5), "5", "Some(5)"),
        1 => (Value::UInt(5), "5", "Some(5)"),
        2 => (Value::Bool(true), "true", "Some(true)"),
        3 => (Value::Float(2.5), "2.5", "Some(2.5)"),
        4 => (Value::Null, "", "None"),
        _ => (Value::String(Arc::new("5".to_string())), "", ""),
    };
    ctx.add_variable_from_value("x", val);
    let got = Program::compile("h(x)").expect("compiles").execute(&ctx);
    let calls = seen.lock().unwrap().clone();
    let fits_plain = (target == 0 && kind == 0) || (target == 1 && kind == 1) || (target == 2 && kind == 2) || (target == 3 && kind == 3);
    let fits_opt = target >= 4 && (kind == 4 || (target == 4 && kind == 0) || (target == 5 && kind == 1) || (target == 6 && kind == 2));
    if fits_plain {
        check!(got == Ok(Value::Int(1)) && calls == vec![shown_plain.to_string()], "a fitting value reaches the function unchanged");
    } else if fits_opt {
        check!(got == Ok(Value::Int(1)) && calls == vec![shown_opt.to_string()], "a fitting value (or null) reaches an Option parameter as Some(value) (or None)");
    } else {
        check!(got.is_err() && calls.is_empty(), "a value of the wrong kind is an execution error and the function is not invoked");
    }
}
/// List and map literals over logging host functions: elements / keys / values are evaluated once
/// each in source order, the first error aborts, the value holds exactly what was written.
pub fn c07_literal() {
    let (is_map, n, bad): (bool, u8, u8) = (any(), any(), any());
    // bad: index of the failing evaluation in source order (for maps k0, v0, k1, v1, ...), 255 = none
    crate::sym::assume(n <= 3);
    let total = if is_map { 2 * n as usize } else { n as usize };
    let log: Arc<Mutex<Vec<usize>>> = Arc::new(Mutex::new(Vec::new()));
    let mut ctx = Context::default();
    for k in 0..6usize {
        let l = log.clone();
        ctx.add_function(&format!("e{}", k), move || -> Result<Value, ExecutionError> {
            l.lock().unwrap().push(k);
            if k == bad as usize {
                Err(ExecutionError::function_error(&format!("e{}", k), "configured error"))
            } else {
                Ok(Value::Int(100 + k as i64))
            }
        });
    }
    let src = if is_map {
        let es: Vec<String> = (0..n as usize).map(|j| format!("e{}(): e{}()", 2 * j, 2 * j + 1)).collect();
        format!("{{{}}}", es.join(", "))
    } else {
        let es: Vec<String> = (0..n as usize).map(|j| format!("e{}()", j)).collect();
        format!("[{}]", es.join(", "))
    };
    let got = Program::compile(&src).expect("literal compiles").execute(&ctx);
    let calls = log.lock().unwrap().clone();
    let upto = if (bad as usize) < total { bad as usize + 1 } else { total };
    check!(calls == (0..upto).collect::<Vec<usize>>(), "literal: elements, keys and values are evaluated once each, in source order, the first error aborts");
    if (bad as usize) < total {
        check!(matches!(&got, Err(ExecutionError::FunctionError { function, .. }) if *function == format!("e{}", bad)), "literal: the first error is the result");
    } else if is_map {
        match &got {
            Ok(Value::Map(m)) => {
                check!(m.map.len() == n as usize, "map literal with distinct keys has one entry per written pair");
                for j in 0..n as usize {
                    check!(m.get(&cel_interpreter::objects::Key::Int(100 + 2 * j as i64)) == Some(&Value::Int(101 + 2 * j as i64)), "map literal holds exactly the written entries");
                }
            }
            _ => check!(false, "a map literal evaluates to a map"),
        }
    } else {
        check!(got == Ok(Value::List(Arc::new((0..n as i64).map(|j| Value::Int(100 + j)).collect()))), "list literal holds the element values in order");
    }
}
/// C17 structure half: sequences, tuples, maps (with repeated keys), structs and the data-carrying variants
/// through `to_value`, with an optional child whose own `Serialize` fails.
pub fn c17_compound() {
    use cel_interpreter::objects::{Key, Map};
    use serde::ser::{Error as _, SerializeMap as _};
    use serde::Serialize;
    struct Elem(i64, bool);
    impl Serialize for Elem {
        fn serialize<S: serde::Serializer>(&self, s: S) -> Result<S::Ok, S::Error> {
            if self.1 {
                Err(S::Error::custom("child fails"))
            } else {
                s.serialize_i64(self.0)
            }
        }
    }
    struct Pairs(Vec<(&'static str, Elem)>);
    impl Serialize for Pairs {
        fn serialize<S: serde::Serializer>(&self, s: S) -> Result<S::Ok, S::Error> {
            let mut m = s.serialize_map(Some(self.0.len()))?;
            for (k, v) in self.0.iter() {
                m.serialize_key(k)?;
                m.serialize_value(v)?;
            }
            m.end()
        }
    }
    #[derive(Serialize)]
    struct TS(Elem, Elem);
    #[derive(Serialize)]
    struct St {
        f0: Elem,
        f1: Elem,
    }
    #[derive(Serialize)]
    enum En {
        T(Elem, Elem),
        S { f0: Elem, f1: Elem },
    }
    let (shape, cfg, bad): (u8, u8, u8) = (any(), any(), any());
    crate::sym::assume(shape <= 6);
    let el = |j: u8| Elem(10 + j as i64, j == bad);
    let list = |n: u8| Value::List(Arc::new((0..n).map(|j| Value::Int(10 + j as i64)).collect()));
    let smap = |pairs: Vec<(&str, Value)>| {
        let mut m = std::collections::HashMap::new();
        for (k, v) in pairs {
            m.insert(Key::String(Arc::new(k.to_string())), v);
        }
        Value::Map(Map { map: Arc::new(m) })
    };
    let (got, want, children): (Result<Value, _>, Value, u8) = match shape {
        0 => {
            crate::sym::assume(cfg <= 3);
            (cel_interpreter::to_value((0..cfg).map(el).collect::<Vec<_>>()), list(cfg), cfg)
        }
        1 => (cel_interpreter::to_value((el(0), el(1))), list(2), 2),
        2 => (cel_interpreter::to_value(TS(el(0), el(1))), list(2), 2),
        3 => (cel_interpreter::to_value(En::T(el(0), el(1))), smap(vec![("T", list(2))]), 2),
        4 => {
            let patterns: [&[&str]; 7] = [&[], &["a"], &["a", "b"], &["a", "a"], &["a", "b", "a"], &["a", "a", "a"], &["a", "b", "c"]];
            crate::sym::assume((cfg as usize) < patterns.len());
            let keys = patterns[cfg as usize];
            let pairs: Vec<(&'static str, Elem)> = keys.iter().enumerate().map(|(j, k)| (*k, el(j as u8))).collect();
            let mut want = Vec::new();
            for (j, k) in keys.iter().enumerate() {
                want.retain(|(kk, _): &(&str, Value)| kk != k);
                want.push((*k, Value::Int(10 + j as i64)));
            }
            (cel_interpreter::to_value(Pairs(pairs)), smap(want), keys.len() as u8)
        }
        5 => (cel_interpreter::to_value(St { f0: el(0), f1: el(1) }), smap(vec![("f0", Value::Int(10)), ("f1", Value::Int(11))]), 2),
        _ => (cel_interpreter::to_value(En::S { f0: el(0), f1: el(1) }), smap(vec![("S", smap(vec![("f0", Value::Int(10)), ("f1", Value::Int(11))]))]), 2),
    };
    if bad < children {
        check!(got.is_err(), "a child that fails to serialise makes the conversion fail");
    } else {
        check!(matches!(&got, Ok(v) if *v == want), "the compound converts to the value of the same shape");
    }
}
/// C18 structure half: lists, maps (including keys rendering to the same text) and bytes through Value::json.
pub fn c18_structure() {
    use cel_interpreter::objects::{Key, Map};
    let (shape, idx, bad): (u8, u8, u8) = (any(), any(), any());
    crate::sym::assume(shape <= 2);
    let failing = Value::Function(Arc::new("f".to_string()), None);
    let skey = |s: &str| Key::String(Arc::new(s.to_string()));
    match shape {
        0 => {
            crate::sym::assume(idx <= 3);
            let items: Vec<Value> = (0..idx).map(|j| if j == bad { failing.clone() } else { Value::Int(j as i64) }).collect();
            let v = Value::List(Arc::new(items));
            let got = v.json();
            if bad < idx {
                check!(got.is_err(), "a list with a function value does not export");
            } else {
                let want = serde_json::Value::Array((0..idx).map(|j| serde_json::Value::from(j as i64)).collect());
                check!(matches!(&got, Ok(d) if *d == want), "a list exports to the array of its elements in order");
            }
        }
        1 => {
            let sets: [Vec<Key>; 13] = [
                vec![], vec![skey("a")], vec![Key::Int(1)], vec![Key::Uint(2)], vec![Key::Bool(true)], vec![skey("a"), skey("b")],
                vec![Key::Int(1), skey("1")], vec![skey("1"), Key::Int(1)], vec![Key::Uint(1), Key::Int(1)], vec![Key::Bool(true), skey("true")],
                vec![skey("a"), Key::Int(-3), Key::Bool(false)], vec![Key::Int(1), Key::Uint(1), skey("1")], vec![skey("x"), skey("1"), Key::Uint(1)],
            ];
            crate::sym::assume((idx as usize) < sets.len());
            let keys = &sets[idx as usize];
            let mut m = std::collections::HashMap::new();
            for (j, k) in keys.iter().enumerate() {
                m.insert(k.clone(), if j as u8 == bad { failing.clone() } else { Value::Int(j as i64) });
            }
            let v = Value::Map(Map { map: Arc::new(m) });
            let got = v.json();
            if (bad as usize) < keys.len() {
                check!(got.is_err(), "a map with a function value does not export");
            } else {
                check!(got.is_ok(), "a map without function values exports, whatever its keys render to");
                if let Ok(serde_json::Value::Object(o)) = &got {
                    let texts: std::collections::BTreeSet<String> = keys.iter().map(|k| k.to_string()).collect();
                    check!(o.len() == texts.len(), "one member per distinct key text");
                    for (name, doc) in o.iter() {
                        let from: Vec<i64> = keys.iter().enumerate().filter(|(_, k)| k.to_string() == *name).map(|(j, _)| j as i64).collect();
                        check!(from.iter().any(|j| *doc == serde_json::Value::from(*j)), "each member is named by a key's text and holds that entry's document");
                    }
                } else {
                    check!(false, "a map exports to an object");
                }
            }
        }
        _ => {
            crate::sym::assume(idx <= 6);
            let pool = [0xfbu8, 0xff, 0xbe, 0x00, 0x3e, 0x3f];
            let bytes: Vec<u8> = pool[..idx as usize].to_vec();
            let alphabet = b"ABCDEFGHIJKLMNOPQRSTUVWXYZabcdefghijklmnopqrstuvwxyz0123456789+/";
            let mut want = String::new();
            for chunk in bytes.chunks(3) {
                let b = [chunk[0], *chunk.get(1).unwrap_or(&0), *chunk.get(2).unwrap_or(&0)];
                let n = ((b[0] as u32) << 16) | ((b[1] as u32) << 8) | b[2] as u32;
                want.push(alphabet[(n >> 18) as usize & 63] as char);
                want.push(alphabet[(n >> 12) as usize & 63] as char);
                want.push(if chunk.len() > 1 { alphabet[(n >> 6) as usize & 63] as char } else { '=' });
                want.push(if chunk.len() > 2 { alphabet[n as usize & 63] as char } else { '=' });
            }
            let v = Value::Bytes(Arc::new(bytes));
            let got = v.json();
            check!(matches!(&got, Ok(serde_json::Value::String(s)) if *s == want), "bytes export to their standard (RFC 4648 section 4, padded) base64 text");
        }
    }
}
/// What the CEL specification assigns to a string / bytes literal token (None: not a token the lexer can produce).
fn literal_reference(text: &[char]) -> Option<Result<(bool, Vec<u32>), ()>> {
    let mut t = text;
    let is_bytes = matches!(t.first(), Some('b') | Some('B'));
    if is_bytes {
        t = &t[1..];
    }
    let raw = matches!(t.first(), Some('r') | Some('R'));
    if raw {
        t = &t[1..];
    }
    let q = *t.first()?;
    if q != '\'' && q != '"' {
        return None;
    }
    let triple = t.len() >= 6 && t[1] == q && t[2] == q;
    let d = if triple { 3 } else { 1 };
    if t.len() < 2 * d || t[t.len() - d..].iter().any(|c| *c != q) {
        return None;
    }
    let body = &t[d..t.len() - d];
    let mut out: Vec<u32> = Vec::new();
    let push_char = |out: &mut Vec<u32>, c: char| {
        if is_bytes {
            let mut b = [0u8; 4];
            out.extend(c.encode_utf8(&mut b).bytes().map(|x| x as u32));
        } else {
            out.push(c as u32);
        }
    };
    let mut k = 0;
    while k < body.len() {
        let c = body[k];
        if triple {
            if k + 2 < body.len() && body[k] == q && body[k + 1] == q && body[k + 2] == q {
                return None;
            }
        } else if c == q || c == '\n' || c == '\r' {
            return None;
        }
        if c != '\\' || raw {
            push_char(&mut out, c);
            k += 1;
            continue;
        }
        let e = *body.get(k + 1)?;
        let digits = |from: usize, n: usize, radix: u32| -> Option<u32> {
            let mut v: u32 = 0;
            for j in 0..n {
                v = v.checked_mul(radix)?.checked_add(body.get(from + j)?.to_digit(radix)?)?;
            }
            Some(v)
        };
        let simple = match e {
            'a' => Some(7u32), 'b' => Some(8), 'f' => Some(12), 'n' => Some(10), 'r' => Some(13), 't' => Some(9), 'v' => Some(11),
            '\\' | '?' | '"' | '\'' | '`' => Some(e as u32),
            _ => None,
        };
        if let Some(v) = simple {
            out.push(v);
            k += 2;
        } else if e == 'x' || e == 'X' {
            let v = digits(k + 2, 2, 16)?;
            if is_bytes { out.push(v) } else { push_char(&mut out, char::from_u32(v)?) }
            k += 4;
        } else if e == 'u' || e == 'U' {
            let n = if e == 'u' { 4 } else { 8 };
            let mut v: u64 = 0;
            for j in 0..n {
                v = v * 16 + body.get(k + 2 + j)?.to_digit(16)? as u64;
            }
            if is_bytes {
                return Some(Err(()));
            }
            match u32::try_from(v).ok().and_then(char::from_u32) {
                Some(ch) => out.push(ch as u32),
                None => return Some(Err(())),
            }
            k += 2 + n;
        } else if ('0'..='3').contains(&e) {
            let v = digits(k + 1, 3, 8)?;
            out.push(v);
            k += 4;
        } else {
            return None;
        }
    }
    Some(Ok((is_bytes, out)))
}
/// C12: a string / bytes literal token evaluates to the value the specification assigns to its text.
pub fn c12_literal() {
    let n: u8 = any();
    crate::sym::assume(n <= 24);
    let mut text: Vec<char> = Vec::new();
    for _ in 0..n {
        let c: u32 = any();
        match char::from_u32(c) {
            Some(ch) => text.push(ch),
            None => {
                crate::sym::assume(false);
                return;
            }
        }
    }
    let Some(want) = literal_reference(&text) else {
        crate::sym::assume(false);
        return;
    };
    let src: String = text.iter().collect();
    let got = Program::compile(&src).map(|p| p.execute(&Context::default()));
    match want {
        Err(()) => check!(got.is_err(), "a literal whose escape names no valid value is a compile error"),
        Ok((false, cps)) => {
            let s: String = cps.iter().map(|c| char::from_u32(*c).unwrap()).collect();
            check!(matches!(&got, Ok(Ok(Value::String(v))) if **v == s), "a string literal evaluates to the text it denotes");
        }
        Ok((true, bytes)) => {
            let b: Vec<u8> = bytes.iter().map(|x| *x as u8).collect();
            check!(matches!(&got, Ok(Ok(Value::Bytes(v))) if **v == b), "a bytes literal evaluates to the bytes it denotes");
        }
    }
}
/// C15 parse half: duration(text) through Program::compile + execute against the independent reader.
pub fn c15_parse() {
    let n: u8 = any();
    crate::sym::assume(n <= 48);
    let mut bytes: Vec<u8> = Vec::new();
    for _ in 0..n {
        bytes.push(any());
    }
    let Ok(text) = String::from_utf8(bytes.clone()) else {
        crate::sym::assume(false);
        return;
    };
    // a bare "0" / "-0" carries no obligation (accepted by Go, pinned by the repository's tests)
    crate::sym::assume(text != "0" && text != "-0");
    let mut ctx = Context::default();
    ctx.add_variable_from_value("s", Value::String(Arc::new(text.clone())));
    let got = Program::compile("duration(s)").expect("compiles").execute(&ctx);
    let want = crate::oracle::read_duration_bounds(&bytes);
    match (&want, &got) {
        (None, Err(_)) => {}
        (None, Ok(_)) => check!(false, "a text that is not a sequence of number-plus-unit terms is rejected"),
        (Some((lo, hi)), Err(_)) => {
            // an error is allowed for a well-formed text only beyond 64-bit nanoseconds
            let fits = *lo >= i64::MIN as i128 && *hi <= i64::MAX as i128;
            check!(!fits, "a well-formed duration text whose value fits 64-bit nanoseconds is accepted");
        }
        (Some((lo, hi)), Ok(Value::Duration(d))) => {
            let ns = d.num_seconds() as i128 * 1_000_000_000 + d.subsec_nanos() as i128;
            check!(*lo <= ns && ns <= *hi, "duration(text) is the exact nanosecond count the text denotes");
        }
        (Some(_), Ok(_)) => check!(false, "duration() returns a duration"),
    }
}
/// C07: a chain of field selections / a presence test over a logging root: the root is evaluated exactly once.
pub fn c07_select_chain() {
    let (test, depth): (u8, u8) = (any(), any());
    crate::sym::assume(test <= 1 && (1..=6).contains(&depth));
    let log: Arc<Mutex<Vec<usize>>> = Arc::new(Mutex::new(Vec::new()));
    let l = log.clone();
    let mut ctx = Context::default();
    // a map nested `depth` levels deep: {"a": {"a": ... 1}}
    let mut v = Value::Int(1);
    for _ in 0..depth {
        let mut m = std::collections::HashMap::new();
        m.insert("a".to_string(), v);
        v = m.into();
    }
    ctx.add_function("f0", move || -> Result<Value, ExecutionError> {
        l.lock().unwrap().push(0);
        Ok(v.clone())
    });
    let path: String = std::iter::repeat(".a").take(depth as usize).collect();
    let src = if test == 1 { format!("has(f0(){})", path) } else { format!("f0(){}", path) };
    let got = Program::compile(&src).expect("compiles").execute(&ctx);
    let calls = log.lock().unwrap().len();
    check!(calls == 1, "the root of a selection chain is evaluated exactly once");
    if test == 1 {
        check!(got == Ok(Value::Bool(true)), "has() of a present path is true");
    } else {
        check!(got == Ok(Value::Int(1)), "a selection chain yields the nested member");
    }
}
/// C10: the five macros with a body written over the iteration variable (`x == 2`, `x > 1`, `x in [..]`, ...), against a
/// fold that evaluates the body once per element in a context that binds only the iteration variable.
pub fn c10_body_over_variable() {
    let (mac, recv, body): (u8, u8, u8) = (any(), any(), any());
    crate::sym::assume(mac <= 4 && recv <= 3 && body <= 7);
    let name = ["all", "exists", "exists_one", "map", "filter"][mac as usize];
    let (rtxt, elems): (&str, Vec<Value>) = match recv {
        0 => ("[1, 2, 3]", vec![Value::Int(1), Value::Int(2), Value::Int(3)]),
        1 => ("[]", vec![]),
        2 => ("{1: 'a', 2: 'b'}", vec![Value::Int(1), Value::Int(2)]),
        _ => ("[2.0, 2u, 5]", vec![Value::Float(2.0), Value::UInt(2), Value::Int(5)]),
    };
    let btxt = ["x == 2", "x == 2.0", "x == c", "x == nope", "2 == x", "x > 1", "x in [2, 3]", "x != 2"][body as usize];
    // a map is folded in an unspecified key order: keep to bodies that cannot fail there
    crate::sym::assume(!(recv == 2 && body == 3));
    let mut ctx = Context::default();
    ctx.add_variable_from_value("c", Value::Int(2));
    let got = Program::compile(&format!("{}.{}(x, {})", rtxt, name, btxt)).expect("compiles").execute(&ctx);
    let bprog = Program::compile(btxt).expect("body compiles");
    let each: Vec<Result<Value, ExecutionError>> = elems
        .iter()
        .map(|e| {
            let mut inner = ctx.new_inner_scope();
            inner.add_variable_from_value("x", e.clone());
            bprog.execute(&inner)
        })
        .collect();
    let truth = |r: &Result<Value, ExecutionError>| matches!(r, Ok(Value::Bool(true)));
    let mut want: Result<Value, ()> = match mac {
        0 => Ok(Value::Bool(true)),
        1 => Ok(Value::Bool(false)),
        2 => Ok(Value::Int(0)),
        _ => Ok(Value::List(Arc::new(vec![]))),
    };
    let mut out: Vec<Value> = vec![];
    let mut count = 0;
    for (e, r) in elems.iter().zip(each.iter()) {
        if r.is_err() {
            want = Err(());
            break;
        }
        match mac {
            0 if !truth(r) => {
                want = Ok(Value::Bool(false));
                break;
            }
            1 if truth(r) => {
                want = Ok(Value::Bool(true));
                break;
            }
            2 if truth(r) => count += 1,
            3 => out.push(r.clone().unwrap()),
            4 if truth(r) => out.push(e.clone()),
            _ => {}
        }
    }
    if want.is_ok() {
        match mac {
            2 => want = Ok(Value::Bool(count == 1)),
            3 | 4 => want = Ok(Value::List(Arc::new(out))),
            _ => {}
        }
    }
    match (want, got) {
        (Err(()), g) => check!(g.is_err(), "an error raised by the body on a reached element aborts the macro"),
        (Ok(Value::List(w)), Ok(Value::List(g))) if recv == 2 => {
            let key = |v: &Value| format!("{:?}", v);
            let (mut a, mut b): (Vec<String>, Vec<String>) = (w.iter().map(key).collect(), g.iter().map(key).collect());
            a.sort();
            b.sort();
            check!(a == b, "map / filter over a map's keys yields the fold's elements");
        }
        (Ok(w), g) => check!(g == Ok(w), "the macro computes its defining fold with the body evaluated per element"),
    }
}
/// C08 / C03: unary minus on a double flips the sign bit (IEEE-754), for zeros, infinities and NaN as well.
pub fn c08_unary_minus_float() {
    let bits: u64 = any();
    let f = f64::from_bits(bits);
    let p = cel_interpreter::Program::compile("-x").unwrap();
    let mut ctx = cel_interpreter::Context::default();
    ctx.add_variable_from_value("x", Value::Float(f));
    let r = p.execute(&ctx);
    check!(matches!(&r, Ok(Value::Float(v)) if v.to_bits() == (-f).to_bits()), "unary minus on a double is IEEE-754 negation");
}
/// C07: a macro applied to a list literal evaluates the receiver's elements first (in order), then the body per element.
pub fn c07_macro_over_literal() {
    let (mac, n): (u8, u8) = (any(), any());
    crate::sym::assume(mac <= 4 && (1..=4).contains(&n));
    let name = ["all", "exists", "exists_one", "map", "filter"][mac as usize];
    let log: Arc<Mutex<Vec<i64>>> = Arc::new(Mutex::new(Vec::new()));
    let (l1, l2) = (log.clone(), log.clone());
    let mut ctx = Context::default();
    ctx.add_function("f", move |i: i64| -> i64 {
        l1.lock().unwrap().push(i);
        i
    });
    // the body's verdict keeps every macro going to the last element
    let verdict = mac != 1;
    ctx.add_function("g", move |i: i64| -> bool {
        l2.lock().unwrap().push(100 + i);
        verdict
    });
    let elems = (0..n).map(|j| format!("f({})", j)).collect::<Vec<_>>().join(", ");
    let got = Program::compile(&format!("[{}].{}(x, g(x))", elems, name)).expect("compiles").execute(&ctx);
    check!(got.is_ok(), "the macro evaluates");
    let want: Vec<i64> = (0..n as i64).chain((0..n as i64).map(|j| 100 + j)).collect();
    check!(*log.lock().unwrap() == want, "receiver first (its elements left to right), then the body once per element");
}
/// C20: host functions that combine extractors receive the call's data in order, whatever the call style; a missing
/// argument is an error, never an invocation with other data, and an extractor leaves the remaining arguments intact.
pub fn c20_extractor_combos() {
    use cel_interpreter::extractors::{Arguments, Identifier, This};
    use cel_interpreter::IdedExpr as Expression;
    let case: u8 = any();
    crate::sym::assume(case <= 9);
    let mut ctx = Context::default();
    ctx.add_variable_from_value("x", Value::Int(5));
    ctx.add_function("scale", |factor: i64, This(this): This<i64>| factor * 10 + this);
    ctx.add_function("ident_then_all", |id: Identifier, Arguments(all): Arguments| -> Result<Value, ExecutionError> {
        let mut out = vec![Value::String(id.0.clone())];
        out.extend(all.iter().cloned());
        Ok(Value::List(Arc::new(out)))
    });
    ctx.add_function("expr_then_all", |_e: Expression, Arguments(all): Arguments| -> Result<Value, ExecutionError> { Ok(Value::List(all.clone())) });
    ctx.add_function("two_idents", |a: Identifier, b: Identifier| -> Result<Value, ExecutionError> {
        Ok(Value::List(Arc::new(vec![Value::String(a.0.clone()), Value::String(b.0.clone())])))
    });
    ctx.add_function("ctx_then_ident", |ftx: &cel_interpreter::FunctionContext, id: Identifier| -> Result<Value, ExecutionError> {
        Ok(Value::List(Arc::new(vec![Value::Int(ftx.args.len() as i64), Value::String(id.0.clone())])))
    });
    let s = |t: &str| Value::String(Arc::new(t.to_string()));
    let l = |v: Vec<Value>| Value::List(Arc::new(v));
    let (src, want): (&str, Option<Value>) = match case {
        0 => ("scale(3, 7)", Some(Value::Int(37))),
        1 => ("7.scale(3)", Some(Value::Int(37))),
        2 => ("scale(3)", None),
        3 => ("scale()", None),
        4 => ("ident_then_all(x, 1, 2)", Some(l(vec![s("x"), Value::Int(5), Value::Int(1), Value::Int(2)]))),
        5 => ("expr_then_all(x + 1, 2)", Some(l(vec![Value::Int(6), Value::Int(2)]))),
        6 => ("two_idents(x, y)", Some(l(vec![s("x"), s("y")]))),
        7 => ("two_idents(x)", None),
        8 => ("ctx_then_ident(x)", Some(l(vec![Value::Int(1), s("x")]))),
        _ => ("ident_then_all(1, 2)", None),
    };
    let got = Program::compile(src).expect("compiles").execute(&ctx);
    match want {
        Some(v) => check!(got == Ok(v), "the host function receives receiver and arguments in order, each exactly as passed"),
        None => check!(got.is_err(), "a missing or wrongly shaped argument is an execution error, never an invocation with different data"),
    }
}
/// C04: a parenthesised prefix expression under a prefix operator, `OP(OP x)`, is the outer operator applied to the
/// inner expression's value - evaluated here in two separate steps for comparison.
pub fn c04_nested_prefix() {
    let (outer, inner, var): (u8, u8, u8) = (any(), any(), any());
    // operand 3 is the magnitude of the most negative int: with the inner `-` it is the literal -9223372036854775808
    crate::sym::assume(outer <= 1 && inner <= 1 && var <= 4 && !(var == 3 && inner == 0));
    let mut ctx = Context::default();
    ctx.add_variable_from_value("b", Value::Bool(true));
    ctx.add_variable_from_value("n", Value::Int(1));
    ctx.add_variable_from_value("m", Value::Int(i64::MIN));
    let v = ["b", "n", "m", "9223372036854775808", "5"][var as usize];
    let op = |k: u8| if k == 0 { "!" } else { "-" };
    let got = Program::compile(&format!("{}({}{})", op(outer), op(inner), v)).expect("compiles").execute(&ctx);
    let step1 = Program::compile(&format!("{}{}", op(inner), v)).expect("compiles").execute(&ctx);
    let want = match step1 {
        Err(_) => None,
        Ok(t) => {
            let mut c2 = ctx.new_inner_scope();
            c2.add_variable_from_value("t", t);
            Program::compile(&format!("{}t", op(outer))).expect("compiles").execute(&c2).ok()
        }
    };
    match want {
        None => check!(got.is_err(), "an error of the inner or the outer prefix operation is the result"),
        Some(w) => check!(got == Ok(w), "OP(OP x) applies the outer operator to the value of the inner expression"),
    }
}
/// C06 / C19 through Program::execute: an operand that is skipped is not looked at in any way - an undeclared function or
/// variable inside it is not an error - and a reached undeclared name is the error reported.
pub fn c06_skipped_undeclared() {
    let case: u8 = any();
    crate::sym::assume(case <= 9);
    let (src, want): (&str, Option<Value>) = match case {
        0 => ("false && nope(1)", Some(Value::Bool(false))),
        1 => ("true || nope(1)", Some(Value::Bool(true))),
        2 => ("true ? 1 : nope(1)", Some(Value::Int(1))),
        3 => ("false ? nope(1) : 2", Some(Value::Int(2))),
        4 => ("[1, 2, 3].all(x, x > 0 || nope(x))", Some(Value::Bool(true))),
        5 => ("false && missing_variable", Some(Value::Bool(false))),
        6 => ("true ? 1 : missing_variable", Some(Value::Int(1))),
        7 => ("[].map(x, nope(x))", Some(Value::List(Arc::new(vec![])))),
        8 => ("true && nope(1)", None),
        _ => ("false ? 1 : missing_variable", None),
    };
    let got = Program::compile(src).expect("compiles").execute(&Context::default());
    match want {
        Some(v) => check!(got == Ok(v), "a skipped operand is never evaluated: what it refers to does not matter"),
        None => check!(matches!(got, Err(ExecutionError::UndeclaredReference(_))), "a reached undeclared name is reported as such"),
    }
}
/// C04: which call shapes are macros (name, arity, receiver presence).  Host functions are registered under every macro name;
/// a call that is not a macro shape must reach the host function, a macro shape must not.
pub fn c04_macro_lookup() {
    let case: u8 = any();
    crate::sym::assume(case <= 15);
    let calls: Arc<Mutex<Vec<String>>> = Arc::new(Mutex::new(Vec::new()));
    let mut ctx = Context::default();
    for name in ["has", "all", "exists", "exists_one", "existsOne", "map", "filter"] {
        let l = calls.clone();
        ctx.add_function(name, move |_ftx: &cel_interpreter::FunctionContext| -> i64 {
            l.lock().unwrap().push(name.to_string());
            7
        });
    }
    ctx.add_variable_from_value("l", Value::List(Arc::new(vec![Value::Int(1), Value::Int(2)])));
    ctx.add_variable_from_value("x", Value::Int(1));
    let mut m = std::collections::HashMap::new();
    m.insert("k".to_string(), Value::Int(1));
    ctx.add_variable_from_value("m", m);
    let blist = |v: Vec<bool>| Value::List(Arc::new(v.into_iter().map(Value::Bool).collect()));
    let (src, host, want): (&str, Option<&str>, Value) = match case {
        0 => ("x.has(m.k)", Some("has"), Value::Int(7)),
        1 => ("has(m.k)", None, Value::Bool(true)),
        2 => ("all(l, 1)", Some("all"), Value::Int(7)),
        3 => ("l.all(v, v > 0)", None, Value::Bool(true)),
        4 => ("l.all(1)", Some("all"), Value::Int(7)),
        5 => ("map(l, 1)", Some("map"), Value::Int(7)),
        6 => ("l.map(v, v > 1, v > 0)", None, blist(vec![true])),
        7 => ("l.map(1, 2, 3, 4)", Some("map"), Value::Int(7)),
        8 => ("l.filter(v, v > 1)", None, Value::List(Arc::new(vec![Value::Int(2)]))),
        9 => ("filter(l, 1)", Some("filter"), Value::Int(7)),
        10 => ("l.exists_one(v, v == 1)", None, Value::Bool(true)),
        11 => ("l.existsOne(v, v == 1)", None, Value::Bool(true)),
        12 => ("l.exists(v, v == 3)", None, Value::Bool(false)),
        13 => ("x.has()", Some("has"), Value::Int(7)),
        14 => ("has(1, 2)", Some("has"), Value::Int(7)),
        _ => ("l.exists(1)", Some("exists"), Value::Int(7)),
    };
    let got = Program::compile(src).expect("compiles").execute(&ctx);
    let log = calls.lock().unwrap().clone();
    match host {
        Some(h) => check!(log == vec![h.to_string()] && got == Ok(want), "a call that is not a macro shape (name, arity, receiver) reaches the function of that name with its receiver and arguments"),
        None => check!(log.is_empty() && got == Ok(want), "a macro shape expands to its comprehension / presence test"),
    }
}
/// C17: structs, struct variants, maps and sequences whose members are the values a serializer could be tempted to treat
/// specially (None, unit, zero, false, empty): every field / entry / element is kept, with its kind.
pub fn c17_special_members() {
    use cel_interpreter::objects::{Key, Map};
    use serde::Serialize;
    #[derive(Serialize)]
    struct Unit;
    #[derive(Serialize)]
    struct St {
        name: &'static str,
        nick: Option<i64>,
        unit: (),
        marker: Unit,
        zero: i64,
        no: bool,
        none_inside: Option<Option<u8>>,
        empty: Vec<i64>,
    }
    #[derive(Serialize)]
    enum En {
        S { id: u64, payload: Option<i64> },
    }
    let case: u8 = any();
    crate::sym::assume(case <= 7);
    let smap = |pairs: Vec<(&str, Value)>| {
        let mut m = std::collections::HashMap::new();
        for (k, v) in pairs {
            m.insert(Key::String(Arc::new(k.to_string())), v);
        }
        Value::Map(Map { map: Arc::new(m) })
    };
    let empty = || Value::List(Arc::new(vec![]));
    // exact comparison: same keys, same kinds (numerically equal int / uint are NOT interchangeable here)
    fn same(a: &Value, b: &Value) -> bool {
        match (a, b) {
            (Value::Map(x), Value::Map(y)) => x.map.len() == y.map.len() && x.map.iter().all(|(k, v)| y.map.get(k).map(|w| same(v, w)).unwrap_or(false)),
            (Value::List(x), Value::List(y)) => x.len() == y.len() && x.iter().zip(y.iter()).all(|(v, w)| same(v, w)),
            (Value::Int(x), Value::Int(y)) => x == y,
            (Value::UInt(x), Value::UInt(y)) => x == y,
            (Value::Bool(x), Value::Bool(y)) => x == y,
            (Value::Null, Value::Null) => true,
            (Value::String(x), Value::String(y)) => x == y,
            _ => false,
        }
    }
    let s = |t: &str| Value::String(Arc::new(t.to_string()));
    let (got, want) = match case {
        0 => (
            cel_interpreter::to_value(St { name: "n", nick: None, unit: (), marker: Unit, zero: 0, no: false, none_inside: Some(None), empty: vec![] }),
            smap(vec![("name", s("n")), ("nick", Value::Null), ("unit", Value::Null), ("marker", Value::Null), ("zero", Value::Int(0)), ("no", Value::Bool(false)), ("none_inside", Value::Null), ("empty", empty())]),
        ),
        1 => (cel_interpreter::to_value(En::S { id: 0, payload: None }), smap(vec![("S", smap(vec![("id", Value::UInt(0)), ("payload", Value::Null)]))])),
        2 => (cel_interpreter::to_value(vec![None, Some(0i64), None]), Value::List(Arc::new(vec![Value::Null, Value::Int(0), Value::Null]))),
        3 => {
            let mut hm = std::collections::BTreeMap::new();
            hm.insert("a", None::<i64>);
            hm.insert("b", Some(0i64));
            (cel_interpreter::to_value(hm), smap(vec![("a", Value::Null), ("b", Value::Int(0))]))
        }
        // map keys of every integer width keep their signedness: unsigned keys are uint keys, signed keys int keys
        k => {
            let kmap = |key: Key| {
                let mut m = std::collections::HashMap::new();
                m.insert(key, Value::Int(1));
                Value::Map(Map { map: Arc::new(m) })
            };
            match k {
                4 => (cel_interpreter::to_value(std::collections::BTreeMap::from([(7u32, 1i64)])), kmap(Key::Uint(7))),
                5 => (cel_interpreter::to_value(std::collections::BTreeMap::from([(7u8, 1i64)])), kmap(Key::Uint(7))),
                6 => (cel_interpreter::to_value(std::collections::BTreeMap::from([(-7i16, 1i64)])), kmap(Key::Int(-7))),
                _ => (cel_interpreter::to_value(std::collections::BTreeMap::from([(7u16, 1i64)])), kmap(Key::Uint(7))),
            }
        }
    };
    check!(matches!(&got, Ok(v) if same(v, &want)), "every field / entry / element is kept with its own kind (keys keep their signedness), null and zero members included");
}
/// C09: lists and maps are equal exactly when their elements / entries are - also when both operands are the same
/// allocation (`x == x` on a variable, a value and its clone) and an element is not equal to itself (NaN).
pub fn c09_container_self_equality() {
    use cel_interpreter::objects::{Key, Map};
    let (shape, payload, via): (u8, u8, u8) = (any(), any(), any());
    crate::sym::assume(shape <= 3 && payload <= 1 && via <= 2);
    let elem = if payload == 0 { Value::Float(f64::NAN) } else { Value::Int(3) };
    let reflexive = payload == 1;
    let mk_map = |v: Value| {
        let mut m = std::collections::HashMap::new();
        m.insert(Key::String(Arc::new("k".to_string())), v);
        Value::Map(Map { map: Arc::new(m) })
    };
    let x = match shape {
        0 => Value::List(Arc::new(vec![elem.clone()])),
        1 => mk_map(elem.clone()),
        2 => Value::List(Arc::new(vec![Value::Int(1), Value::List(Arc::new(vec![elem.clone()]))])),
        _ => mk_map(Value::List(Arc::new(vec![elem.clone()]))),
    };
    let got: Result<Value, ExecutionError> = match via {
        0 => Ok(Value::Bool(x == x.clone())),
        1 => {
            let mut ctx = Context::default();
            ctx.add_variable_from_value("x", x.clone());
            Program::compile("x == x").expect("compiles").execute(&ctx)
        }
        _ => {
            let mut ctx = Context::default();
            ctx.add_variable_from_value("x", x.clone());
            Program::compile("x != x").expect("compiles").execute(&ctx).map(|v| match v {
                Value::Bool(b) => Value::Bool(!b),
                o => o,
            })
        }
    };
    check!(got == Ok(Value::Bool(reflexive)), "a list / map equals itself exactly when every element equals itself (NaN does not)");
}
/// C09: min / max of 1-4 mutually comparable numbers of mixed kinds (as separate arguments or one list) return one of the
/// values, and that value bounds all the others under the language's own `<=` / `>=`.
pub fn c09_min_max() {
    let (which, form, count): (u8, u8, u8) = (any(), any(), any());
    let perm: u8 = any();
    crate::sym::assume(which <= 1 && form <= 1 && (1..=4).contains(&count) && perm < 24);
    // a pool of values of the three numeric kinds with ties across kinds, taken in one of 24 orders
    let pool = ["3", "3u", "2.5", "-7", "9u", "3.0", "0", "-0.0"];
    let mut idx: Vec<usize> = vec![0, 1, 2, 3];
    let mut p = perm as usize;
    let mut order = Vec::new();
    for k in (1..=4).rev() {
        order.push(idx.remove(p % k));
        p /= k;
    }
    let start = (perm as usize) % 5;
    let items: Vec<&str> = order.iter().take(count as usize).map(|j| pool[(start + *j) % pool.len()]).collect();
    let name = if which == 0 { "max" } else { "min" };
    let src = if form == 0 { format!("{}({})", name, items.join(", ")) } else { format!("{}([{}])", name, items.join(", ")) };
    let ctx = Context::default();
    let got = Program::compile(&src).expect("compiles").execute(&ctx);
    let Ok(v) = got else {
        check!(false, "min / max of mutually comparable values is a value");
        return;
    };
    let mut c2 = Context::default();
    c2.add_variable_from_value("r", v);
    let rel = if which == 0 { ">=" } else { "<=" };
    let bounds = format!("[{}].all(x, r {} x) && [{}].exists(x, r == x)", items.join(", "), rel, items.join(", "));
    check!(Program::compile(&bounds).expect("compiles").execute(&c2) == Ok(Value::Bool(true)), "the result is one of the values and bounds all of them");
}
/// C14: size() of lists, maps, strings and bytes (function and method style), its additivity over `+`, startsWith / endsWith.
pub fn c14_size_affixes() {
    let (case, a, b): (u8, u8, u8) = (any(), any(), any());
    crate::sym::assume(case <= 5 && a <= 3 && b <= 3);
    let texts = ["", "a", "h\u{e9}", "\u{65e5}\u{672c}x"];
    let (ta, tb) = (texts[a as usize], texts[b as usize]);
    let list = |k: u8| Value::List(Arc::new((0..k as i64).map(Value::Int).collect()));
    let mut ctx = Context::default();
    ctx.add_variable_from_value("la", list(a));
    ctx.add_variable_from_value("lb", list(b));
    ctx.add_variable_from_value("sa", Value::String(Arc::new(ta.to_string())));
    ctx.add_variable_from_value("sb", Value::String(Arc::new(tb.to_string())));
    ctx.add_variable_from_value("ba", Value::Bytes(Arc::new(ta.as_bytes().to_vec())));
    let mut m = std::collections::HashMap::new();
    for j in 0..a {
        m.insert(format!("k{}", j), Value::Int(j as i64));
    }
    ctx.add_variable_from_value("ma", m);
    let run = |src: &str| Program::compile(src).expect("compiles").execute(&ctx);
    let int = |k: usize| Ok(Value::Int(k as i64));
    match case {
        0 => {
            check!(run("size(la)") == int(a as usize) && run("la.size()") == int(a as usize), "size of a list is its number of elements, in both call styles");
            check!(run("size(la + lb) == size(la) + size(lb)") == Ok(Value::Bool(true)), "size is additive over list concatenation");
        }
        1 => {
            check!(run("size(sa)") == int(ta.len()) && run("sa.size()") == int(ta.len()), "size of a string is the length of its text");
            check!(run("size(sa + sb) == size(sa) + size(sb)") == Ok(Value::Bool(true)), "size is additive over string concatenation");
        }
        2 => check!(run("size(ma)") == int(a as usize) && run("ma.size()") == int(a as usize), "size of a map is its number of entries"),
        3 => check!(run("size(ba)") == int(ta.len()), "size of a bytes value is its number of bytes"),
        4 => {
            check!(run("sa.startsWith(sb)") == Ok(Value::Bool(ta.starts_with(tb))), "startsWith is the prefix test of (receiver, argument)");
            check!(run("sa.endsWith(sb)") == Ok(Value::Bool(ta.ends_with(tb))), "endsWith is the suffix test of (receiver, argument)");
            check!(run("(sa + sb).startsWith(sa) && (sa + sb).endsWith(sb)") == Ok(Value::Bool(true)), "a concatenation starts with its left and ends with its right operand");
        }
        _ => check!(run("size(1)").is_err() && run("size(true)").is_err() && run("size(null)").is_err(), "size of a scalar is an error"),
    }
}
/// C06: operator nodes whose operands are nodes of the same operator (else-if ladders, nested conditionals, chains,
/// double negation) over logging operands, against Rust's own short-circuit evaluation of the same shape.
pub fn c06_nested_operators() {
    let (case, bits): (u8, u8) = (any(), any());
    crate::sym::assume(case <= 8 && bits < 8);
    let b = |k: u8| (bits >> k) & 1 == 1;
    let log: Arc<Mutex<Vec<i64>>> = Arc::new(Mutex::new(Vec::new()));
    let l1 = log.clone();
    let mut ctx = Context::default();
    // t(k, v): logs k, returns v
    ctx.add_function("t", move |k: i64, v: Value| -> Result<Value, ExecutionError> {
        l1.lock().unwrap().push(k);
        Ok(v)
    });
    let want_log: std::cell::RefCell<Vec<i64>> = std::cell::RefCell::new(Vec::new());
    let tb = |k: i64, v: bool| -> bool {
        want_log.borrow_mut().push(k);
        v
    };
    let ti = |k: i64, v: i64| -> i64 {
        want_log.borrow_mut().push(k);
        v
    };
    let c = |k: u8| format!("t({}, {})", k, b(k));
    let (src, want): (String, Value) = match case {
        0 => (format!("{} ? t(10, 1) : ({} ? t(11, 2) : t(12, 3))", c(0), c(1)), Value::Int(if tb(0, b(0)) { ti(10, 1) } else if tb(1, b(1)) { ti(11, 2) } else { ti(12, 3) })),
        1 => (format!("{} ? ({} ? t(10, 1) : t(11, 2)) : t(12, 3)", c(0), c(1)), Value::Int(if tb(0, b(0)) { if tb(1, b(1)) { ti(10, 1) } else { ti(11, 2) } } else { ti(12, 3) })),
        2 => (format!("({} ? {} : {}) ? t(10, 1) : t(11, 2)", c(0), c(1), c(2)), Value::Int(if (if tb(0, b(0)) { tb(1, b(1)) } else { tb(2, b(2)) }) { ti(10, 1) } else { ti(11, 2) })),
        3 => (format!("{} ? t(10, 1) : {} ? t(11, 2) : {} ? t(12, 3) : t(13, 4)", c(0), c(1), c(2)),
              Value::Int(if tb(0, b(0)) { ti(10, 1) } else if tb(1, b(1)) { ti(11, 2) } else if tb(2, b(2)) { ti(12, 3) } else { ti(13, 4) })),
        4 => (format!("{} && ({} && {})", c(0), c(1), c(2)), Value::Bool(tb(0, b(0)) && (tb(1, b(1)) && tb(2, b(2))))),
        5 => (format!("({} && {}) && {}", c(0), c(1), c(2)), Value::Bool((tb(0, b(0)) && tb(1, b(1))) && tb(2, b(2)))),
        6 => (format!("{} || ({} || {})", c(0), c(1), c(2)), Value::Bool(tb(0, b(0)) || (tb(1, b(1)) || tb(2, b(2))))),
        7 => (format!("({} || {}) || {}", c(0), c(1), c(2)), Value::Bool((tb(0, b(0)) || tb(1, b(1))) || tb(2, b(2)))),
        _ => (format!("!(!{})", c(0)), Value::Bool(!(!tb(0, b(0))))),
    };
    let got = Program::compile(&src).expect("compiles").execute(&ctx);
    check!(got == Ok(want), "nested operator nodes yield the value of the same shape evaluated with short-circuiting");
    check!(*log.lock().unwrap() == *want_log.borrow(), "exactly the operands that short-circuit evaluation needs are evaluated, in order");
}
/// C07 / C20: a receiver-style call of a host function that needs more positional arguments than were written is an
/// InvalidArgumentCount error after ONE attempt: receiver and arguments are evaluated once, nothing is re-bound or replayed.
pub fn c07_method_too_few_arguments() {
    let case: u8 = any();
    crate::sym::assume(case <= 2);
    let log: Arc<Mutex<Vec<i64>>> = Arc::new(Mutex::new(Vec::new()));
    let l = log.clone();
    let mut ctx = Context::default();
    ctx.add_function("log", move |v: i64| -> i64 {
        l.lock().unwrap().push(v);
        v
    });
    ctx.add_function("pair", |a: i64, b: i64| a * 100 + b);
    ctx.add_function("triple", |a: i64, b: i64, c: i64| a * 10000 + b * 100 + c);
    let (src, want_log): (&str, Vec<i64>) = match case {
        0 => ("log(1).pair(log(2))", vec![1, 2]),
        1 => ("log(1).triple(log(2), log(3))", vec![1, 2, 3]),
        _ => ("log(1).pair()", vec![1]),
    };
    let got = Program::compile(src).expect("compiles").execute(&ctx);
    check!(matches!(got, Err(ExecutionError::InvalidArgumentCount { .. })), "a missing positional argument is an InvalidArgumentCount error, never an invocation with other data");
    check!(*log.lock().unwrap() == want_log, "receiver and arguments are evaluated once each, left to right");
}
/// C04: a parenthesised `&&` / `||` group is one operand of the enclosing chain of the same operator - the tree keeps the
/// grouping that the parentheses wrote (read back as a fully parenthesised text and compared).
pub fn c04_grouped_chain() {
    use cel_parser::ast::{Expr, IdedExpr};
    let (op, case): (u8, u8) = (any(), any());
    crate::sym::assume(op <= 1 && case <= 5);
    let o = if op == 0 { "||" } else { "&&" };
    fn render(e: &IdedExpr) -> String {
        match &e.expr {
            Expr::Ident(n) => n.clone(),
            Expr::Call(c) if c.args.len() == 2 && c.target.is_none() => {
                let name = c.func_name.trim_matches('_');
                format!("({} {} {})", render(&c.args[0]), name, render(&c.args[1]))
            }
            other => format!("<{:?}>", other),
        }
    }
    // sources whose grouping is fully determined by their parentheses
    let src = match case {
        0 => format!("a {o} (b {o} c)"),
        1 => format!("(a {o} b) {o} c"),
        2 => format!("a {o} (b {o} c) {o} d"),
        3 => format!("a {o} b {o} (c {o} d)"),
        4 => format!("(a {o} (b {o} c)) {o} d"),
        _ => format!("a {o} ((b {o} c) {o} d)"),
    };
    let tree = cel_parser::Parser::new().parse(&src).expect("parses");
    let text = render(&tree);
    // every parenthesised group of the source must be a sub-tree: its rendering occurs in the tree's rendering
    let groups: Vec<String> = match case {
        0 => vec![format!("(b {o} c)")],
        1 => vec![format!("(a {o} b)")],
        2 => vec![format!("(b {o} c)")],
        3 => vec![format!("(c {o} d)")],
        4 => vec![format!("(b {o} c)"), format!("(a {o} (b {o} c))")],
        _ => vec![format!("(b {o} c)"), format!("((b {o} c) {o} d)")],
    };
    check!(groups.iter().all(|g| text.contains(g.as_str())), "a parenthesised group of the same operator stays one operand of the enclosing chain");
    // and the operands are read in source order
    let leaves: String = text.chars().filter(|c| c.is_ascii_lowercase()).collect();
    let want: String = src.chars().filter(|c| c.is_ascii_lowercase()).collect();
    check!(leaves == want, "the operands appear in source order");
}
/// C20: a host function registered under a built-in's name replaces it - in both call styles and for every receiver kind.
pub fn c20_builtin_override() {
    use cel_interpreter::extractors::{Arguments, This};
    let case: u8 = any();
    crate::sym::assume(case <= 9);
    let mut ctx = Context::default();
    ctx.add_function("size", |This(_v): This<Value>| -> i64 { -1 });
    ctx.add_function("contains", |This(_v): This<Value>, _x: Value| -> i64 { -2 });
    ctx.add_function("max", |Arguments(_a): Arguments| -> i64 { -3 });
    ctx.add_function("string", |This(_v): This<Value>| -> i64 { -4 });
    let (src, want): (&str, i64) = match case {
        0 => ("[1, 2].size()", -1),
        1 => ("size([1, 2])", -1),
        2 => ("'h\u{e9}llo'.size()", -1),
        3 => ("{'a': 1}.size()", -1),
        4 => ("b'ab'.size()", -1),
        5 => ("[1, 2].contains(1)", -2),
        6 => ("'ab'.contains('a')", -2),
        7 => ("max(1, 2)", -3),
        8 => ("[1, 2].max()", -3),
        _ => ("1.string()", -4),
    };
    let got = Program::compile(src).expect("compiles").execute(&ctx);
    check!(got == Ok(Value::Int(want)), "the function registered under a built-in's name is the one that runs, whatever the call style and receiver");
}
/// C10: the three-argument map evaluates the transform only for elements the filter accepts (after the filter), filter does
/// not touch rejected elements: observed through a transform that fails / logs.
pub fn c10_map_filter_order() {
    let case: u8 = any();
    crate::sym::assume(case <= 3);
    let log: Arc<Mutex<Vec<i64>>> = Arc::new(Mutex::new(Vec::new()));
    let l = log.clone();
    let mut ctx = Context::default();
    ctx.add_function("f", move |v: i64| -> i64 {
        l.lock().unwrap().push(v);
        v * 10
    });
    let ints = |v: Vec<i64>| Value::List(Arc::new(v.into_iter().map(Value::Int).collect()));
    let (src, want, want_log): (&str, Value, Vec<i64>) = match case {
        0 => ("[0, 1, 2, 0, 5].map(x, x != 0, 10 / x)", ints(vec![10, 5, 2]), vec![]),
        1 => ("[1, 2, 3, 4].map(x, x % 2 == 0, f(x))", ints(vec![20, 40]), vec![2, 4]),
        2 => ("[1, 2, 3].map(x, f(x) > 10, x)", ints(vec![2, 3]), vec![1, 2, 3]),
        _ => ("[[0, 2], [1]].map(l, l.map(x, x != 0, 4 / x))", Value::List(Arc::new(vec![ints(vec![2]), ints(vec![4])])), vec![]),
    };
    let got = Program::compile(src).expect("compiles").execute(&ctx);
    check!(got == Ok(want), "map(x, filter, transform) applies the transform to the accepted elements only");
    check!(*log.lock().unwrap() == want_log, "the transform runs once per accepted element, after its filter");
}
/// C04 visitor half: a run of k prefix operators applies the operator k times (an even run cancels).
pub fn c04_prefix() {
    let (op, k, operand): (u8, u8, u8) = (any(), any(), any());
    crate::sym::assume(op <= 1 && (1..=9).contains(&k) && operand <= 1);
    let mut ctx = Context::default();
    ctx.add_variable_from_value("b", Value::Bool(true));
    ctx.add_variable_from_value("n", Value::Int(5));
    let run: String = std::iter::repeat(if op == 0 { '!' } else { '-' }).take(k as usize).collect();
    let src = match (op, operand) {
        (0, 0) => format!("{}true", run),
        (0, _) => format!("{}b", run),
        (_, 0) => format!("{}(5)", run),
        _ => format!("{}n", run),
    };
    let got = Program::compile(&src).expect("compiles").execute(&ctx);
    let want = if op == 0 { Value::Bool(k % 2 == 0) } else { Value::Int(if k % 2 == 0 { 5 } else { -5 }) };
    check!(got == Ok(want), "k prefix operators apply the operator k times");
}
/// C04 visitor half: a binary / ternary rule builds exactly one call of its operator over its two / three operands.
pub fn c04_binary() {
    let (op, ls, rs): (u8, u8, u8) = (any(), any(), any());
    crate::sym::assume(op <= 12 && ls <= 2 && rs <= 2);
    let table: [(&str, &str); 13] = [("<", "_<_"), ("<=", "_<=_"), (">", "_>_"), (">=", "_>=_"), ("==", "_==_"), ("!=", "_!=_"), ("in", "@in"),
        ("*", "_*_"), ("/", "_/_"), ("%", "_%_"), ("+", "_+_"), ("-", "_-_"), ("?", "_?_:_")];
    let (text, name) = table[op as usize];
    let shape = |k: u8, var: &str, lit: i64| -> (String, i64, bool) {
        match k {
            0 => (var.to_string(), if var == "x" { 7 } else { 3 }, false),
            1 => (format!("-{}", var), if var == "x" { -7 } else { -3 }, true),
            _ => (format!("{}", lit), lit, false),
        }
    };
    let (l, lv, lneg) = shape(ls, "x", 11);
    let (r, rv, rneg) = shape(rs, "y", 5);
    let mut ctx = Context::default();
    ctx.add_variable_from_value("x", Value::Int(7));
    ctx.add_variable_from_value("y", Value::Int(3));
    let src = if text == "?" { format!("{} < {} ? {} : {}", l, r, l, r) } else if text == "in" { format!("{} in [{}]", l, r) } else { format!("{} {} {}", l, text, r) };
    let program = Program::compile(&src).expect("compiles");
    let refs = program.references();
    let mut got: Vec<&str> = refs.functions();
    got.sort();
    got.dedup();
    let mut want: Vec<&str> = vec![name];
    if text == "?" {
        want.push("_<_");
    }
    if lneg || rneg {
        want.push("-_");
    }
    want.sort();
    check!(got == want, "the tree contains exactly the operator written and the operands' own operators");
    let want_val = match text {
        "<" => Value::Bool(lv < rv), "<=" => Value::Bool(lv <= rv), ">" => Value::Bool(lv > rv), ">=" => Value::Bool(lv >= rv),
        "==" => Value::Bool(lv == rv), "!=" => Value::Bool(lv != rv), "in" => Value::Bool(lv == rv),
        "*" => Value::Int(lv * rv), "/" => Value::Int(lv / rv), "%" => Value::Int(lv % rv), "+" => Value::Int(lv + rv), "-" => Value::Int(lv - rv),
        _ => Value::Int(if lv < rv { lv } else { rv }),
    };
    check!(program.execute(&ctx) == Ok(want_val), "the operator is applied to (left, right)");
}
/// C04 visitor half: a chain of n operands under && / || keeps them in source order.
pub fn c04_chain() {
    let (op, n): (u8, u8) = (any(), any());
    crate::sym::assume(op <= 1 && (1..=64).contains(&n));
    let log: Arc<Mutex<Vec<i64>>> = Arc::new(Mutex::new(Vec::new()));
    let mut ctx = Context::default();
    {
        let l = log.clone();
        // `&&` goes on while operands are true, `||` while they are false: every operand is evaluated
        ctx.add_function("f", move |j: i64| -> bool {
            l.lock().unwrap().push(j);
            op == 0
        });
    }
    let src = (0..n).map(|j| format!("f({})", j)).collect::<Vec<_>>().join(if op == 0 { " && " } else { " || " });
    let got = Program::compile(&src).expect("compiles").execute(&ctx);
    check!(got == Ok(Value::Bool(op == 0)), "the chain evaluates to the common value of its operands");
    let calls = log.lock().unwrap().clone();
    check!(calls == (0..n as i64).collect::<Vec<_>>(), "the operands are evaluated once each in source order");
}
/// C13 string() half: string(x) followed by the inverse conversion returns the original int, uint or double.
pub fn c13_string_roundtrip() {
    let kind: u8 = any();
    let bits: u64 = any();
    crate::sym::assume(kind <= 2);
    let mut ctx = Context::default();
    let (src, original) = match kind {
        0 => ("int(string(x))", Value::Int(bits as i64)),
        1 => ("uint(string(x))", Value::UInt(bits)),
        _ => ("double(string(x))", Value::Float(f64::from_bits(bits))),
    };
    ctx.add_variable_from_value("x", original.clone());
    let got = Program::compile(src).expect("compiles").execute(&ctx);
    match (&original, &got) {
        (Value::Float(f), Ok(Value::Float(g))) => check!(f.to_bits() == g.to_bits() || (f.is_nan() && g.is_nan()), "string(double) reads back to the same double"),
        (o, Ok(g)) => check!(o == g, "string(int | uint) reads back to the same number"),
        _ => check!(false, "string() followed by the inverse conversion succeeds"),
    }
}
/// C13 literal half: an int / uint literal in either radix with an optional sign evaluates to the number
/// it denotes, or is a compile error when that number does not fit.
pub fn c13_literal() {
    let (method, neg, hex): (u8, u8, u8) = (any(), any(), any());
    let mag: u128 = any();
    crate::sym::assume(method <= 1 && neg <= 1 && hex <= 1 && !(method == 1 && neg == 1));
    let digits = if hex == 1 { format!("0x{:x}", mag) } else { format!("{}", mag) };
    let src = format!("{}{}{}", if neg == 1 { "-" } else { "" }, digits, if method == 1 { "u" } else { "" });
    let got = Program::compile(&src).map(|p| p.execute(&Context::default()));
    let denoted: i128 = if mag > (1u128 << 100) { i128::MAX } else if neg == 1 { -(mag as i128) } else { mag as i128 };
    if method == 0 {
        match i64::try_from(denoted) {
            Ok(n) => check!(matches!(&got, Ok(Ok(Value::Int(v))) if *v == n), "an int literal within range evaluates to the number it denotes"),
            Err(_) => check!(got.is_err(), "an int literal out of range is a compile error"),
        }
    } else {
        match u64::try_from(denoted) {
            Ok(n) => check!(matches!(&got, Ok(Ok(Value::UInt(v))) if *v == n), "a uint literal within range evaluates to the number it denotes"),
            Err(_) => check!(got.is_err(), "a uint literal out of range is a compile error"),
        }
    }
}
/// C13 literal half, doubles: a fixed list of texts.
pub fn c13_double_literal() {
    let code: u8 = any();
    let cases: [(&str, Option<f64>); 8] = [("1.5", Some(1.5)), ("-0.0", Some(-0.0)), ("1e308", Some(1e308)), ("1e309", None), ("1e400", None),
        ("4.9e-324", Some(4.9e-324)), ("1e-400", Some(0.0)), ("-1e400", None)];
    crate::sym::assume((code as usize) < cases.len());
    let (src, want) = cases[code as usize];
    let got = Program::compile(src).map(|p| p.execute(&Context::default()));
    match want {
        Some(d) => check!(matches!(&got, Ok(Ok(Value::Float(v))) if v.to_bits() == d.to_bits()), "a finite double literal evaluates to its value"),
        None => check!(got.is_err(), "a double literal out of range is a compile error"),
    }
}
/// C10: an error raised by the body on an element that is reached aborts the macro with that error.
pub fn c10_error_element() {
    let (mac, n, err_pos, bits): (u8, u8, u8, u8) = (any(), any(), any(), any());
    crate::sym::assume(mac <= 4 && (1..=4).contains(&n) && err_pos < n);
    let mut ctx = Context::default();
    ctx.add_function("p", move |i: i64| -> Result<bool, ExecutionError> {
        if i as u8 == err_pos {
            Err(ExecutionError::function_error("p", "element fails"))
        } else {
            Ok((bits >> i) & 1 == 1)
        }
    });
    let name = ["all", "exists", "exists_one", "map", "filter"][mac as usize];
    let list = (0..n).map(|j| j.to_string()).collect::<Vec<_>>().join(", ");
    let src = format!("[{}].{}(x, p(x))", list, name);
    let got = Program::compile(&src).expect("compiles").execute(&ctx);
    // the failing element is reached unless an earlier element already decided all / exists
    let decided_before = (0..err_pos).any(|i| {
        let b = (bits >> i) & 1 == 1;
        (mac == 0 && !b) || (mac == 1 && b)
    });
    if decided_before {
        check!(got == Ok(Value::Bool(mac == 1)), "elements after the deciding one are not visited");
    } else {
        check!(matches!(&got, Err(ExecutionError::FunctionError { .. })), "an error raised by the body on a reached element aborts the macro with that error");
    }
}
/// C10: macros whose predicate / transform is a literal, over lists, maps and a non-collection receiver.
pub fn c10_literal_predicate() {
    let (mac, pred, recv): (u8, u8, u8) = (any(), any(), any());
    crate::sym::assume(mac <= 4 && pred <= 1 && recv <= 4);
    let p = pred == 0;
    let ptxt = if p { "true" } else { "false" };
    let (rtxt, elems): (&str, Option<Vec<Value>>) = match recv {
        0 => ("[1, 2]", Some(vec![Value::Int(1), Value::Int(2)])),
        1 => ("{'a': 1}", Some(vec![Value::String(Arc::new("a".to_string()))])),
        2 => ("[]", Some(vec![])),
        3 => ("[7]", Some(vec![Value::Int(7)])),
        _ => ("5", None),
    };
    let name = ["all", "exists", "exists_one", "map", "filter"][mac as usize];
    let src = format!("{}.{}(x, {})", rtxt, name, ptxt);
    let got = Program::compile(&src).expect("compiles").execute(&Context::default());
    let Some(elems) = elems else {
        check!(got.is_err(), "a macro over a non-collection is an error");
        return;
    };
    let n = elems.len();
    let want = match mac {
        0 => Value::Bool(!(n > 0 && !p)),
        1 => Value::Bool(n > 0 && p),
        2 => Value::Bool(p && n == 1),
        3 => Value::List(Arc::new(elems.iter().map(|_| Value::Bool(p)).collect())),
        _ => Value::List(Arc::new(if p { elems.clone() } else { vec![] })),
    };
    check!(got == Ok(want), "the macro computes its defining fold over the elements (map: the keys)");
}
/// C10 native replay: the five macros over a list of 0-3 booleans with a logging predicate.
pub fn c10_macro() {
    let (mac, n, bits): (u8, u8, u8) = (any(), any(), any());
    crate::sym::assume(mac <= 5 && n <= 3 && bits < 8);
    let elems: Vec<bool> = (0..n).map(|k| (bits >> k) & 1 == 1).collect();
    let log: Arc<Mutex<Vec<bool>>> = Arc::new(Mutex::new(Vec::new()));
    let mut ctx = Context::default();
    {
        let l = log.clone();
        ctx.add_function("p", move |b: bool| -> bool {
            l.lock().unwrap().push(b);
            b
        });
    }
    let list = format!("[{}]", elems.iter().map(|b| b.to_string()).collect::<Vec<_>>().join(", "));
    let src = match mac {
        0 => format!("{}.all(x, p(x))", list),
        1 => format!("{}.exists(x, p(x))", list),
        2 => format!("{}.exists_one(x, p(x))", list),
        3 => format!("{}.map(x, p(x))", list),
        4 => format!("{}.map(x, p(x), !x)", list),
        _ => format!("{}.filter(x, p(x))", list),
    };
    let got = Program::compile(&src).expect("macro source compiles").execute(&ctx);
    let calls = log.lock().unwrap().clone();
    let blist = |v: Vec<bool>| Value::List(Arc::new(v.into_iter().map(Value::Bool).collect()));
    let (want, want_calls): (Value, Vec<bool>) = match mac {
        0 => {
            let stop = elems.iter().position(|b| !*b).map(|i| i + 1).unwrap_or(elems.len());
            (Value::Bool(elems.iter().all(|b| *b)), elems[..stop].to_vec())
        }
        1 => {
            let stop = elems.iter().position(|b| *b).map(|i| i + 1).unwrap_or(elems.len());
            (Value::Bool(elems.iter().any(|b| *b)), elems[..stop].to_vec())
        }
        2 => (Value::Bool(elems.iter().filter(|b| **b).count() == 1), elems.clone()),
        3 => (blist(elems.clone()), elems.clone()),
        4 => (blist(elems.iter().filter(|b| **b).map(|b| !*b).collect()), elems.clone()),
        _ => (blist(elems.iter().filter(|b| **b).cloned().collect()), elems.clone()),
    };
    check!(got == Ok(want), "macro computes its defining fold");
    check!(calls == want_calls, "macro visits the elements in order and stops at the first deciding one");
}
/// C19 native replay: an undeclared variable and an undeclared function placed in one syntactic
/// position; whatever execution reports as undeclared must be among the program's references,
/// and once every reported name is defined execution no longer fails with an undeclared name.
pub fn c19_references() {
    let pos: u8 = any();
    crate::sym::assume(pos <= 14);
    let make = |hole: &str| -> String {
        match pos {
            10 => format!("[1, 2].filter(x, {})", hole),
            11 => format!("[1, 2].map(x, {}, x)", hole),
            12 => format!("[1, 2].exists_one(x, {})", hole),
            13 => format!("[1, 2].exists(x, {})", hole),
            14 => format!("{{1: 2}}.all(k, {})", hole),
            0 => format!("size([{}])", hole),
            1 => format!("[{}].size()", hole),
            2 => format!("[1, {}, 3]", hole),
            3 => format!("{{{}: 1}}", hole),
            4 => format!("{{1: {}}}", hole),
            5 => format!("{}.field", hole),
            6 => format!("{}.map(x, x)", hole),
            7 => format!("[1, 2].map(x, {})", hole),
            8 => format!("true ? {} : 1", hole),
            _ => format!("[1].all(y, [2].exists(z, {}))", hole),
        }
    };
    for hole in ["undecl_var", "undecl_fn(1)", "_private", "_", "X9"] {
        let program = Program::compile(&make(hole)).expect("source compiles");
        let refs = program.references();
        let got = program.execute(&Context::default());
        if let Err(ExecutionError::UndeclaredReference(name)) = &got {
            check!(refs.has_variable(name.as_str()) || refs.has_function(name.as_str()), "an undeclared name that execution trips over is among the reported references");
        }
        check!(refs.variables().iter().all(|v| !v.starts_with('@')), "macro accumulators are never reported");
        // define everything that is reported: no undeclared reference can remain
        let mut ctx = Context::default();
        for v in refs.variables() {
            ctx.add_variable_from_value(v, Value::Int(1));
        }
        for f in refs.functions() {
            if !ctx.get_variable("__never").is_ok() && f == "undecl_fn" {
                ctx.add_function(f, |_a: Value| 1i64);
            }
        }
        let again = program.execute(&ctx);
        check!(!matches!(again, Err(ExecutionError::UndeclaredReference(_))), "with every reported name defined, execution does not fail with an undeclared reference");
    }
}
/// `l + r` on lists and strings whose allocations are shared or not (C14: order, additivity, operands intact).
pub fn c14_concat() {
    let (kind, nl, nr, alias, sl, sr): (u8, u8, u8, u8, u8, u8) = (any(), any(), any(), any(), any(), any());
    crate::sym::assume(kind <= 1 && nl <= 3 && nr <= 3 && alias <= 1 && (1..=4).contains(&sl) && (1..=4).contains(&sr));
    let elems = |side: i64, n: u8| -> Vec<Value> { (0..n as i64).map(|j| Value::Int(side * 10 + j)).collect() };
    let text = |side: char, n: u8| -> String { (0..n).map(|j| if side == 'l' { ['a', 'é', 'c'][j as usize] } else { ['x', 'y', 'ü'][j as usize] }).collect() };
    let mk = |side: i64, n: u8| -> Value {
        if kind == 0 {
            Value::List(Arc::new(elems(side, n)))
        } else {
            Value::String(Arc::new(text(if side == 1 { 'l' } else { 'r' }, n)))
        }
    };
    let l = mk(1, nl);
    let r = if alias == 1 { l.clone() } else { mk(2, nr) };
    // other holders of the same allocations (variables, earlier results)
    let handles_l = if alias == 1 { 2 } else { 1 };
    let keep_l: Vec<Value> = (handles_l..sl.max(handles_l)).map(|_| l.clone()).collect();
    let keep_r: Vec<Value> = if alias == 1 { vec![] } else { (1..sr).map(|_| r.clone()).collect() };
    let (l0, r0) = (mk(1, nl), if alias == 1 { mk(1, nl) } else { mk(2, nr) });
    let got = l + r;
    let want = match (&l0, &r0) {
        (Value::List(a), Value::List(b)) => Value::List(Arc::new(a.iter().chain(b.iter()).cloned().collect())),
        (Value::String(a), Value::String(b)) => Value::String(Arc::new(format!("{}{}", a, b))),
        _ => unreachable!(),
    };
    check!(got == Ok(want), "l + r is the left operand's elements followed by the right's");
    for k in keep_l.iter() {
        check!(*k == l0, "a left operand that is still referenced elsewhere is intact");
    }
    for k in keep_r.iter() {
        check!(*k == r0, "a right operand that is still referenced elsewhere is intact");
    }
}
pub fn c02_concat() {
    c14_concat()
}
/// Field selection `x.field` and presence test `has(x.field)` (C14: the ways of asking agree; C02: no panic).
pub fn c14_select() {
    use cel_interpreter::objects::{Key, Map};
    let (test, lk, cfg, hf): (u8, u8, u8, u8) = (any(), any(), any(), any());
    crate::sym::assume(test <= 1 && lk <= 5 && cfg <= 7 && hf <= 1);
    let skey = |s: &str| Key::String(Arc::new(s.to_string()));
    let cfgs: [Vec<Key>; 8] = [
        vec![],
        vec![skey("field")],
        vec![skey("other")],
        vec![skey("field"), skey("other")],
        vec![skey("other"), skey("field")],
        vec![Key::Int(1)],
        vec![Key::Bool(true), skey("other")],
        vec![Key::Int(1), skey("field")],
    ];
    let left: Option<Value> = match lk {
        0 => None,
        1 => Some(Value::Int(7)),
        2 => Some(Value::Null),
        3 => Some(Value::String(Arc::new("field".to_string()))),
        4 => Some(Value::List(Arc::new(vec![Value::Int(1)]))),
        _ => {
            let mut m = std::collections::HashMap::new();
            for (j, k) in cfgs[cfg as usize].iter().enumerate() {
                m.insert(k.clone(), Value::Int(100 + j as i64));
            }
            Some(Value::Map(Map { map: Arc::new(m) }))
        }
    };
    let mut ctx = Context::default();
    if let Some(v) = &left {
        ctx.add_variable_from_value("x", v.clone());
    }
    if hf == 1 {
        ctx.add_function("field", || -> i64 { 0 });
    }
    let src = if test == 1 { "has(x.field)" } else { "x.field" };
    let got = Program::compile(src).expect("compiles").execute(&ctx);
    let Some(left) = left else {
        check!(matches!(&got, Err(ExecutionError::UndeclaredReference(n)) if n.as_str() == "x"), "a failing operand is the result");
        return;
    };
    let entry = match &left {
        Value::Map(m) => m.get(&skey("field")).cloned(),
        _ => None,
    };
    // the other ways of asking about the key must agree with has()
    if let Value::Map(_) = &left {
        let by_in = Program::compile("'field' in x").unwrap().execute(&ctx);
        let by_index = Program::compile("x['field']").unwrap().execute(&ctx);
        check!(by_in == Ok(Value::Bool(entry.is_some())), "'field' in x agrees with the map's contents");
        check!(by_index == Ok(entry.clone().unwrap_or(Value::Null)), "x['field'] agrees with the map's contents");
    }
    if test == 1 {
        check!(got == Ok(Value::Bool(entry.is_some())), "has(x.field) is exactly the presence of the key");
    } else if let Some(v) = entry {
        check!(got == Ok(v), "x.field is the entry");
    } else if hf == 1 {
        check!(matches!(&got, Ok(Value::Function(n, Some(t))) if n.as_str() == "field" && **t == left), "x.field without such a key is the bound method");
    } else {
        check!(matches!(&got, Err(ExecutionError::NoSuchKey(n)) if n.as_str() == "field"), "x.field without such a key or function is NoSuchKey");
    }
}
pub fn c02_select() {
    c14_select()
}
/// Index `a[b]` and membership `a in b` over values of every kind (C14 access half, C02: no panic).
pub fn c14_access() {
    use cel_interpreter::objects::{Key, Map};
    let (op, lk, rk): (u8, u8, u8) = (any(), any(), any());
    let (p0, p1): (i64, i64) = (any(), any());
    crate::sym::assume(op <= 1 && lk <= 7 && rk <= 7);
    let mk = |kind: u8, p: i64| -> Option<Value> {
        Some(match kind {
            0 => return None, // an operand that fails
            1 => Value::Int(p),
            2 => Value::UInt(p as u64),
            3 => Value::Bool(p & 1 == 1),
            4 => Value::Null,
            5 => Value::String(Arc::new(if p & 1 == 0 { "héllo".to_string() } else { "l".to_string() })),
            6 => Value::List(Arc::new(vec![Value::Int(10), Value::UInt(11)])),
            _ => {
                let mut m = std::collections::HashMap::new();
                m.insert(Key::Int(1), Value::Int(100));
                m.insert(Key::Uint(2), Value::Int(200));
                m.insert(Key::Bool(true), Value::Int(300));
                m.insert(Key::String(Arc::new("l".to_string())), Value::Int(400));
                Value::Map(Map { map: Arc::new(m) })
            }
        })
    };
    let (l, r) = (mk(lk, p0), mk(rk, p1));
    let mut ctx = Context::default();
    if let Some(v) = &l {
        ctx.add_variable_from_value("a", v.clone());
    }
    if let Some(v) = &r {
        ctx.add_variable_from_value("b", v.clone());
    }
    let src = if op == 0 { "a[b]" } else { "a in b" };
    let got = Program::compile(src).expect("compiles").execute(&ctx);
    let undeclared = |n: &str| matches!(&got, Err(ExecutionError::UndeclaredReference(x)) if x.as_str() == n);
    let (l, r) = match (l, r) {
        (None, _) => {
            check!(undeclared("a"), "a failing left operand is the result");
            return;
        }
        (Some(_), None) => {
            check!(undeclared("b"), "a failing right operand is the result");
            return;
        }
        (Some(l), Some(r)) => (l, r),
    };
    let key_of = |v: &Value| -> Option<Key> {
        match v {
            Value::Int(i) => Some(Key::Int(*i)),
            Value::UInt(u) => Some(Key::Uint(*u)),
            Value::Bool(b) => Some(Key::Bool(*b)),
            Value::String(s) => Some(Key::String(s.clone())),
            _ => None,
        }
    };
    let want: Option<Value> = if op == 0 {
        match (&l, &r) {
            (Value::List(items), Value::Int(i)) => Some(if *i >= 0 { items.get(*i as usize).cloned().unwrap_or(Value::Null) } else { Value::Null }),
            (Value::String(s), Value::Int(i)) => Some(
                usize::try_from(*i).ok().and_then(|a| a.checked_add(1).and_then(|b| s.get(a..b))).map(|t| Value::String(Arc::new(t.to_string()))).unwrap_or(Value::Null),
            ),
            (Value::Map(m), k) => key_of(k).map(|k| m.get(&k).cloned().unwrap_or(Value::Null)),
            _ => None,
        }
    } else {
        match (&l, &r) {
            (Value::String(x), Value::String(y)) => Some(Value::Bool(y.contains(x.as_str()))),
            (x, Value::List(items)) => Some(Value::Bool(items.iter().any(|e| e == x))),
            (x, Value::Map(m)) => Some(Value::Bool(key_of(x).map(|k| m.get(&k).is_some()).unwrap_or(false))),
            _ => None,
        }
    };
    match want {
        Some(v) => check!(got == Ok(v), "index / membership gives the specified value (null out of range, int/uint twin keys are one key)"),
        None => check!(got.is_err(), "index / membership on unsupported kinds is an execution error, never a panic"),
    }
}
pub fn c02_access() {
    c14_access()
}
/// Programs whose evaluation used to reach todo!(): macros over a non-collection, message literals.
pub fn c02_unsupported_nodes() {
    let code: u8 = any();
    crate::sym::assume(code <= 5);
    let src = ["1.map(x, x)", "null.all(x, true)", "true.exists(x, x)", "'a'.filter(x, true)", "T{}", "a.b.C{x: 1}"][code as usize];
    let got = Program::compile(src).expect("compiles").execute(&Context::default());
    check!(got.is_err(), "an unsupported construct is an execution error, never a panic");
}
pub fn c11_unsupported_nodes() {
    c02_unsupported_nodes()
}
pub fn c10_unsupported_nodes() {
    c02_unsupported_nodes()
}
pub fn c19_unsupported_nodes() {
    c02_unsupported_nodes()
}
pub fn c14_literal() {
    c07_literal()
}
pub fn c07_extractor_eval() {
    c20_extractor_eval()
}
/// Unary minus through the public API (`Program::compile("-x")` with x bound to an int variable).
/// The parser and `Value::resolve` cannot be executed by Kani: this body is decided by the MIR
/// engine on the NEGATE arm of `Value::resolve` (mirsym/c08_neg.py) and is what the driver replays
/// natively for a counterexample of that engine (tier "off").
pub fn c08_unary_minus() {
    let i: i64 = any();
    let p = cel_interpreter::Program::compile("-x").unwrap();
    let mut ctx = cel_interpreter::Context::default();
    ctx.add_variable_from_value("x", Value::Int(i));
    let r = p.execute(&ctx);
    if i == i64::MIN {
        check!(r.is_err(), "-(i64::MIN) is an overflow error, not a panic or a wrapped value");
    } else {
        check!(matches!(&r, Ok(Value::Int(v)) if *v == -i), "unary minus is exact");
    }
    
}

pub fn c19_node() {
    node_replay()
}
pub fn c20_node() {
    node_replay()
}
pub fn c07_node() {
    node_replay()
}
pub fn c06_node() {
    node_replay()
}
pub fn c08_node() {
    node_replay()
}
pub fn c09_node() {
    node_replay()
}

crate::replay_only! {
    #[kani::unwind(2)] c06_node: "off", "Program::compile + Value::resolve on one operator node with logging host functions (native replay body for the MIR engine)", "17 operators x 5 operand-result kinds";
    #[kani::unwind(2)] c07_node: "off", "same body (evaluation order / at-most-once aspects)", "17 operators x 5 operand-result kinds";
    #[kani::unwind(2)] c07_call: "off", "Program::compile + Value::resolve on a call node f(..)/t().f(..) with logging host functions", "0-3 arguments, with/without receiver, declared/undeclared, receiver ok/error";
    #[kani::unwind(2)] c11_chain: "off", "Context::default/new_inner_scope/add_variable_from_value/get_variable on 1-3 real scopes (native replay body for the MIR engine)", "every subset of {a,b,c} per level";
    #[kani::unwind(2)] c11_fold: "off", "Context::resolve on a hand-built Expr::Comprehension with logging host functions (native replay body for the MIR engine)", "0-3 elements, every failing point, every condition pattern";
    #[kani::unwind(2)] c20_extractor_eval: "off", "size(..) / x.size() / max(..) over logging host functions through Program::compile + execute", "This with/without receiver, Arguments; failing argument index 0-2 or none";
    #[kani::unwind(2)] c20_conversion: "off", "host function with one typed parameter (i64/u64/bool/f64/Option<..>) called with a value of each kind, through Program::compile + execute", "7 parameter types x 6 value kinds";
    #[kani::unwind(2)] c07_literal: "off", "list / map literal over logging host functions through Program::compile + execute", "0-3 elements or entries, every failing position";
    #[kani::unwind(2)] c10_macro: "off", "all/exists/exists_one/map/map-with-filter/filter over a list of booleans with a logging predicate, through Program::compile + execute", "lists of 0-3 booleans, all contents";
    #[kani::unwind(2)] c19_references: "off", "Program::references vs execution with an undeclared variable / function in one of ten syntactic positions", "ten positions x {variable, function}";
    #[kani::unwind(2)] c14_access: "off", "`a[b]` and `a in b` through Program::compile + execute on variables of every kind", "8 x 8 operand kinds incl. a non-ASCII string, a two-element list, a map with int/uint/bool/string keys";
    #[kani::unwind(2)] c02_access: "off", "same body (C02)", "same";
    #[kani::unwind(2)] c02_unsupported_nodes: "off", "macros over int/null/bool/string ranges and message literals through Program::compile + execute", "six programs";
    #[kani::unwind(2)] c11_unsupported_nodes: "off", "same body", "same";
    #[kani::unwind(2)] c10_unsupported_nodes: "off", "same body", "same";
    #[kani::unwind(2)] c19_unsupported_nodes: "off", "same body", "same";
    #[kani::unwind(2)] c17_compound: "off", "sequences, tuples, maps with repeated keys, structs and data-carrying variants through to_value, optional failing child", "seven shapes, seven key patterns";
    #[kani::unwind(2)] c18_structure: "off", "lists, maps and bytes through Value::json against the documented document shape", "lists of 0-3, thirteen key sets, byte strings of 0-6";
    #[kani::unwind(2)] c04_prefix: "off", "runs of 1-9 prefix ! / - over a literal or a variable through Program::compile + execute", "k in 1..9";
    #[kani::unwind(2)] c04_binary: "off", "x OP y for the twelve binary operator texts and ?: with operands of three shapes: references() and value", "13 operators x 9 shape pairs";
    #[kani::unwind(2)] c04_chain: "off", "chains of 1-64 logging operands under && / ||", "n in 1..64";
    #[kani::unwind(2)] c10_error_element: "off", "the five macros over 1-4 elements with a predicate that fails on one chosen element", "5 macros x lists of 1-4 x failing position x predicate bits";
    #[kani::unwind(2)] c10_literal_predicate: "off", "the five macros with a literal predicate over lists, a map and a non-collection", "5 macros x 2 literals x 5 receivers";
    #[kani::unwind(2)] c15_parse: "off", "duration(s) through Program::compile + execute against an independent reader of the duration syntax", "text of up to 48 bytes taken from the vector";
    #[kani::unwind(2)] c07_select_chain: "off", "x.a.a.. / has(x.a.a..) over a logging root through Program::compile + execute", "1-6 levels, plain selection and presence test";
    #[kani::unwind(2)] c10_body_over_variable: "off", "the five macros with bodies over the iteration variable through Program::compile + execute, against a per-element fold", "5 macros x 4 receivers x 8 bodies";
    #[kani::unwind(2)] c08_unary_minus_float: "off", "Program::compile + Value::resolve NEGATE arm on a double", "bits: all u64";
    #[kani::unwind(2)] c07_macro_over_literal: "off", "the five macros over a list literal of logging calls with a logging body, through Program::compile + execute", "5 macros x 1-4 elements";
    #[kani::unwind(2)] c20_extractor_combos: "off", "host functions combining This / positional / Identifier / Expression / Arguments / FunctionContext extractors, both call styles, through Program::compile + execute", "ten call shapes";
    #[kani::unwind(2)] c04_nested_prefix: "off", "OP(OP x) for the two prefix operators over a bool, an int and i64::MIN through Program::compile + execute, against two separate evaluations", "2 x 2 operators x 3 operands";
    #[kani::unwind(2)] c06_skipped_undeclared: "off", "short-circuit operators, the conditional and macros over operands that name undeclared functions / variables, through Program::compile + execute", "ten programs";
    #[kani::unwind(2)] c04_macro_lookup: "off", "calls named like the macros in macro and non-macro shapes, with host functions registered under the macro names, through Program::compile + execute", "sixteen call shapes";
    #[kani::unwind(2)] c17_special_members: "off", "structs / struct variants / sequences / maps with None, unit, zero, false and empty members through to_value, exact key-set and kind comparison", "four shapes";
    #[kani::unwind(2)] c09_container_self_equality: "off", "Value == Value and `x == x` / `x != x` through Program::compile + execute on lists and maps (nested) holding NaN or an int, both operands one allocation", "4 shapes x 2 payloads x 3 ways of asking";
    #[kani::unwind(2)] c09_min_max: "off", "min(..) / max(..) over 1-4 numbers of mixed kinds, separate arguments or one list, judged by the language's own comparisons", "2 functions x 2 forms x 1-4 values x 24 orders";
    #[kani::unwind(2)] c14_size_affixes: "off", "size / startsWith / endsWith through Program::compile + execute on lists, maps, strings (non-ASCII included) and bytes, additivity over +", "6 cases x 4 x 4 operands";
    #[kani::unwind(2)] c06_nested_operators: "off", "else-if ladders, nested conditionals, && / || chains of either grouping and double negation over logging operands through Program::compile + execute, against Rust's short-circuit evaluation", "9 shapes x 8 truth assignments";
    #[kani::unwind(2)] c07_method_too_few_arguments: "off", "receiver-style calls of positional host functions with too few arguments over logging operands, through Program::compile + execute", "three call shapes";
    #[kani::unwind(2)] c04_grouped_chain: "off", "parenthesised && / || groups inside a chain of the same operator through cel_parser::Parser::parse, the tree rendered back and compared", "2 operators x 6 groupings";
    #[kani::unwind(2)] c20_builtin_override: "off", "host functions registered as size / contains / max / string, called in both styles on receivers of several kinds, through Program::compile + execute", "ten calls";
    #[kani::unwind(2)] c10_map_filter_order: "off", "three-argument map with failing / logging transforms and filters through Program::compile + execute", "four programs";
    #[kani::unwind(2)] c12_literal: "off", "a string / bytes literal token through Program::compile + execute against an independent decoder of the CEL literal syntax", "token text of up to 24 characters taken from the vector";
    #[kani::unwind(2)] c13_string_roundtrip: "off", "int(string(x)) / uint(string(x)) / double(string(x)) through Program::compile + execute", "payload bits from the vector";
    #[kani::unwind(2)] c13_literal: "off", "int / uint literals of every sign, radix and magnitude through Program::compile + execute", "text built from the vector";
    #[kani::unwind(2)] c13_double_literal: "off", "eight double literal texts", "fixed list";
    #[kani::unwind(2)] c14_concat: "off", "Value + Value on lists / strings with controlled Arc sharing", "lengths 0-3, reference counts 1-4, x + x";
    #[kani::unwind(2)] c02_concat: "off", "same body", "same";
    #[kani::unwind(2)] c14_select: "off", "x.field / has(x.field) through Program::compile + execute, against the map's contents and the other ways of asking", "six operand kinds, eight maps, function declared or not";
    #[kani::unwind(2)] c02_select: "off", "same body", "same";
    #[kani::unwind(2)] c14_literal: "off", "same body (C14)", "same";
    #[kani::unwind(2)] c07_extractor_eval: "off", "same body (C07)", "same";
    #[kani::unwind(2)] c08_unary_minus: "off", "Program::compile + Value::resolve NEGATE arm", "i: all i64";
    #[kani::unwind(2)] c19_node: "off", "same body (C19)", "17 operators x 5 operand-result kinds";
    #[kani::unwind(2)] c20_node: "off", "same body (C20)", "17 operators x 5 operand-result kinds";
    #[kani::unwind(2)] c20_missing_argument: "off", "host functions with Expression / Identifier parameters called with too few arguments, through Program::compile + execute", "0-3 leading value parameters, 0-3 supplied arguments";
    #[kani::unwind(2)] c08_node: "off", "same body (C08 operators)", "17 operators x 5 operand-result kinds";
    #[kani::unwind(2)] c09_node: "off", "same body (C09 operators)", "17 operators x 5 operand-result kinds";
}
