//! C02 — value operators and scalar built-ins never panic (host-facing half).
//! Every harness of every other module also carries Kani's automatic panic / overflow / bounds
//! checks for the code it executes; the harnesses here add the operand combinations those do not
//! reach: double arithmetic, the fall-through arms with heap-backed kinds, string() of durations
//! beyond the i64 nanosecond range and the timestamp accessors at chrono's limits.
use crate::sym::{self, any, forget};
use crate::{check, cover, region};
use cel_interpreter::extractors::This;
use cel_interpreter::functions::time as t;
use cel_interpreter::objects::{Key, Map};
use cel_interpreter::{functions, Context, ExecutionError, FunctionContext, Value};
use chrono::{DateTime, Duration, FixedOffset};
use std::sync::Arc;

#[cfg(kani)]
use cel_interpreter::verif_map::HashMap;
#[cfg(not(kani))]
use std::collections::HashMap;

fn with_ftx<R>(f: impl FnOnce(&FunctionContext) -> R) -> R {
    let ctx = Context::empty();
    let ftx = FunctionContext::new(Arc::new(String::new()), None, &ctx, Vec::new());
    let r = f(&ftx);
    forget(ftx);
    forget(ctx);
    r
}
fn same_float(r: &Result<Value, ExecutionError>, want: f64) -> bool {
    match r {
        Ok(Value::Float(g)) => g.to_bits() == want.to_bits() || (*g != *g && want != want),
        _ => false,
    }
}
/// double arithmetic is IEEE-754 and never an error or a panic; `%` on doubles is an error
pub fn c02_float_arith() {
    let (a, b): (f64, f64) = (any(), any());
    let r = Value::Float(a) + Value::Float(b);
    check!(same_float(&r, a + b), "double + double is the IEEE sum");
    forget(r);
    let r = Value::Float(a) - Value::Float(b);
    check!(same_float(&r, a - b), "double - double is the IEEE difference");
    forget(r);
    let r = Value::Float(a) * Value::Float(b);
    check!(same_float(&r, a * b), "double * double is the IEEE product");
    forget(r);
    cover!(a != a, "NaN operand reachable");
    cover!(b == 0.0, "zero divisor reachable");
}
pub fn c02_float_div_rem() {
    let (a, b): (f64, f64) = (any(), any());
    // (the quotient's value is not compared with a second IEEE divider: relating two symbolic
    // 64-bit float divisions does not finish; what is claimed is totality)
    let r = Value::Float(a) / Value::Float(b);
    check!(matches!(r, Ok(Value::Float(_))), "double / double is a double (inf or NaN for a zero divisor), never an error");
    forget(r);
    let r = Value::Float(a) % Value::Float(b);
    check!(matches!(r, Err(ExecutionError::UnsupportedBinaryOperator(..))), "double % double is an error value");
    forget(r);
    cover!(b == 0.0 && a == 0.0, "0.0 / 0.0 reachable");
}

/// concrete representatives of the heap-backed kinds
fn rep(k: u8, bits: u64) -> Value {
    match k {
        0 => Value::String(Arc::new(String::new())),
        1 => Value::Bytes(Arc::new(Vec::new())),
        2 => Value::List(Arc::new(Vec::new())),
        3 => Value::Map(Map { map: Arc::new(HashMap::<Key, Value>::new()) }),
        4 => Value::Function(Arc::new(String::new()), None),
        5 => Value::Null,
        6 => Value::Bool(bits & 1 == 1),
        7 => Value::Int(bits as i64),
        8 => Value::Float(f64::from_bits(bits)),
        _ => Value::UInt(bits),
    }
}
/// pairs for which no operator has an arm: the result is the error value, never a panic
const PAIRS: [(u8, u8); 7] = [(0, 7), (7, 0), (1, 1), (3, 2), (4, 8), (5, 5), (6, 6)];
fn fallthrough(op: u8) {
    let (x, y): (u64, u64) = (any(), any());
    let mut i = 0;
    while i < PAIRS.len() {
        let (l, r) = (rep(PAIRS[i].0, x), rep(PAIRS[i].1, y));
        let res = match op {
            0 => l + r,
            1 => l - r,
            2 => l * r,
            3 => l / r,
            _ => l % r,
        };
        check!(matches!(res, Err(ExecutionError::UnsupportedBinaryOperator(..))), "unsupported operand kinds give the error value");
        forget(res);
        i += 1;
    }
    cover!(x != y, "distinct payloads reachable");
}
pub fn c02_fallthrough_add() {
    fallthrough(0)
}
pub fn c02_fallthrough_sub() {
    fallthrough(1)
}
pub fn c02_fallthrough_mul() {
    fallthrough(2)
}
pub fn c02_fallthrough_div() {
    fallthrough(3)
}
pub fn c02_fallthrough_rem() {
    fallthrough(4)
}
/// equality and ordering of heap-backed kinds among themselves and against scalars: total, no panic
fn eq_cmp_kinds(lo: usize, hi: usize) {
    eq_cmp_kinds_against(lo, hi, 0)
}
fn eq_cmp_kinds_against(lo: usize, hi: usize, blo: usize) {
    let (x, y): (u64, u64) = (any(), any());
    let xs: [Value; 10] = [rep(0, x), rep(1, x), rep(2, x), rep(3, x), rep(4, x), rep(5, x), rep(6, x), rep(7, x), rep(8, x), rep(9, x)];
    let ys: [Value; 10] = [rep(0, y), rep(1, y), rep(2, y), rep(3, y), rep(4, y), rep(5, y), rep(6, y), rep(7, y), rep(8, y), rep(9, y)];
    let mut a = lo;
    while a < hi {
        let mut b = blo;
        while b < 10 {
            let (l, r) = (&xs[a], &ys[b]);
            let e = l == r;
            let c = l.partial_cmp(r);
            check!(!(c == Some(std::cmp::Ordering::Equal)) || e || a >= 7, "Equal ordering implies == for non-numeric kinds");
            b += 1;
        }
        a += 1;
    }
    cover!(x == y, "equal payloads reachable");
    forget(xs);
    forget(ys);
}
pub fn c02_eq_cmp_heap_kinds() {
    eq_cmp_kinds(0, 3)
}
pub fn c02_eq_cmp_map_function_kinds() {
    // map and function values against the scalar kinds (map == map and function == function walk
    // the map model / the boxed receiver recursively and do not finish)
    eq_cmp_kinds_against(3, 5, 5)
}
pub fn c02_eq_cmp_scalar_kinds() {
    eq_cmp_kinds(5, 10)
}

/// contains() on bytes: every needle of length 0-1 against every haystack of length 0-2 returns a
/// bool (the empty needle is contained in everything), never a panic
pub fn c02_bytes_contains() {
    let (h0, h1, n0): (u8, u8, u8) = (any(), any(), any());
    let (hl, nl): (u8, u8) = (any(), any());
    sym::assume(hl <= 2 && nl <= 1);
    let hay: Vec<u8> = if hl == 0 { vec![] } else if hl == 1 { vec![h0] } else { vec![h0, h1] };
    let needle: Vec<u8> = if nl == 0 { vec![] } else { vec![n0] };
    cover!(nl == 0, "empty needle reachable");
    cover!(nl == 1 && hl == 2 && h1 == n0, "needle at the end of the haystack reachable");
    region!("C02:bytes_contains_empty_needle", nl == 0);
    let r = functions::contains(This(Value::Bytes(Arc::new(hay))), Value::Bytes(Arc::new(needle)));
    let want = nl == 0 || (hl >= 1 && h0 == n0) || (hl == 2 && h1 == n0);
    check!(matches!(&r, Ok(Value::Bool(b)) if *b == want), "bytes.contains(needle) is true iff the needle occurs (the empty needle always does)");
    forget(r);
}

/// string() of any chrono duration (beyond the i64 nanosecond range included) returns, never panics
pub fn c02_string_of_any_duration() {
    let secs: i64 = any();
    let nanos: u32 = any();
    sym::assume(nanos < 1_000_000_000);
    let d = Duration::new(secs, nanos);
    sym::assume(d.is_some());
    let d = d.unwrap();
    cover!(d.num_nanoseconds().is_none(), "duration beyond i64 nanoseconds reachable");
    region!("C02:string_of_duration_beyond_584y", d.num_seconds().unsigned_abs() > 18_446_744_073);
    let r = with_ftx(|ftx| functions::string(ftx, This(Value::Duration(d))));
    check!(r.is_ok(), "string(duration) returns a string for every chrono duration");
    forget(r);
}

fn accessors_no_panic(ts: DateTime<FixedOffset>) {
    forget(t::timestamp_year(This(ts)));
    forget(t::timestamp_month(This(ts)));
    forget(t::timestamp_month_day(This(ts)));
    forget(t::timestamp_date(This(ts)));
    forget(t::timestamp_year_day(This(ts)));
    forget(t::timestamp_weekday(This(ts)));
    forget(t::timestamp_hours(This(ts)));
    forget(t::timestamp_minutes(This(ts)));
    forget(t::timestamp_seconds(This(ts)));
    forget(t::timestamp_millis(This(ts)));
}
/// the ten accessors on host-supplied timestamps at chrono's limits, any offset: no panic
fn accessors_near(base: DateTime<chrono::Utc>, dir: i64) {
    let delta: i64 = any();
    sym::assume(delta >= 0 && delta < (1 << 17));
    let off: i32 = any();
    sym::assume(off > -86_400 && off < 86_400);
    let fo = FixedOffset::east_opt(off);
    sym::assume(fo.is_some());
    let u = base.checked_add_signed(Duration::seconds(dir * delta));
    sym::assume(u.is_some());
    cover!(delta == 0 && off < 0, "the extreme instant itself with a west offset reachable");
    cover!(delta > 86_400 && off > 0, "more than a day inside the range, east offset reachable");
    accessors_no_panic(u.unwrap().with_timezone(&fo.unwrap()));
}
pub fn c02_accessors_at_chrono_min() {
    accessors_near(DateTime::<chrono::Utc>::MIN_UTC, 1)
}
pub fn c02_accessors_at_chrono_max() {
    accessors_near(DateTime::<chrono::Utc>::MAX_UTC, -1)
}

/// timestamp + duration, duration + timestamp and timestamp - duration at chrono's upper limit:
/// an error value, never a panic (the body is shared with C16)
pub fn c02_time_arith_at_chrono_max() {
    crate::c16::overflow_is_error(DateTime::<chrono::Utc>::MAX_UTC.fixed_offset())
}

const STUBS: () = ();
crate::harnesses! {
    #[kani::unwind(2)] c02_float_arith: "quick", "<Value as Add/Sub/Mul> on (Float,Float)", "all f64 x f64 bit patterns; result bit-equal to the IEEE operation";
    #[kani::unwind(2)] c02_float_div_rem: "quick", "<Value as Div/Rem> on (Float,Float)", "all f64 x f64 bit patterns; totality only for /";
    #[kani::unwind(9)] c02_fallthrough_add: "quick", "<Value as Add>::add fall-through arm", "7 operand-kind pairs with heap-backed kinds (concrete empty representatives), symbolic scalar payloads";
    #[kani::unwind(9)] c02_fallthrough_sub: "quick", "<Value as Sub>::sub fall-through arm", "7 operand-kind pairs";
    #[kani::unwind(9)] c02_fallthrough_mul: "quick", "<Value as Mul>::mul fall-through arm", "7 operand-kind pairs";
    #[kani::unwind(9)] c02_fallthrough_div: "quick", "<Value as Div>::div fall-through arm", "7 operand-kind pairs";
    #[kani::unwind(9)] c02_fallthrough_rem: "quick", "<Value as Rem>::rem fall-through arm", "7 operand-kind pairs";
    #[kani::unwind(12)] c02_eq_cmp_heap_kinds: "quick", "<Value as PartialEq>::eq, <Value as PartialOrd>::partial_cmp", "string/bytes/list (concrete empty representatives) against all 10 kinds: 30 ordered pairs, symbolic scalar payloads";
    #[kani::unwind(12)] c02_eq_cmp_map_function_kinds: "quick", "<Value as PartialEq>::eq, <Value as PartialOrd>::partial_cmp", "map/function (concrete representatives) against null/bool/int/double/uint: 10 ordered pairs";
    #[kani::unwind(12)] c02_eq_cmp_scalar_kinds: "quick", "<Value as PartialEq>::eq, <Value as PartialOrd>::partial_cmp", "null/bool/int/double/uint against all 10 kinds: 50 ordered pairs, symbolic payloads";
    #[kani::unwind(34)] #[kani::stub(alloc::fmt::format, crate::stubs::format)] #[kani::stub(alloc::string::String::from_utf8_lossy, crate::stubs::from_utf8_lossy)] c02_string_of_any_duration: "quick", "functions::string on Value::Duration -> duration::format_duration", "every chrono duration (secs: i64, nanos < 10^9, Duration::new accepts)";
    #[kani::unwind(5)] c02_bytes_contains: "quick", "functions::contains on (Bytes, Bytes)", "haystack of 0-2 symbolic bytes, needle of 0-1 symbolic bytes";
    #[kani::unwind(2)] c02_time_arith_at_chrono_max: "quick", "<Value as Add>::add (Timestamp,Duration) and (Duration,Timestamp), <Value as Sub>::sub (Timestamp,Duration)", "t = chrono MAX_UTC, d: every whole-second chrono duration";
    #[kani::unwind(2)] c02_accessors_at_chrono_min: "quick", "the ten timestamp accessors", "instants within 2^17 s after chrono's MIN_UTC, every offset within +-24 h";
    #[kani::unwind(2)] c02_accessors_at_chrono_max: "quick", "the ten timestamp accessors", "instants within 2^17 s before chrono's MAX_UTC, every offset within +-24 h";
}
