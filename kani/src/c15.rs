//! C15 — durations print, add and compare exactly.
//! Encoded: `duration::format_duration` (+ `format_int`/`format_float`) through `functions::string`;
//! `Add`/`Sub`/`PartialEq`/`PartialOrd` on `Value::Duration`.
use crate::oracle;
use crate::sym::{self, any, forget};
use crate::{check, cover, region};
use cel_interpreter::extractors::This;
use cel_interpreter::{functions, Context, ExecutionError, FunctionContext, Value};
use chrono::Duration;
use std::cmp::Ordering;
use std::sync::Arc;

fn with_ftx<R>(f: impl FnOnce(&FunctionContext) -> R) -> R {
    let ctx = Context::empty();
    let ftx = FunctionContext::new(Arc::new(String::new()), None, &ctx, Vec::new());
    let r = f(&ftx);
    forget(ftx);
    forget(ctx);
    r
}

/// string(duration) is byte-for-byte Go's `Duration.String()` of n nanoseconds (reference model B
/// in `oracle`, itself validated natively against the exact reader + canonicity rules).
fn format_is_canonical(n: i64) {
    let r = with_ftx(|ftx| functions::string(ftx, This(Value::Duration(Duration::nanoseconds(n)))));
    let mut want = [0u8; 32];
    let w = oracle::go_duration_string(n, &mut want);
    match &r {
        Ok(Value::String(s)) => {
            let got = s.as_bytes();
            check!(got.len() == 32 - w, "string(duration) has the length of Go's rendering");
            let mut same = true;
            let mut i = 0;
            while i < 32 {
                if i < got.len() && w + i < 32 && got[i] != want[w + i] {
                    same = false;
                }
                i += 1;
            }
            check!(same, "string(duration) is byte-for-byte Go's Duration.String(): sign, units, digits, no trailing zeros");
        }
        _ => check!(false, "string(duration) succeeds for every 64-bit nanosecond count"),
    }
    forget(r);
}

/// The six magnitude classes of the Go format, both signs in each.
fn format_class(lo: u64, hi: u64) {
    let n: i64 = any();
    let mag = n.unsigned_abs();
    sym::assume(mag >= lo && mag <= hi);
    cover!(n < 0, "negative reachable");
    cover!(n > 0 && mag == hi, "upper end of the class reachable");
    cover!(mag == lo, "lower end of the class reachable");
    region!("C15:format_negative", n < 0);
    format_is_canonical(n);
}
pub fn c15_format_ns() {
    format_class(0, 999)
}
pub fn c15_format_us() {
    format_class(1_000, 999_999)
}
pub fn c15_format_ms() {
    format_class(1_000_000, 999_999_999)
}
pub fn c15_format_s() {
    format_class(1_000_000_000, 59_999_999_999)
}
pub fn c15_format_m() {
    format_class(60_000_000_000, 3_599_999_999_999)
}
pub fn c15_format_h() {
    // up to |i64::MIN| = 2^63; for positive n the class ends at i64::MAX
    let n: i64 = any();
    let mag = n.unsigned_abs();
    sym::assume(mag >= 3_600_000_000_000);
    cover!(n == i64::MIN, "i64::MIN ns reachable");
    cover!(n == i64::MAX, "i64::MAX ns reachable");
    cover!(n > 0 && n % 1_000_000_000 != 0, "hours with fractional seconds reachable");
    region!("C15:format_negative", n < 0);
    format_is_canonical(n);
}

/// every i64 nanosecond count at once: decided by the MIR engine (mirsym/c15_format.py), not by
/// Kani (tier "off"); this body is what the driver replays natively for a mirsym counterexample
pub fn c15_format_any() {
    let n: i64 = any();
    format_is_canonical(n);
}

/// An arbitrary chrono duration (chrono's whole range, beyond 2^63 ns included) together with
/// its exact value in "floor form": value = secs * 10^9 + nanos with 0 <= nanos < 10^9.  The
/// oracles below never multiply: sums, differences and the order are computed on (secs, nanos).
fn any_duration() -> (Duration, i128, i64) {
    let secs: i64 = any();
    let nanos: u32 = any();
    sym::assume(nanos < 1_000_000_000);
    let d = Duration::new(secs, nanos);
    sym::assume(d.is_some());
    (d.unwrap(), secs as i128, nanos as i64)
}
/// floor form of a chrono duration read through its public accessors
fn floor_form(d: &Duration) -> (i128, i64) {
    // num_seconds truncates toward zero and subsec_nanos carries the sign
    let (s, n) = (d.num_seconds() as i128, d.subsec_nanos() as i64);
    if n < 0 {
        (s - 1, n + 1_000_000_000)
    } else {
        (s, n)
    }
}
// chrono: MAX = i64::MAX milliseconds, MIN = -MAX
const MAX_S: i128 = (i64::MAX / 1_000) as i128;
const MAX_N: i64 = (i64::MAX % 1_000) * 1_000_000;
fn in_chrono_range(s: i128, n: i64) -> bool {
    let le_max = s < MAX_S || (s == MAX_S && n <= MAX_N);
    // -MAX in floor form is (-MAX_S - 1, 10^9 - MAX_N)
    let ge_min = s > -MAX_S - 1 || (s == -MAX_S - 1 && n >= 1_000_000_000 - MAX_N);
    le_max && ge_min
}

fn judge_arith(r: &Result<Value, ExecutionError>, s: i128, n: i64) {
    let fits = in_chrono_range(s, n);
    cover!(fits, "representable result reachable");
    cover!(!fits, "out-of-range result reachable");
    if fits {
        match r {
            Ok(Value::Duration(d)) => check!(floor_form(d) == (s, n), "duration arithmetic acts on the exact nanosecond counts"),
            _ => check!(false, "duration arithmetic succeeds when the result is representable"),
        }
    } else {
        check!(r.is_err(), "duration arithmetic outside the representable range is an error (not a panic, not a wrapped value)");
    }
}
pub fn c15_add() {
    let ((a, sa, na), (b, sb, nb)) = (any_duration(), any_duration());
    let r = Value::Duration(a) + Value::Duration(b);
    let carry = na + nb >= 1_000_000_000;
    let (s, n) = if carry { (sa + sb + 1, na + nb - 1_000_000_000) } else { (sa + sb, na + nb) };
    judge_arith(&r, s, n);
    forget(r);
}
pub fn c15_sub() {
    let ((a, sa, na), (b, sb, nb)) = (any_duration(), any_duration());
    let r = Value::Duration(a) - Value::Duration(b);
    let borrow = na < nb;
    let (s, n) = if borrow { (sa - sb - 1, na - nb + 1_000_000_000) } else { (sa - sb, na - nb) };
    judge_arith(&r, s, n);
    forget(r);
}
/// panic-freedom only (no functional oracle, so no hard equivalence for the solver): whatever the
/// implementation computes for duration +/- duration, it returns a value or an error
pub fn c15_add_sub_no_panic() {
    let ((a, _, _), (b, _, _)) = (any_duration(), any_duration());
    let r = Value::Duration(a) + Value::Duration(b);
    cover!(r.is_ok(), "representable sum reachable");
    forget(r);
    let r = Value::Duration(a) - Value::Duration(b);
    cover!(r.is_err(), "unrepresentable difference reachable");
    forget(r);
}
pub fn c15_compare() {
    let ((a, sa, na), (b, sb, nb)) = (any_duration(), any_duration());
    let (x, y) = (Value::Duration(a), Value::Duration(b));
    // with 0 <= nanos < 10^9 the order of the exact counts is the lexicographic order
    let want = sa.cmp(&sb).then(na.cmp(&nb));
    check!((x == y) == (want == Ordering::Equal), "duration equality compares exact nanosecond counts");
    check!(x.partial_cmp(&y) == Some(want), "duration ordering compares exact nanosecond counts");
    check!((x != y) == (want != Ordering::Equal), "duration != is the negation of ==");
    cover!(want == Ordering::Less && sa == sb, "same seconds, different nanoseconds reachable");
    cover!(want == Ordering::Equal, "equal durations reachable");
    cover!(sa < 0 && sb > 0, "mixed signs reachable");
    forget(x);
    forget(y);
}


crate::harnesses! {
    #[kani::unwind(34)] #[kani::stub(alloc::fmt::format, crate::stubs::format)] #[kani::stub(std::hash::RandomState::new, crate::stubs::random_state_new)] #[kani::stub(alloc::string::String::from_utf8_lossy, crate::stubs::from_utf8_lossy)] c15_format_ns: "quick", "functions::string on Value::Duration -> duration::format_duration, format_float, format_int", "|n| <= 999 ns, both signs; oracle: independent port of Go's Duration.String, byte equality";
    #[kani::unwind(34)] #[kani::stub(alloc::fmt::format, crate::stubs::format)] #[kani::stub(std::hash::RandomState::new, crate::stubs::random_state_new)] #[kani::stub(alloc::string::String::from_utf8_lossy, crate::stubs::from_utf8_lossy)] c15_format_us: "quick", "functions::string on Value::Duration -> duration::format_duration, format_float, format_int", "10^3 <= |n| < 10^6 ns, both signs; oracle: independent port of Go's Duration.String, byte equality";
    #[kani::unwind(34)] #[kani::stub(alloc::fmt::format, crate::stubs::format)] #[kani::stub(std::hash::RandomState::new, crate::stubs::random_state_new)] #[kani::stub(alloc::string::String::from_utf8_lossy, crate::stubs::from_utf8_lossy)] c15_format_ms: "off", "functions::string on Value::Duration -> duration::format_duration, format_float, format_int", "10^6 <= |n| < 10^9 ns, both signs; oracle: independent port of Go's Duration.String, byte equality";
    #[kani::unwind(34)] #[kani::stub(alloc::fmt::format, crate::stubs::format)] #[kani::stub(std::hash::RandomState::new, crate::stubs::random_state_new)] #[kani::stub(alloc::string::String::from_utf8_lossy, crate::stubs::from_utf8_lossy)] c15_format_s: "off", "functions::string on Value::Duration -> duration::format_duration, format_float, format_int", "1 s <= |n| < 60 s, both signs; oracle: independent port of Go's Duration.String, byte equality";
    #[kani::unwind(34)] #[kani::stub(alloc::fmt::format, crate::stubs::format)] #[kani::stub(std::hash::RandomState::new, crate::stubs::random_state_new)] #[kani::stub(alloc::string::String::from_utf8_lossy, crate::stubs::from_utf8_lossy)] c15_format_m: "off", "functions::string on Value::Duration -> duration::format_duration, format_float, format_int", "1 min <= |n| < 1 h, both signs; oracle: independent port of Go's Duration.String, byte equality";
    #[kani::unwind(34)] #[kani::stub(alloc::fmt::format, crate::stubs::format)] #[kani::stub(std::hash::RandomState::new, crate::stubs::random_state_new)] #[kani::stub(alloc::string::String::from_utf8_lossy, crate::stubs::from_utf8_lossy)] c15_format_h: "off", "functions::string on Value::Duration -> duration::format_duration, format_float, format_int", "|n| >= 1 h up to i64::MIN / i64::MAX ns; oracle: independent port of Go's Duration.String, byte equality";
    #[kani::unwind(34)] c15_format_any: "off", "functions::string on Value::Duration -> duration::format_duration, format_float, format_int", "all i64 ns (native replay body for the MIR engine)";
    #[kani::unwind(2)] c15_add: "quick", "<Value as Add>::add (Duration,Duration)", "two arbitrary chrono durations (whole chrono range: secs i64, nanos < 10^9, Duration::new accepts); oracle i128 ns";
    #[kani::unwind(2)] c15_sub: "quick", "<Value as Sub>::sub (Duration,Duration)", "two arbitrary chrono durations; oracle i128 ns";
    #[kani::unwind(2)] c15_add_sub_no_panic: "quick", "<Value as Add>::add, <Value as Sub>::sub (Duration,Duration)", "two arbitrary chrono durations; Kani's automatic panic/overflow checks only";
    #[kani::unwind(2)] c15_compare: "quick", "<Value as PartialEq>::eq/ne, <Value as PartialOrd>::partial_cmp (Duration,Duration)", "two arbitrary chrono durations; oracle i128 ns";
}
