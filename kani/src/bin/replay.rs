//! Native replay of a Kani counterexample, and harness metadata listing.
//!   replay --list                       -> JSON table of harnesses
//!   replay <harness> <hex,hex,...>      -> runs the harness body on the concrete values
//! Exit: 0 = all checks passed on these values, 10 = a check failed / the code panicked
//! (the counterexample reproduces), 11 = the values violate a harness assumption or do not fit
//! the harness's draws (spurious), 12 = usage.
#[cfg(kani)]
fn main() {}

#[cfg(not(kani))]
fn main() {
    use cel_verif::sym;
    use std::panic;
    let args: Vec<String> = std::env::args().collect();
    if args.len() >= 2 && args[1] == "--list" {
        let hs = cel_verif::all_harnesses();
        let v: Vec<serde_json::Value> = hs
            .iter()
            .map(|h| {
                serde_json::json!({"name": h.name, "tier": h.tier, "attrs": h.attrs,
                    "encoded": h.encoded, "bounds": h.bounds})
            })
            .collect();
        println!("{}", serde_json::to_string_pretty(&v).unwrap());
        return;
    }
    if args.len() >= 2 && args[1] == "--selftest" {
        std::process::exit(cel_verif::selftest::run());
    }
    if args.len() < 3 {
        eprintln!("usage: replay --list | --selftest | <harness> <hex,hex,...>");
        std::process::exit(12);
    }
    let name = &args[1];
    let vals: Vec<Vec<u8>> = if args[2].is_empty() || args[2] == "-" {
        vec![]
    } else {
        args[2]
            .split(',')
            .map(|h| {
                (0..h.len() / 2)
                    .map(|i| u8::from_str_radix(&h[2 * i..2 * i + 2], 16).unwrap())
                    .collect()
            })
            .collect()
    };
    let hs = cel_verif::all_harnesses();
    let h = match hs.iter().find(|h| h.name == name) {
        Some(h) => h,
        None => {
            eprintln!("unknown harness {}", name);
            std::process::exit(12);
        }
    };
    sym::load(vals);
    let f = h.f;
    let r = panic::catch_unwind(move || f());
    match r {
        Ok(()) => {
            println!("REPLAY harness={} outcome=pass covers={:?} unused_values={}", name, sym::covers_hit(), sym::remaining());
            std::process::exit(0);
        }
        Err(e) => {
            let msg = if let Some(s) = e.downcast_ref::<String>() {
                s.clone()
            } else if let Some(s) = e.downcast_ref::<&str>() {
                s.to_string()
            } else {
                "<non-string panic>".to_string()
            };
            if msg.contains(sym::ASSUME_FAILED) || msg.contains(sym::QUEUE_EMPTY) {
                println!("REPLAY harness={} outcome=spurious reason={:?}", name, msg);
                std::process::exit(11);
            }
            println!("REPLAY harness={} outcome=fail message={:?}", name, msg);
            std::process::exit(10);
        }
    }
}
