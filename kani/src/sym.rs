//! Symbolic input source shared by the Kani build and the native replay build.
//!
//! Under `cfg(kani)` every primitive is a fresh `kani::any()`.  In the native build the same
//! calls pop little-endian byte vectors from a queue that the replay binary fills from Kani's
//! `--concrete-playback=print` output (one vector per primitive `any()`, in call order), so a
//! harness body *is* its own replay test.

#[cfg(not(kani))]
use std::cell::RefCell;
#[cfg(not(kani))]
use std::collections::VecDeque;

#[cfg(not(kani))]
thread_local! {
    static QUEUE: RefCell<VecDeque<Vec<u8>>> = RefCell::new(VecDeque::new());
    static COVERS: RefCell<Vec<&'static str>> = RefCell::new(Vec::new());
}

/// Marker payloads used by the native build to distinguish outcomes.
pub const ASSUME_FAILED: &str = "VERIF-ASSUME-FAILED";
pub const QUEUE_EMPTY: &str = "VERIF-QUEUE-EMPTY";

#[cfg(not(kani))]
pub fn load(vals: Vec<Vec<u8>>) {
    QUEUE.with(|q| *q.borrow_mut() = vals.into());
    COVERS.with(|c| c.borrow_mut().clear());
}

#[cfg(not(kani))]
pub fn remaining() -> usize {
    QUEUE.with(|q| q.borrow().len())
}

#[cfg(not(kani))]
pub fn covers_hit() -> Vec<&'static str> {
    COVERS.with(|c| c.borrow().clone())
}

#[cfg(not(kani))]
fn pop(n: usize) -> Vec<u8> {
    let v = QUEUE.with(|q| q.borrow_mut().pop_front());
    match v {
        Some(v) if v.len() == n => v,
        Some(v) => panic!("{}: expected {} bytes, got {}", QUEUE_EMPTY, n, v.len()),
        None => panic!("{}", QUEUE_EMPTY),
    }
}

pub trait Sym: Sized {
    fn any() -> Self;
}

macro_rules! prim {
    ($($t:ty),*) => {$(
        impl Sym for $t {
            #[cfg(kani)]
            #[inline(always)]
            fn any() -> Self { kani::any() }
            #[cfg(not(kani))]
            fn any() -> Self {
                let b = pop(core::mem::size_of::<$t>());
                let mut a = [0u8; core::mem::size_of::<$t>()];
                a.copy_from_slice(&b);
                <$t>::from_le_bytes(a)
            }
        }
    )*};
}
prim!(i8, i16, i32, i64, i128, u8, u16, u32, u64, u128, usize, isize);

impl Sym for f64 {
    #[cfg(kani)]
    #[inline(always)]
    fn any() -> Self {
        kani::any()
    }
    #[cfg(not(kani))]
    fn any() -> Self {
        let b = pop(8);
        let mut a = [0u8; 8];
        a.copy_from_slice(&b);
        f64::from_le_bytes(a)
    }
}

impl Sym for f32 {
    #[cfg(kani)]
    #[inline(always)]
    fn any() -> Self {
        kani::any()
    }
    #[cfg(not(kani))]
    fn any() -> Self {
        let b = pop(4);
        let mut a = [0u8; 4];
        a.copy_from_slice(&b);
        f32::from_le_bytes(a)
    }
}

impl Sym for bool {
    #[cfg(kani)]
    #[inline(always)]
    fn any() -> Self {
        kani::any()
    }
    #[cfg(not(kani))]
    fn any() -> Self {
        let b = pop(1);
        b[0] != 0
    }
}

#[inline(always)]
pub fn any<T: Sym>() -> T {
    T::any()
}

/// A value in `0..n` (n small), drawn as one `u8`.
#[inline(always)]
pub fn choice(n: u8) -> u8 {
    let c: u8 = any();
    assume(c < n);
    c
}

#[inline(always)]
pub fn assume(c: bool) {
    #[cfg(kani)]
    kani::assume(c);
    #[cfg(not(kani))]
    if !c {
        panic!("{}", ASSUME_FAILED);
    }
}

#[cfg(not(kani))]
pub fn cover_hit(name: &'static str) {
    COVERS.with(|c| c.borrow_mut().push(name));
}

/// Reachability / vacuity witness.
#[macro_export]
macro_rules! cover {
    ($cond:expr, $name:literal) => {{
        #[cfg(kani)]
        kani::cover!($cond, $name);
        #[cfg(not(kani))]
        if $cond {
            $crate::sym::cover_hit($name);
        }
    }};
}

/// Property assertion with a stable label.
#[macro_export]
macro_rules! check {
    ($cond:expr, $name:literal) => {{
        #[cfg(kani)]
        kani::assert($cond, $name);
        #[cfg(not(kani))]
        if !($cond) {
            panic!("VERIF-CHECK-FAILED: {}", $name);
        }
    }};
}

/// compile-time substring-in-comma-list test, used by `region!`.
pub const fn listed(list: Option<&str>, name: &str) -> bool {
    let l = match list {
        Some(l) => l.as_bytes(),
        None => return false,
    };
    let n = name.as_bytes();
    let mut i = 0;
    while i < l.len() {
        // find end of the item starting at i
        let mut j = i;
        while j < l.len() && l[j] != b',' {
            j += 1;
        }
        if j - i == n.len() {
            let mut k = 0;
            let mut same = true;
            while k < n.len() {
                if l[i + k] != n[k] {
                    same = false;
                }
                k += 1;
            }
            if same {
                return true;
            }
        }
        i = j + 1;
    }
    false
}

/// A *known-finding region*: `cond` describes inputs on which a recorded, unrepaired defect
/// manifests.  The driver compiles the harness crate with
/// * `VERIF_KF_EXCLUDE=<names>`: these regions are assumed away (anything that still fails is new),
/// * `VERIF_KF_ONLY=<name>`: the run is restricted to the region (it must still fail and replay).
/// With neither variable set the macro is a no-op, which is also what the native replay build sees.
#[macro_export]
macro_rules! region {
    ($name:literal, $cond:expr) => {{
        const ONLY: bool = $crate::sym::listed(option_env!("VERIF_KF_ONLY"), $name);
        const EXCL: bool = $crate::sym::listed(option_env!("VERIF_KF_EXCLUDE"), $name);
        if ONLY {
            $crate::sym::assume($cond);
        } else if EXCL {
            $crate::sym::assume(!($cond));
        }
    }};
}

/// Keep a value alive without running its drop glue (drop glue of the recursive `Value` type is
/// expensive for the symbolic executor and is never the subject of a property).
#[inline(always)]
pub fn forget<T>(t: T) {
    core::mem::forget(t)
}
