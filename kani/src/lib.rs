//! Kani harnesses over the real code of clarkmcc/cel-rust (path dependencies on /repo).
//! See /verif/DESIGN.md.  Every harness body is an ordinary function drawing its inputs from
//! `sym`, so the same code is the symbolic harness (under `cargo kani`) and the native replay.
#![allow(clippy::all)]
#![cfg_attr(kani, feature(allocator_api))]
#![allow(dead_code)]

pub mod sym;
pub mod stubs;

pub struct Harness {
    pub name: &'static str,
    pub f: fn(),
    /// "quick" harnesses run in both tiers, "thorough" only in the thorough tier.
    pub tier: &'static str,
    /// kani attributes as written (unwind bound, stubs)
    pub attrs: &'static str,
    /// real functions executed
    pub encoded: &'static str,
    /// symbolic domain and bounds
    pub bounds: &'static str,
}

/// Declares the harnesses of a module: generates the `#[kani::proof]` wrappers (in a `proofs`
/// sub-module, so that `--harness <name>` selects them) and the `HARNESSES` table used by the
/// native replay binary and the driver.
#[macro_export]
macro_rules! harnesses {
    ($( $(#[$attr:meta])* $name:ident : $tier:literal, $enc:literal, $bounds:literal; )*) => {
        #[cfg(kani)]
        pub mod proofs {
            $(
                #[kani::proof]
                $(#[$attr])*
                pub fn $name() { super::$name() }
            )*
        }
        pub const HARNESSES: &[$crate::Harness] = &[
            $( $crate::Harness {
                name: stringify!($name),
                f: $name,
                tier: $tier,
                attrs: stringify!($(#[$attr])*),
                encoded: $enc,
                bounds: $bounds,
            } ),*
        ];
    };
}

pub mod selftest;
pub mod oracle;
/// Table-only variant for bodies that are never run under Kani (native replay of the MIR engine's
/// counterexamples through the parser and evaluator, which kani-compiler cannot build).
#[macro_export]
macro_rules! replay_only {
    ($( $(#[$attr:meta])* $name:ident : $tier:literal, $enc:literal, $bounds:literal; )*) => {
        pub const HARNESSES: &[$crate::Harness] = &[
            $( $crate::Harness {
                name: stringify!($name),
                f: $name,
                tier: $tier,
                attrs: "native only",
                encoded: $enc,
                bounds: $bounds,
            } ),*
        ];
    };
}

pub mod c02;
#[cfg(not(kani))]
pub mod node;
pub mod c08;
pub mod c09;
pub mod c13;
pub mod c14;
pub mod c15;
pub mod c16;
pub mod c17;
pub mod c18;

pub fn all_harnesses() -> Vec<&'static Harness> {
    let mut v: Vec<&'static Harness> = Vec::new();
    v.extend(c02::HARNESSES.iter());
    #[cfg(not(kani))]
    v.extend(node::HARNESSES.iter());
    v.extend(c08::HARNESSES.iter());
    v.extend(c09::HARNESSES.iter());
    v.extend(c13::HARNESSES.iter());
    v.extend(c14::HARNESSES.iter());
    v.extend(c15::HARNESSES.iter());
    v.extend(c16::HARNESSES.iter());
    v.extend(c17::HARNESSES.iter());
    v.extend(c18::HARNESSES.iter());
    v
}
