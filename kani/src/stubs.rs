//! Stubs applied with `#[kani::stub]` (each use is listed in the harness's `attrs` and in the evidence).
#![cfg(kani)]

/// `Arc::drop_slow` runs when the last reference to an `Arc` goes away: it drops the payload
/// (for `Value`: `HashMap`, `Vec<Value>`, `String`, `Vec<u8>`) and frees the allocation.  Replaced
/// by a no-op (the payload is leaked).  De-allocation is not the subject of any property, and the
/// drop glue of the recursive `Value` type (hashbrown's SIMD bucket iteration in particular) is
/// what dominates symbolic execution time otherwise.
pub fn arc_drop_slow<T: ?Sized, A: core::alloc::Allocator>(_this: &mut std::sync::Arc<T, A>) {}

/// `format!` is only used to build error messages; no claimed property looks at their text.
pub fn format(_args: core::fmt::Arguments<'_>) -> String {
    String::new()
}

/// `RandomState::new()` reads OS randomness through a syscall Kani has no model for.  Harnesses
/// that only *create* empty maps (an empty `Context`) use fixed keys instead; no lookup or
/// insertion is executed on such a map, so the keys are never observed.
pub fn random_state_new() -> std::hash::RandomState {
    unsafe { core::mem::transmute::<[u64; 2], std::hash::RandomState>([0, 0]) }
}

/// `String::from_utf8_lossy` iterates over UTF-8 chunks of its input, which the symbolic executor
/// cannot finish on a symbolic slice.  The harnesses that use this stub assert that every byte
/// handed to it is ASCII or part of the two-byte micro sign, on which the stub is exact.
pub fn from_utf8_lossy(v: &[u8]) -> std::borrow::Cow<'_, str> {
    std::borrow::Cow::Borrowed(unsafe { core::str::from_utf8_unchecked(v) })
}
