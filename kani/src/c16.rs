//! C16 — timestamps keep the instant and calendar fields they were given.
//! Encoded: `functions::time::timestamp_*` accessors called directly; `Add`/`Sub`/`PartialEq`/
//! `PartialOrd` on `Value::Timestamp` / `Value::Duration`.
use crate::oracle::{self, days_from_civil};
use crate::sym::{self, any, forget};
use crate::{check, cover};
use cel_interpreter::extractors::This;
use cel_interpreter::functions::time as t;
use cel_interpreter::{ExecutionError, Value};
use chrono::{DateTime, Duration, FixedOffset};
use std::cmp::Ordering;

type Ts = DateTime<FixedOffset>;

fn mk(secs: i64, nanos: u32, off: i32) -> Ts {
    let utc = DateTime::from_timestamp(secs, nanos);
    sym::assume(utc.is_some());
    let fo = FixedOffset::east_opt(off);
    sym::assume(fo.is_some());
    utc.unwrap().with_timezone(&fo.unwrap())
}
fn int_of(r: Result<Value, ExecutionError>) -> Option<i64> {
    let v = match &r {
        Ok(Value::Int(v)) => Some(*v),
        _ => None,
    };
    forget(r);
    v
}

/// all ten accessors on the instant `base + delta` seconds (|delta| < 2^span) at any nanosecond
/// and any offset -12:00..+14:00 (second granularity), against the integer calendar oracle
fn accessors_window(base: i64, span: u32) {
    let delta: i64 = any();
    sym::assume(delta > -(1i64 << span) && delta < (1i64 << span));
    let nanos: u32 = any();
    sym::assume(nanos < 1_000_000_000);
    let off: i32 = any();
    sym::assume(off >= -12 * 3600 && off <= 14 * 3600);
    let secs = base + delta;
    let ts = mk(secs, nanos, off);
    let c = oracle::civil_from_local_seconds(secs + off as i64);
    cover!(delta < 0 && off > 0, "before the base date, east offset");
    cover!(delta > 0 && off < 0, "after the base date, west offset");
    cover!(c.day == 1 && c.hour == 0, "first day of a month at the local offset reachable");
    check!(int_of(t::timestamp_year(This(ts))) == Some(c.year), "getFullYear is the proleptic Gregorian year at the timestamp's offset");
    check!(int_of(t::timestamp_month(This(ts))) == Some(c.month - 1), "getMonth is the 0-based month");
    check!(int_of(t::timestamp_month_day(This(ts))) == Some(c.day - 1), "getDayOfMonth is the 0-based day of month");
    check!(int_of(t::timestamp_date(This(ts))) == Some(c.day), "getDate is the 1-based day of month");
    check!(int_of(t::timestamp_year_day(This(ts))) == Some(c.yday0), "getDayOfYear is the 0-based day of year");
    check!(int_of(t::timestamp_weekday(This(ts))) == Some(c.weekday), "getDayOfWeek is 0 for Sunday");
    check!(int_of(t::timestamp_hours(This(ts))) == Some(c.hour), "getHours");
    check!(int_of(t::timestamp_minutes(This(ts))) == Some(c.minute), "getMinutes");
    check!(int_of(t::timestamp_seconds(This(ts))) == Some(c.second), "getSeconds");
    check!(int_of(t::timestamp_millis(This(ts))) == Some((nanos / 1_000_000) as i64), "getMilliseconds");
}

const DAY: i64 = 86_400;
macro_rules! window {
    ($name:ident, $y:expr, $m:expr, $d:expr, $span:expr) => {
        pub fn $name() {
            accessors_window(days_from_civil($y, $m, $d) * DAY, $span)
        }
    };
}
window!(c16_acc_0001_01_01, 1, 1, 1, 18);
window!(c16_acc_1582_10_15, 1582, 10, 15, 21);
window!(c16_acc_1600_03_01, 1600, 3, 1, 21);
window!(c16_acc_1900_03_01, 1900, 3, 1, 21);
window!(c16_acc_1970_01_01, 1970, 1, 1, 21);
window!(c16_acc_2000_03_01, 2000, 3, 1, 21);
window!(c16_acc_2024_03_01, 2024, 3, 1, 21);
window!(c16_acc_2023_03_01, 2023, 3, 1, 21);
window!(c16_acc_2038_01_19, 2038, 1, 19, 21);
window!(c16_acc_2024_12_31, 2024, 12, 31, 21);
window!(c16_acc_9999_12_31, 9999, 12, 31, 18);

/// a timestamp built from calendar fields (UTC) and shown at `off`
fn from_fields(y: i32, m: u32, d: u32, h: u32, mi: u32, sec: u32, nanos: u32, off: i32) -> Ts {
    let date = chrono::NaiveDate::from_ymd_opt(y, m, d);
    sym::assume(date.is_some());
    let dt = date.unwrap().and_hms_nano_opt(h, mi, sec, nanos);
    sym::assume(dt.is_some());
    let fo = FixedOffset::east_opt(off);
    sym::assume(fo.is_some());
    dt.unwrap().and_utc().with_timezone(&fo.unwrap())
}
/// equality and ordering compare instants regardless of the offset: two timestamps given by their
/// UTC calendar fields (years 0001-9999) and shown at two arbitrary offsets compare like the
/// field tuples (which is the order of the instants)
pub fn c16_compare() {
    let (y1, y2): (i32, i32) = (any(), any());
    sym::assume(y1 >= 1 && y1 <= 9999 && y2 >= 1 && y2 <= 9999);
    let (m1, m2, d1, d2): (u32, u32, u32, u32) = (any(), any(), any(), any());
    let (t1, t2): (u32, u32) = (any(), any()); // second of day
    sym::assume(t1 < 86_400 && t2 < 86_400);
    let (n1, n2): (u32, u32) = (any(), any());
    sym::assume(n1 < 1_000_000_000 && n2 < 1_000_000_000);
    let (o1, o2): (i32, i32) = (any(), any());
    sym::assume(o1 >= -12 * 3600 && o1 <= 14 * 3600 && o2 >= -12 * 3600 && o2 <= 14 * 3600);
    let a = from_fields(y1, m1, d1, t1 / 3600, (t1 / 60) % 60, t1 % 60, n1, o1);
    let b = from_fields(y2, m2, d2, t2 / 3600, (t2 / 60) % 60, t2 % 60, n2, o2);
    let (x, y) = (Value::Timestamp(a), Value::Timestamp(b));
    let want = y1.cmp(&y2).then(m1.cmp(&m2)).then(d1.cmp(&d2)).then(t1.cmp(&t2)).then(n1.cmp(&n2));
    cover!(want == Ordering::Equal && o1 != o2, "same instant at different offsets reachable");
    cover!(want == Ordering::Less && y1 == y2 && m1 < m2, "same year, earlier month reachable");
    cover!(m1 == 2 && d1 == 29, "29 February reachable");
    check!((x == y) == (want == Ordering::Equal), "timestamp equality compares instants regardless of offset");
    check!(x.partial_cmp(&y) == Some(want), "timestamp ordering compares instants regardless of offset");
    forget(x);
    forget(y);
}

fn ts_parts(v: &Result<Value, ExecutionError>) -> Option<(i64, u32, i32)> {
    match v {
        Ok(Value::Timestamp(t)) => Some((t.timestamp(), t.timestamp_subsec_nanos(), t.offset().local_minus_utc())),
        _ => None,
    }
}
/// t + d - d == t and (t + d) - t == d, and t + d is the instant exactly d later, for t within
/// 2^span seconds of `base` and d as given
fn roundtrip(base: i64, span: u32, d: Duration) {
    let delta: i64 = any();
    sym::assume(delta > -(1i64 << span) && delta < (1i64 << span));
    let s = base + delta;
    let n: u32 = any();
    sym::assume(n < 1_000_000_000);
    let off: i32 = any();
    sym::assume(off >= -12 * 3600 && off <= 14 * 3600);
    let ts = mk(s, n, off);
    let sum = Value::Timestamp(ts) + Value::Duration(d);
    match &sum {
        Ok(Value::Timestamp(u)) => {
            // the instant moved by exactly d (floor form, no multiplication)
            let (ds, dn) = {
                let (a, b) = (d.num_seconds(), d.subsec_nanos() as i64);
                if b < 0 { (a - 1, b + 1_000_000_000) } else { (a, b) }
            };
            let carry = n as i64 + dn >= 1_000_000_000;
            let (es, en) = if carry { (s + ds + 1, n as i64 + dn - 1_000_000_000) } else { (s + ds, n as i64 + dn) };
            check!(u.timestamp() == es && u.timestamp_subsec_nanos() as i64 == en, "t + d is the instant exactly d later");
            check!(u.offset().local_minus_utc() == off, "t + d keeps the offset of t");
            let u2 = *u;
            let back = Value::Timestamp(u2) - Value::Duration(d);
            check!(ts_parts(&back) == Some((s, n, off)), "t + d - d == t");
            let diff = Value::Timestamp(u2) - Value::Timestamp(ts);
            check!(matches!(&diff, Ok(Value::Duration(x)) if *x == d), "(t + d) - t == d");
            forget(back);
            forget(diff);
        }
        _ => check!(false, "timestamp + duration is representable for t in years 0001-9999 and |d| <= 292 years"),
    }
    forget(sum);
}
/// sub-day durations: every nanosecond count below 2^46 ns (about 19.5 h) in magnitude
pub fn c16_roundtrip_subday() {
    let n: i64 = any();
    sym::assume(n > -(1i64 << 46) && n < (1i64 << 46));
    cover!(n < 0, "negative duration reachable");
    roundtrip(days_from_civil(2024, 3, 1) * DAY, 17, Duration::nanoseconds(n));
}
/// whole-day durations up to +-292 years, starting near a 400-year leap day
pub fn c16_roundtrip_days() {
    let k: i64 = any();
    sym::assume(k >= -1_500 && k <= 1_500);
    cover!(k < -366, "more than a year back reachable");
    roundtrip(days_from_civil(2000, 2, 29) * DAY, 10, Duration::days(k));
}
/// any duration in i64 nanoseconds (+-292 years) from a fixed instant
pub fn c16_roundtrip_any_duration() {
    let n: i64 = any();
    cover!(n == i64::MIN, "i64::MIN ns reachable");
    roundtrip(days_from_civil(1970, 1, 1) * DAY, 1, Duration::nanoseconds(n));
}

/// at chrono's limits the operation is an error, never a panic: t an extreme instant, d any
/// whole-second chrono duration
pub fn overflow_is_error(ts: Ts) {
    let secs: i64 = any();
    let d = Duration::new(secs, 0);
    sym::assume(d.is_some());
    let d = d.unwrap();
    let a = Value::Timestamp(ts) + Value::Duration(d);
    cover!(a.is_err(), "unrepresentable sum reachable");
    cover!(a.is_ok(), "representable sum reachable");
    let b = Value::Duration(d) + Value::Timestamp(ts);
    check!(a.is_ok() == b.is_ok(), "t + d and d + t agree on representability");
    forget(a);
    forget(b);
    let c = Value::Timestamp(ts) - Value::Duration(d);
    cover!(c.is_err(), "unrepresentable difference reachable");
    forget(c);
}
pub fn c16_overflow_at_max() {
    overflow_is_error(DateTime::<chrono::Utc>::MAX_UTC.fixed_offset())
}
pub fn c16_overflow_at_min() {
    overflow_is_error(DateTime::<chrono::Utc>::MIN_UTC.fixed_offset())
}
pub fn c16_overflow_at_epoch() {
    overflow_is_error(DateTime::from_timestamp(0, 0).unwrap().fixed_offset())
}

crate::harnesses! {
    #[kani::unwind(2)] c16_acc_1970_01_01: "quick", "functions::time::timestamp_{year,month,month_day,date,year_day,weekday,hours,minutes,seconds,millis}", "instants within 2^21 s of 1970-01-01, all nanoseconds, all offsets -12:00..+14:00 in seconds";
    #[kani::unwind(2)] c16_acc_2000_03_01: "quick", "the ten timestamp accessors", "instants within 2^21 s of 2000-03-01 (400-year leap day), all nanos, all offsets";
    #[kani::unwind(2)] c16_acc_1900_03_01: "quick", "the ten timestamp accessors", "instants within 2^21 s of 1900-03-01 (century non-leap), all nanos, all offsets";
    #[kani::unwind(2)] c16_acc_2024_03_01: "quick", "the ten timestamp accessors", "instants within 2^21 s of 2024-03-01 (leap year), all nanos, all offsets";
    #[kani::unwind(2)] c16_acc_2023_03_01: "quick", "the ten timestamp accessors", "instants within 2^21 s of 2023-03-01 (non-leap year), all nanos, all offsets";
    #[kani::unwind(2)] c16_acc_2024_12_31: "quick", "the ten timestamp accessors", "instants within 2^21 s of 2024-12-31 (year end, day 366), all nanos, all offsets";
    #[kani::unwind(2)] c16_acc_0001_01_01: "quick", "the ten timestamp accessors", "instants within 2^18 s of 0001-01-01, all nanos, all offsets";
    #[kani::unwind(2)] c16_acc_9999_12_31: "quick", "the ten timestamp accessors", "instants within 2^18 s of 9999-12-31, all nanos, all offsets";
    #[kani::unwind(2)] c16_acc_1582_10_15: "thorough", "the ten timestamp accessors", "instants within 2^21 s of 1582-10-15 (proleptic: no Julian gap)";
    #[kani::unwind(2)] c16_acc_1600_03_01: "thorough", "the ten timestamp accessors", "instants within 2^21 s of 1600-03-01";
    #[kani::unwind(2)] c16_acc_2038_01_19: "thorough", "the ten timestamp accessors", "instants within 2^21 s of 2038-01-19 (2^31 s)";
    #[kani::unwind(2)] c16_compare: "quick", "<Value as PartialEq>::eq, <Value as PartialOrd>::partial_cmp (Timestamp,Timestamp)", "two instants given by UTC calendar fields, years 0001-9999, every valid date/time/nanosecond, two offsets -12:00..+14:00";
    #[kani::unwind(2)] c16_roundtrip_subday: "quick", "<Value as Add>::add (Timestamp,Duration), <Value as Sub>::sub (Timestamp,Duration) and (Timestamp,Timestamp)", "t within 2^17 s of 2024-03-01 (all nanos, offsets), |d| < 2^46 ns";
    #[kani::unwind(2)] c16_roundtrip_days: "quick", "timestamp +/- duration, timestamp - timestamp", "t within 2^10 s of 2000-02-29, d = k days, |k| <= 1500";
    #[kani::unwind(2)] c16_roundtrip_any_duration: "thorough", "timestamp +/- duration, timestamp - timestamp", "t = 1970-01-01T00:00:0{0,1} (all nanos, offsets), d: all i64 nanoseconds";
    #[kani::unwind(2)] c16_overflow_at_max: "quick", "<Value as Add>::add (Timestamp,Duration) and (Duration,Timestamp), <Value as Sub>::sub (Timestamp,Duration)", "t = chrono MAX_UTC, d: every whole-second chrono duration; no panic, error when unrepresentable";
    #[kani::unwind(2)] c16_overflow_at_min: "quick", "timestamp +/- duration", "t = chrono MIN_UTC, d: every whole-second chrono duration";
    #[kani::unwind(2)] c16_overflow_at_epoch: "quick", "timestamp +/- duration", "t = 1970-01-01, d: every whole-second chrono duration";
}
