//! C16 — timestamps keep the instant and calendar fields they were given.
//! Encoded: `functions::time::timestamp_*` accessors called directly; `Add`/`Sub`/`PartialEq`/
//! `PartialOrd` on `Value::Timestamp` / `Value::Duration`.
use crate::oracle::{self, days_from_civil};
use crate::sym::{self, any, forget};
use crate::{check, cover};
use cel_interpreter::extractors::This;
use cel_interpreter::functions::time as t;
use cel_interpreter::{ExecutionError, Value};
use chrono::{DateTime, Duration, FixedOffset};
use std::cmp::Ordering;

type Ts = DateTime<FixedOffset>;

fn mk(secs: i64, nanos: u32, off: i32) -> Ts {
    let utc = DateTime::from_timestamp(secs, nanos);
    sym::assume(utc.is_some());
    let fo = FixedOffset::east_opt(off);
    sym::assume(fo.is_some());
    utc.unwrap().with_timezone(&fo.unwrap())
}
fn int_of(r: Result<Value, ExecutionError>) -> Option<i64> {
    let v = match &r {
        Ok(Value::Int(v)) => Some(*v),
        _ => None,
    };
    forget(r);
    v
}

/// all ten accessors on the instant `base + delta` seconds (|delta| < 2^span) at any nanosecond
/// and any offset -12:00..+14:00 (second granularity), against the integer calendar oracle
fn accessors_window(base: i64, span: u32) {
    let delta: i64 = any();
    sym::assume(delta > -(1i64 << span) && delta < (1i64 << span));
    let nanos: u32 = any();
    sym::assume(nanos < 1_000_000_000);
    let off: i32 = any();
    sym::assume(off >= -12 * 3600 && off <= 14 * 3600);
    let secs = base + delta;
    let ts = mk(secs, nanos, off);
    let c = oracle::civil_from_local_seconds(secs + off as i64);
    cover!(delta < 0 && off > 0, "before the base date, east offset");
    cover!(delta > 0 && off < 0, "after the base date, west offset");
    cover!(c.day == 1 && c.hour == 0, "first day of a month at the local offset reachable");
    check!(int_of(t::timestamp_year(This(ts))) == Some(c.year), "getFullYear is the proleptic Gregorian year at the timestamp's offset");
    check!(int_of(t::timestamp_month(This(ts))) == Some(c.month - 1), "getMonth is the 0-based month");
    check!(int_of(t::timestamp_month_day(This(ts))) == Some(c.day - 1), "getDayOfMonth is the 0-based day of month");
    check!(int_of(t::timestamp_date(This(ts))) == Some(c.day), "getDate is the 1-based day of month");
    check!(int_of(t::timestamp_year_day(This(ts))) == Some(c.yday0), "getDayOfYear is the 0-based day of year");
    check!(int_of(t::timestamp_weekday(This(ts))) == Some(c.weekday), "getDayOfWeek is 0 for Sunday");
    check!(int_of(t::timestamp_hours(This(ts))) == Some(c.hour), "getHours");
    check!(int_of(t::timestamp_minutes(This(ts))) == Some(c.minute), "getMinutes");
    check!(int_of(t::timestamp_seconds(This(ts))) == Some(c.second), "getSeconds");
    check!(int_of(t::timestamp_millis(This(ts))) == Some((nanos / 1_000_000) as i64), "getMilliseconds");
}

const DAY: i64 = 86_400;
macro_rules! window {
    ($name:ident, $y:expr, $m:expr, $d:expr, $span:expr) => {
        pub fn $name() {
            accessors_window(days_from_civil($y, $m, $d) * DAY, $span)
        }
    };
}
window!(c16_acc_0001_01_01, 1, 1, 1, 18);
window!(c16_acc_1582_10_15, 1582, 10, 15, 21);
window!(c16_acc_1600_03_01, 1600, 3, 1, 21);
window!(c16_acc_1900_03_01, 1900, 3, 1, 21);
window!(c16_acc_1970_01_01, 1970, 1, 1, 21);
window!(c16_acc_2000_03_01, 2000, 3, 1, 21);
window!(c16_acc_2024_03_01, 2024, 3, 1, 21);
window!(c16_acc_2023_03_01, 2023, 3, 1, 21);
window!(c16_acc_2038_01_19, 2038, 1, 19, 21);
window!(c16_acc_2024_12_31, 2024, 12, 31, 21);
window!(c16_acc_9999_12_31, 9999, 12, 31, 18);

/// equality and ordering compare instants regardless of the offset
pub fn c16_compare() {
    let (s1, s2): (i64, i64) = (any(), any());
    // years 0001..9999
    const LO: i64 = days_from_civil(1, 1, 1) * DAY;
    const HI: i64 = days_from_civil(10000, 1, 1) * DAY - 1;
    sym::assume(s1 >= LO && s1 <= HI && s2 >= LO && s2 <= HI);
    let (n1, n2): (u32, u32) = (any(), any());
    sym::assume(n1 < 1_000_000_000 && n2 < 1_000_000_000);
    let (o1, o2): (i32, i32) = (any(), any());
    sym::assume(o1 >= -12 * 3600 && o1 <= 14 * 3600 && o2 >= -12 * 3600 && o2 <= 14 * 3600);
    let (x, y) = (Value::Timestamp(mk(s1, n1, o1)), Value::Timestamp(mk(s2, n2, o2)));
    let want = s1.cmp(&s2).then(n1.cmp(&n2));
    cover!(want == Ordering::Equal && o1 != o2, "same instant at different offsets reachable");
    cover!(want == Ordering::Less && s1 + (o1 as i64) > s2 + (o2 as i64), "earlier instant with later local time reachable");
    check!((x == y) == (want == Ordering::Equal), "timestamp equality compares instants regardless of offset");
    check!(x.partial_cmp(&y) == Some(want), "timestamp ordering compares instants regardless of offset");
    forget(x);
    forget(y);
}

fn any_duration_292y() -> Duration {
    // durations up to +-292 years (the i64 nanosecond range)
    let n: i64 = any();
    Duration::nanoseconds(n)
}
fn ts_parts(v: &Value) -> Option<(i64, u32, i32)> {
    match v {
        Value::Timestamp(t) => Some((t.timestamp(), t.timestamp_subsec_nanos(), t.offset().local_minus_utc())),
        _ => None,
    }
}
/// t + d - d == t and (t + d) - t == d whenever t + d is representable; otherwise an error
pub fn c16_add_sub_roundtrip() {
    let s: i64 = any();
    const LO: i64 = days_from_civil(1, 1, 1) * DAY;
    const HI: i64 = days_from_civil(10000, 1, 1) * DAY - 1;
    sym::assume(s >= LO && s <= HI);
    let n: u32 = any();
    sym::assume(n < 1_000_000_000);
    let off: i32 = any();
    sym::assume(off >= -12 * 3600 && off <= 14 * 3600);
    let ts = mk(s, n, off);
    let d = any_duration_292y();
    let sum = Value::Timestamp(ts) + Value::Duration(d);
    cover!(sum.is_ok(), "representable sum reachable");
    match &sum {
        Ok(Value::Timestamp(u)) => {
            // the instant moved by exactly d (floor form, no multiplication)
            let (ds, dn) = {
                let (a, b) = (d.num_seconds(), d.subsec_nanos() as i64);
                if b < 0 { (a - 1, b + 1_000_000_000) } else { (a, b) }
            };
            let carry = n as i64 + dn >= 1_000_000_000;
            let (es, en) = if carry { (s + ds + 1, n as i64 + dn - 1_000_000_000) } else { (s + ds, n as i64 + dn) };
            check!(u.timestamp() == es && u.timestamp_subsec_nanos() as i64 == en, "t + d is the instant exactly d later");
            check!(u.offset().local_minus_utc() == off, "t + d keeps the offset of t");
            let back = Value::Timestamp(*u) - Value::Duration(d);
            check!(ts_parts(&back.as_ref().ok().cloned().unwrap_or(Value::Null)) == Some((s, n, off)), "t + d - d == t");
            let diff = Value::Timestamp(*u) - Value::Timestamp(ts);
            check!(matches!(&diff, Ok(Value::Duration(x)) if *x == d), "(t + d) - t == d");
            forget(back);
            forget(diff);
        }
        Ok(_) => check!(false, "timestamp + duration yields a timestamp"),
        Err(_) => {
            // only allowed when the sum is outside chrono's range; with t in 0001..9999 and
            // |d| <= 292 years the sum is always representable
            check!(false, "timestamp + duration is representable for t in years 0001-9999 and |d| <= 292 years");
        }
    }
    forget(sum);
}
/// at chrono's limits the operation is an error, never a panic
pub fn c16_add_overflow_is_error() {
    let s: i64 = any();
    let ts = mk(s, 0, 0);
    let secs: i64 = any();
    let d = Duration::new(secs, 0);
    sym::assume(d.is_some());
    let d = d.unwrap();
    let a = Value::Timestamp(ts) + Value::Duration(d);
    let b = Value::Duration(d) + Value::Timestamp(ts);
    let c = Value::Timestamp(ts) - Value::Duration(d);
    cover!(a.is_err(), "unrepresentable sum reachable");
    cover!(a.is_ok(), "representable sum reachable");
    cover!(c.is_err(), "unrepresentable difference reachable");
    check!(a.is_ok() == b.is_ok(), "t + d and d + t agree on representability");
    forget(a);
    forget(b);
    forget(c);
}

crate::harnesses! {
    #[kani::unwind(2)] c16_acc_1970_01_01: "quick", "functions::time::timestamp_{year,month,month_day,date,year_day,weekday,hours,minutes,seconds,millis}", "instants within 2^21 s of 1970-01-01, all nanoseconds, all offsets -12:00..+14:00 in seconds";
    #[kani::unwind(2)] c16_acc_2000_03_01: "quick", "the ten timestamp accessors", "instants within 2^21 s of 2000-03-01 (400-year leap day), all nanos, all offsets";
    #[kani::unwind(2)] c16_acc_1900_03_01: "quick", "the ten timestamp accessors", "instants within 2^21 s of 1900-03-01 (century non-leap), all nanos, all offsets";
    #[kani::unwind(2)] c16_acc_2024_03_01: "quick", "the ten timestamp accessors", "instants within 2^21 s of 2024-03-01 (leap year), all nanos, all offsets";
    #[kani::unwind(2)] c16_acc_2023_03_01: "quick", "the ten timestamp accessors", "instants within 2^21 s of 2023-03-01 (non-leap year), all nanos, all offsets";
    #[kani::unwind(2)] c16_acc_2024_12_31: "quick", "the ten timestamp accessors", "instants within 2^21 s of 2024-12-31 (year end, day 366), all nanos, all offsets";
    #[kani::unwind(2)] c16_acc_0001_01_01: "quick", "the ten timestamp accessors", "instants within 2^18 s of 0001-01-01, all nanos, all offsets";
    #[kani::unwind(2)] c16_acc_9999_12_31: "quick", "the ten timestamp accessors", "instants within 2^18 s of 9999-12-31, all nanos, all offsets";
    #[kani::unwind(2)] c16_acc_1582_10_15: "thorough", "the ten timestamp accessors", "instants within 2^21 s of 1582-10-15 (proleptic: no Julian gap)";
    #[kani::unwind(2)] c16_acc_1600_03_01: "thorough", "the ten timestamp accessors", "instants within 2^21 s of 1600-03-01";
    #[kani::unwind(2)] c16_acc_2038_01_19: "thorough", "the ten timestamp accessors", "instants within 2^21 s of 2038-01-19 (2^31 s)";
    #[kani::unwind(2)] c16_compare: "quick", "<Value as PartialEq>::eq, <Value as PartialOrd>::partial_cmp (Timestamp,Timestamp)", "two instants in years 0001-9999, all nanos, two offsets -12:00..+14:00";
    #[kani::unwind(2)] c16_add_sub_roundtrip: "quick", "<Value as Add>::add (Timestamp,Duration), <Value as Sub>::sub (Timestamp,Duration) and (Timestamp,Timestamp)", "t in years 0001-9999 (all nanos, offsets), d: all i64 nanoseconds (+-292 years)";
    #[kani::unwind(2)] c16_add_overflow_is_error: "quick", "<Value as Add>::add (Timestamp,Duration) and (Duration,Timestamp), <Value as Sub>::sub (Timestamp,Duration)", "t: every instant chrono accepts (whole seconds, UTC), d: every whole-second chrono duration";
}
