//! C09 — equality and ordering are coherent and numerically exact across types.
//! Encoded: `impl PartialEq for Value`, `impl PartialOrd for Value` (objects.rs), `functions::min/max`.
use crate::oracle;
use crate::sym::{self, any, forget};
use crate::{check, cover, region};
use cel_interpreter::Value;
use std::cmp::Ordering;
use std::sync::Arc;

fn num(kind: u8, bits: u64) -> Value {
    match kind {
        0 => Value::Int(bits as i64),
        1 => Value::UInt(bits),
        _ => Value::Float(f64::from_bits(bits)),
    }
}

/// all coherence laws + exactness for one ordered pair of numeric values
fn judge_pair(ka: u8, a: u64, kb: u8, b: u64) {
    let (x, y) = (num(ka, a), num(kb, b));
    let want = oracle::cmp_num(ka, a, kb, b);
    let eq = x == y;
    let ne = x != y;
    let cmp = x.partial_cmp(&y);
    let rev = y.partial_cmp(&x);
    check!(eq == (want == Some(Ordering::Equal)), "== holds iff the numbers denoted are equal");
    check!(cmp == want, "partial_cmp is the order of the numbers denoted (None iff a NaN is involved)");
    check!(ne == !eq, "!= is the negation of ==");
    check!((y == x) == eq, "== is symmetric");
    check!(rev == cmp.map(|o| o.reverse()), "a<b iff b>a (antisymmetry of partial_cmp)");
    check!((cmp == Some(Ordering::Equal)) == eq || cmp.is_none(), "partial_cmp says Equal exactly when == holds");
    // the four derived operators, as the evaluator computes them from partial_cmp
    if let Some(o) = cmp {
        let lt = o == Ordering::Less;
        let gt = o == Ordering::Greater;
        let le = o != Ordering::Greater;
        let ge = o != Ordering::Less;
        check!((lt as u8) + (eq as u8) + (gt as u8) == 1, "exactly one of a<b, a==b, a>b");
        check!(le == (lt || eq), "a<=b iff a<b || a==b");
        check!(ge == (gt || eq), "a>=b iff a>b || a==b");
    } else {
        check!(!eq, "unordered values (NaN) are unequal");
    }
    forget(x);
    forget(y);
}

pub fn c09_int_float() {
    let (a, b): (u64, u64) = (any(), any());
    region!("C09:int_float_beyond_2p53", {
        let i = a as i64;
        i > (1 << 53) || i < -(1 << 53)
    });
    judge_pair(0, a, 2, b);
    cover!(f64::from_bits(b) != f64::from_bits(b), "NaN reachable");
    cover!(oracle::cmp_num(0, a, 2, b) == Some(Ordering::Equal), "equal int/double reachable");
}
pub fn c09_float_int() {
    let (a, b): (u64, u64) = (any(), any());
    region!("C09:int_float_beyond_2p53", {
        let i = b as i64;
        i > (1 << 53) || i < -(1 << 53)
    });
    judge_pair(2, a, 0, b);
    cover!(oracle::cmp_num(2, a, 0, b) == Some(Ordering::Less), "double < int reachable");
}
pub fn c09_uint_float() {
    let (a, b): (u64, u64) = (any(), any());
    region!("C09:uint_float_beyond_2p53", a > (1 << 53));
    judge_pair(1, a, 2, b);
    cover!(oracle::cmp_num(1, a, 2, b) == Some(Ordering::Equal), "equal uint/double reachable");
}
pub fn c09_float_uint() {
    let (a, b): (u64, u64) = (any(), any());
    region!("C09:uint_float_beyond_2p53", b > (1 << 53));
    judge_pair(2, a, 1, b);
    cover!(oracle::cmp_num(2, a, 1, b) == Some(Ordering::Greater), "double > uint reachable");
}
pub fn c09_int_uint() {
    let (a, b): (u64, u64) = (any(), any());
    judge_pair(0, a, 1, b);
    judge_pair(1, b, 0, a);
    cover!((a as i64) < 0, "negative int reachable");
    cover!(b > i64::MAX as u64, "uint above i64::MAX reachable");
}
pub fn c09_same_kind() {
    let (a, b): (u64, u64) = (any(), any());
    judge_pair(0, a, 0, b);
    judge_pair(1, a, 1, b);
    judge_pair(2, a, 2, b);
    cover!(f64::from_bits(a) != f64::from_bits(a), "NaN reachable");
    cover!(a == b, "identical payloads reachable");
}

/// Transitivity of < and == over numeric triples; the 27 kind triples are enumerated concretely,
/// the three payloads are symbolic and shared.
fn transitive_for(ka: u8, kb: u8, kc: u8, a: u64, b: u64, c: u64) {
    let (x, y, z) = (num(ka, a), num(kb, b), num(kc, c));
    let lt = |p: &Value, q: &Value| p.partial_cmp(q) == Some(Ordering::Less);
    let (xy, yz, xz) = (lt(&x, &y), lt(&y, &z), lt(&x, &z));
    let (exy, eyz, exz) = (x == y, y == z, x == z);
    check!(!(xy && yz) || xz, "< is transitive");
    check!(!(exy && eyz) || exz, "== is transitive");
    check!(!(exy && yz) || xz, "== is a congruence for < (left)");
    check!(!(xy && eyz) || xz, "== is a congruence for < (right)");
    forget(x);
    forget(y);
    forget(z);
}
fn transitive_with_first(ka: u8) {
    let (a, b, c): (u64, u64, u64) = (any(), any(), any());
    region!("C09:int_float_beyond_2p53", {
        let big = |v: u64| (v as i64) > (1 << 53) || (v as i64) < -(1 << 53) || v > (1 << 53);
        big(a) || big(b) || big(c)
    });
    let mut kb = 0u8;
    while kb < 3 {
        let mut kc = 0u8;
        while kc < 3 {
            transitive_for(ka, kb, kc, a, b, c);
            kc += 1;
        }
        kb += 1;
    }
    cover!(a < b && b < c, "ascending payloads reachable");
}
pub fn c09_transitive_int_first() {
    transitive_with_first(0)
}
pub fn c09_transitive_uint_first() {
    transitive_with_first(1)
}
pub fn c09_transitive_float_first() {
    transitive_with_first(2)
}

/// kinds for the "unrelated types" law. 0..2 numeric, 3 bool, 4 null, 5 string, 6 bytes,
/// 7 list, 8 duration, 9 timestamp.  Heap-backed kinds are concrete representatives.
fn any_kind(kind: u8, bits: u64) -> Value {
    match kind {
        0 | 1 | 2 => num(kind, bits),
        3 => Value::Bool(bits & 1 == 1),
        4 => Value::Null,
        5 => Value::String(Arc::new(String::new())),
        6 => Value::Bytes(Arc::new(Vec::new())),
        7 => Value::List(Arc::new(Vec::new())),
        8 => Value::Duration(chrono::Duration::nanoseconds((bits >> 1) as i64)),
        _ => Value::Timestamp(
            chrono::DateTime::from_timestamp((bits >> 34) as i64, 0)
                .unwrap()
                .fixed_offset(),
        ),
    }
}
fn family(kind: u8) -> u8 {
    if kind < 3 {
        0
    } else {
        kind
    }
}
pub fn c09_unrelated_kinds() {
    let (a, b): (u64, u64) = (any(), any());
    // one value of every kind (payloads symbolic where the kind has one), compared pairwise by
    // reference across type families
    let xs: [Value; 10] = [
        any_kind(0, a), any_kind(1, a), any_kind(2, a), any_kind(3, a), any_kind(4, a),
        any_kind(5, a), any_kind(6, a), any_kind(7, a), any_kind(8, a), any_kind(9, a),
    ];
    let ys: [Value; 10] = [
        any_kind(0, b), any_kind(1, b), any_kind(2, b), any_kind(3, b), any_kind(4, b),
        any_kind(5, b), any_kind(6, b), any_kind(7, b), any_kind(8, b), any_kind(9, b),
    ];
    let mut ka = 0usize;
    while ka < 10 {
        let mut kb = 0usize;
        while kb < 10 {
            if family(ka as u8) != family(kb as u8) {
                let (x, y) = (&xs[ka], &ys[kb]);
                check!(!(x == y), "values of unrelated types are unequal");
                check!(x != y, "values of unrelated types satisfy !=");
                check!(x.partial_cmp(y).is_none(), "values of unrelated types are not orderable");
            }
            kb += 1;
        }
        ka += 1;
    }
    cover!(a == b, "identical payload bits reachable");
    forget(xs);
    forget(ys);
}
/// bool and null: ordering of like kinds
pub fn c09_bool_null() {
    let (p, q): (bool, bool) = (any(), any());
    let (x, y) = (Value::Bool(p), Value::Bool(q));
    check!((x == y) == (p == q), "bool equality");
    check!(x.partial_cmp(&y) == Some(p.cmp(&q)), "false < true");
    check!(Value::Null == Value::Null, "null equals null");
    check!(Value::Null.partial_cmp(&Value::Null) == Some(Ordering::Equal), "null is ordered equal to null");
    cover!(p && !q, "true vs false reachable");
}

crate::harnesses! {
    #[kani::unwind(2)] c09_int_float: "quick", "<Value as PartialEq>::eq/ne, <Value as PartialOrd>::partial_cmp on (Int,Float)", "all i64 x all f64 bit patterns; oracle: exact comparison of the numbers denoted";
    #[kani::unwind(2)] c09_float_int: "quick", "eq/ne/partial_cmp on (Float,Int)", "all f64 bit patterns x all i64";
    #[kani::unwind(2)] c09_uint_float: "quick", "eq/ne/partial_cmp on (UInt,Float)", "all u64 x all f64 bit patterns";
    #[kani::unwind(2)] c09_float_uint: "quick", "eq/ne/partial_cmp on (Float,UInt)", "all f64 bit patterns x all u64";
    #[kani::unwind(2)] c09_int_uint: "quick", "eq/ne/partial_cmp on (Int,UInt) and (UInt,Int)", "all i64 x all u64; oracle i128";
    #[kani::unwind(2)] c09_same_kind: "quick", "eq/ne/partial_cmp on (Int,Int), (UInt,UInt), (Float,Float)", "all 64-bit patterns";
    #[kani::unwind(4)] c09_transitive_int_first: "quick", "eq/partial_cmp on numeric triples (int, *, *)", "9 kind triples enumerated x all 64-bit payloads";
    #[kani::unwind(4)] c09_transitive_uint_first: "quick", "eq/partial_cmp on numeric triples (uint, *, *)", "9 kind triples enumerated x all 64-bit payloads";
    #[kani::unwind(4)] c09_transitive_float_first: "quick", "eq/partial_cmp on numeric triples (double, *, *)", "9 kind triples enumerated x all 64-bit payloads";
    #[kani::unwind(11)] c09_unrelated_kinds: "quick", "eq/ne/partial_cmp across type families", "kinds: int,uint,double,bool,null,duration,timestamp symbolic payloads; string,bytes,list as concrete empty representatives";
    #[kani::unwind(2)] c09_bool_null: "quick", "eq/partial_cmp on Bool and Null", "all bool pairs";
}
