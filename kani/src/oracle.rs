//! Short, independent reference models (exact arithmetic only: integer comparisons, exact
//! int<->float conversions on ranges where they are exact).  Validated natively against the
//! repository's own test vectors by `selftest`.
use std::cmp::Ordering;

pub const TWO63: f64 = 9223372036854775808.0; // 2^63, exactly representable
pub const TWO64: f64 = 18446744073709551616.0; // 2^64, exactly representable

/// Compare the integer `i` with the real number denoted by `f` (None iff NaN).
pub fn cmp_int_float(i: i64, f: f64) -> Option<Ordering> {
    if f != f {
        return None;
    }
    if f >= TWO63 {
        return Some(Ordering::Less);
    }
    if f < -TWO63 {
        return Some(Ordering::Greater);
    }
    // -2^63 <= f < 2^63: truncation toward zero is exact and fits
    let t = f as i64;
    if i != t {
        return Some(if i < t { Ordering::Less } else { Ordering::Greater });
    }
    // i == trunc(f): decide by the sign of the fractional part; (t as f64) is exact because
    // trunc(f) is an integer-valued double
    let tf = t as f64;
    Some(if tf < f {
        Ordering::Less
    } else if tf > f {
        Ordering::Greater
    } else {
        Ordering::Equal
    })
}

pub fn cmp_uint_float(u: u64, f: f64) -> Option<Ordering> {
    if f != f {
        return None;
    }
    if f >= TWO64 {
        return Some(Ordering::Less);
    }
    if f < 0.0 {
        return Some(Ordering::Greater);
    }
    let t = f as u64;
    if u != t {
        return Some(if u < t { Ordering::Less } else { Ordering::Greater });
    }
    let tf = t as f64;
    Some(if tf < f {
        Ordering::Less
    } else if tf > f {
        Ordering::Greater
    } else {
        Ordering::Equal
    })
}

pub fn cmp_int_uint(i: i64, u: u64) -> Ordering {
    (i as i128).cmp(&(u as i128))
}

pub fn cmp_float_float(a: f64, b: f64) -> Option<Ordering> {
    if a != a || b != b {
        None
    } else if a < b {
        Some(Ordering::Less)
    } else if a > b {
        Some(Ordering::Greater)
    } else {
        Some(Ordering::Equal)
    }
}

/// numeric kinds: 0 = int, 1 = uint, 2 = double; payload = raw 64 bits
pub fn cmp_num(ka: u8, a: u64, kb: u8, b: u64) -> Option<Ordering> {
    match (ka, kb) {
        (0, 0) => Some((a as i64).cmp(&(b as i64))),
        (1, 1) => Some(a.cmp(&b)),
        (2, 2) => cmp_float_float(f64::from_bits(a), f64::from_bits(b)),
        (0, 1) => Some(cmp_int_uint(a as i64, b)),
        (1, 0) => Some(cmp_int_uint(b as i64, a).reverse()),
        (0, 2) => cmp_int_float(a as i64, f64::from_bits(b)),
        (2, 0) => cmp_int_float(b as i64, f64::from_bits(a)).map(|o| o.reverse()),
        (1, 2) => cmp_uint_float(a, f64::from_bits(b)),
        _ => cmp_uint_float(b, f64::from_bits(a)).map(|o| o.reverse()),
    }
}

// ---------------------------------------------------------------- Go duration text

/// Single-pass reader and canonicity checker for the Go duration text of `n` nanoseconds
/// (time.Duration.String): returns true iff `t[..len]` reads back to exactly `n` AND is the
/// canonical spelling, which the following rules make unique:
///  * "0s" for zero; a leading '-' iff n < 0;
///  * |n| < 1s: one term in ns (|n| < 1us, no fraction), us written with the micro sign
///    (|n| < 1ms) or ms, integer part without leading zero, fraction without trailing zero;
///  * otherwise [<h>h][<m>m]<s>[.<frac>]s with h present iff hours > 0, m present iff h is
///    present or minutes > 0, no leading zeros, m and s below 60, fraction of at most nine
///    digits without trailing zero.
/// All arithmetic is exact (u64 with overflow reported as a mismatch); the only multiplications
/// are by constants.
pub fn is_canonical_go_duration(t: &[u8], len: usize, n: i64) -> bool {
    if len > t.len() || len < 2 {
        return false;
    }
    let mag = n.unsigned_abs();
    let mut i = 0usize;
    if n < 0 {
        if t[0] != b'-' {
            return false;
        }
        i = 1;
    }
    if mag == 0 {
        return len == 2 && t[0] == b'0' && t[1] == b's';
    }
    // state of the number being read
    let mut int: u64 = 0;
    let mut nd: u32 = 0; // digits of the integer part
    let mut lead0 = false; // integer part has more than one digit and starts with 0
    let mut frac: u64 = 0;
    let mut fd: u32 = 0; // digits of the fraction
    let mut in_frac = false;
    let mut last_frac_digit: u8 = 1;
    // accumulated value and which units have been seen (0 none, 1 h, 2 m, 3 final)
    let mut total: u64 = 0;
    let mut stage: u8 = 0;
    let mut hours: u64 = 0;
    let mut k = 0usize;
    while k < 40 {
        if i < len {
            let c = t[i];
            if stage == 3 {
                return false; // text after the final unit
            }
            if c >= b'0' && c <= b'9' {
                let d = (c - b'0') as u64;
                if in_frac {
                    if fd >= 9 {
                        return false;
                    }
                    frac = frac * 10 + d;
                    fd += 1;
                    last_frac_digit = d as u8;
                } else {
                    if nd >= 19 {
                        return false;
                    }
                    if nd == 1 && int == 0 {
                        lead0 = true;
                    }
                    int = int * 10 + d;
                    nd += 1;
                }
                i += 1;
            } else if c == b'.' {
                if in_frac || nd == 0 {
                    return false;
                }
                in_frac = true;
                i += 1;
            } else {
                // a unit: the number before it must be well formed
                if nd == 0 || lead0 || (in_frac && (fd == 0 || last_frac_digit == 0)) {
                    return false;
                }
                let c1 = if i + 1 < len { t[i + 1] } else { 0 };
                let c2 = if i + 2 < len { t[i + 2] } else { 0 };
                if c == b'h' {
                    if stage != 0 || in_frac || int == 0 || mag < 1_000_000_000 {
                        return false;
                    }
                    if int > 2_562_047 {
                        return false;
                    }
                    hours = int;
                    total = int * 3_600_000_000_000;
                    stage = 1;
                    i += 1;
                } else if c == b'm' && c1 != b's' {
                    if stage > 1 || in_frac || int >= 60 && stage == 1 || mag < 1_000_000_000 {
                        return false;
                    }
                    if stage == 0 && (int == 0 || int >= 60) {
                        // without hours, minutes are present only when non-zero, and below 60
                        return false;
                    }
                    total += int * 60_000_000_000;
                    stage = 2;
                    i += 1;
                } else {
                    // final term: s, ms, micro-sign s, ns
                    let (scale, places, ulen): (u64, u32, usize) = if c == b's' {
                        (1_000_000_000, 9, 1)
                    } else if c == b'm' && c1 == b's' {
                        (1_000_000, 6, 2)
                    } else if c == 0xC2 && c1 == 0xB5 && c2 == b's' {
                        (1_000, 3, 3)
                    } else if c == b'n' && c1 == b's' {
                        (1, 0, 2)
                    } else {
                        return false;
                    };
                    if fd > places {
                        return false;
                    }
                    // unit choice is determined by the magnitude
                    let want_scale: u64 = if mag < 1_000 {
                        1
                    } else if mag < 1_000_000 {
                        1_000
                    } else if mag < 1_000_000_000 {
                        1_000_000
                    } else {
                        1_000_000_000
                    };
                    if scale != want_scale {
                        return false;
                    }
                    if scale == 1_000_000_000 {
                        // seconds: after h or m they are below 60; alone they are 1..59
                        if int >= 60 || (stage == 0 && int == 0) {
                            return false;
                        }
                        if stage == 1 {
                            return false; // "XhYs" without minutes is not canonical
                        }
                    } else if stage != 0 || int == 0 || int >= 1_000 {
                        return false;
                    }
                    // pad the fraction to `places` digits
                    let mut f = frac;
                    let mut p = fd;
                    let mut q = 0;
                    while q < 9 {
                        if p < places {
                            f *= 10;
                            p += 1;
                        }
                        q += 1;
                    }
                    // f < 10^places == scale, int*scale < 60*10^9: no overflow below
                    let term = int * scale + f;
                    total = match total.checked_add(term) {
                        Some(v) => v,
                        None => return false,
                    };
                    stage = 3;
                    i += ulen;
                }
                int = 0;
                nd = 0;
                lead0 = false;
                frac = 0;
                fd = 0;
                in_frac = false;
                last_frac_digit = 1;
            }
        }
        k += 1;
    }
    // hours present => minutes present (stage went 1 -> 2 -> 3), checked above by stage rules
    let _ = hours;
    i == len && stage == 3 && total == mag
}

/// Reference model B: Go's `time.Duration.String` (go/src/time/time.go, fmtFrac/fmtInt), ported
/// here independently of the repository's port.  Writes backwards into `buf`, returns the start
/// index.  Validated natively against the reader/canonicity oracle above and the repository's
/// test vectors (`selftest`); the Kani harnesses prove the implementation byte-equal to it.
pub fn go_duration_string(n: i64, buf: &mut [u8; 32]) -> usize {
    fn fmt_frac(buf: &mut [u8; 32], mut w: usize, mut v: u64, prec: u32) -> (usize, u64) {
        let mut print = false;
        let mut i = 0;
        while i < prec {
            let digit = v % 10;
            print = print || digit != 0;
            if print {
                w -= 1;
                buf[w] = digit as u8 + b'0';
            }
            v /= 10;
            i += 1;
        }
        if print {
            w -= 1;
            buf[w] = b'.';
        }
        (w, v)
    }
    fn fmt_int(buf: &mut [u8; 32], mut w: usize, mut v: u64) -> usize {
        if v == 0 {
            w -= 1;
            buf[w] = b'0';
        } else {
            while v > 0 {
                w -= 1;
                buf[w] = (v % 10) as u8 + b'0';
                v /= 10;
            }
        }
        w
    }
    let mut u = n.unsigned_abs();
    let mut w = 32usize;
    if u < 1_000_000_000 {
        w -= 1;
        buf[w] = b's';
        w -= 1;
        let prec;
        if u == 0 {
            buf[w] = b'0';
            return w;
        } else if u < 1_000 {
            prec = 0;
            buf[w] = b'n';
        } else if u < 1_000_000 {
            prec = 3;
            buf[w] = 0xB5;
            w -= 1;
            buf[w] = 0xC2;
        } else {
            prec = 6;
            buf[w] = b'm';
        }
        let (w2, u2) = fmt_frac(buf, w, u, prec);
        w = fmt_int(buf, w2, u2);
    } else {
        w -= 1;
        buf[w] = b's';
        let (w2, u2) = fmt_frac(buf, w, u, 9);
        w = w2;
        u = u2;
        w = fmt_int(buf, w, u % 60);
        u /= 60;
        if u > 0 {
            w -= 1;
            buf[w] = b'm';
            w = fmt_int(buf, w, u % 60);
            u /= 60;
            if u > 0 {
                w -= 1;
                buf[w] = b'h';
                w = fmt_int(buf, w, u);
            }
        }
    }
    if n < 0 {
        w -= 1;
        buf[w] = b'-';
    }
    w
}

/// Exact reader of Go duration syntax (the inverse used by the native self-test): returns the
/// nanosecond count of a text of the form [-] (digits [. digits] unit)+, or None.
pub fn read_go_duration(t: &[u8]) -> Option<i128> {
    let mut i = 0;
    let neg = t.first() == Some(&b'-');
    if neg {
        i = 1;
    }
    if &t[i..] == b"0" {
        return Some(0);
    }
    let mut total: i128 = 0;
    let mut terms = 0;
    while i < t.len() {
        let mut int: i128 = 0;
        let mut nd = 0;
        while i < t.len() && t[i].is_ascii_digit() {
            int = int * 10 + (t[i] - b'0') as i128;
            i += 1;
            nd += 1;
        }
        let (mut fnum, mut fden): (i128, i128) = (0, 1);
        if i < t.len() && t[i] == b'.' {
            i += 1;
            let mut fd = 0;
            while i < t.len() && t[i].is_ascii_digit() {
                fnum = fnum * 10 + (t[i] - b'0') as i128;
                fden *= 10;
                i += 1;
                fd += 1;
            }
            if fd == 0 {
                return None;
            }
        }
        if nd == 0 {
            return None;
        }
        let rest = &t[i..];
        let (scale, ul): (i128, usize) = if rest.starts_with(b"ns") {
            (1, 2)
        } else if rest.starts_with(b"us") {
            (1_000, 2)
        } else if rest.starts_with(&[0xC2, 0xB5, b's']) {
            (1_000, 3)
        } else if rest.starts_with(b"ms") {
            (1_000_000, 2)
        } else if rest.starts_with(b"s") {
            (1_000_000_000, 1)
        } else if rest.starts_with(b"m") {
            (60_000_000_000, 1)
        } else if rest.starts_with(b"h") {
            (3_600_000_000_000, 1)
        } else {
            return None;
        };
        i += ul;
        total += int * scale + (fnum * scale) / fden;
        terms += 1;
    }
    if terms == 0 {
        return None;
    }
    Some(if neg { -total } else { total })
}

/// Reader of duration texts for the parse half of C15: `[-] (digits [. digits] unit)+` with units
/// h m s ms us ns and the micro-sign spelling that string() prints.  Returns the closed interval of
/// nanosecond counts the text may denote (per-term floor .. per-term ceiling of the part below one
/// nanosecond; the two coincide when every fraction is a whole number of nanoseconds), or None when the
/// text is not of that form.  A bare "0" / "-0" is not a term sequence (None).
pub fn read_duration_bounds(t: &[u8]) -> Option<(i128, i128)> {
    let mut i = 0;
    let neg = t.first() == Some(&b'-');
    if neg {
        i = 1;
    }
    let (mut lo, mut hi): (i128, i128) = (0, 0);
    let mut terms = 0;
    while i < t.len() {
        let mut int: i128 = 0;
        let mut nd = 0;
        while i < t.len() && t[i].is_ascii_digit() {
            int = int.checked_mul(10)?.checked_add((t[i] - b'0') as i128)?;
            i += 1;
            nd += 1;
        }
        if nd == 0 {
            return None;
        }
        let (mut fnum, mut fden): (i128, i128) = (0, 1);
        if i < t.len() && t[i] == b'.' {
            i += 1;
            let mut fd = 0;
            while i < t.len() && t[i].is_ascii_digit() {
                if fd < 20 {
                    fnum = fnum * 10 + (t[i] - b'0') as i128;
                    fden *= 10;
                } else if t[i] != b'0' {
                    // digits this far down only matter for the ceiling
                    fnum = fnum.max(1);
                }
                i += 1;
                fd += 1;
            }
            if fd == 0 {
                return None;
            }
        }
        let rest = &t[i..];
        let (scale, ul): (i128, usize) = if rest.starts_with(b"ns") {
            (1, 2)
        } else if rest.starts_with(b"us") {
            (1_000, 2)
        } else if rest.starts_with(&[0xC2, 0xB5, b's']) {
            (1_000, 3)
        } else if rest.starts_with(b"ms") {
            (1_000_000, 2)
        } else if rest.starts_with(b"s") {
            (1_000_000_000, 1)
        } else if rest.starts_with(b"m") {
            (60_000_000_000, 1)
        } else if rest.starts_with(b"h") {
            (3_600_000_000_000, 1)
        } else {
            return None;
        };
        i += ul;
        let whole = int.checked_mul(scale)?;
        let q = (fnum * scale) / fden;
        let r = (fnum * scale) % fden;
        lo = lo.checked_add(whole)?.checked_add(q)?;
        hi = hi.checked_add(whole)?.checked_add(q + (r != 0) as i128)?;
        terms += 1;
    }
    if terms == 0 {
        return None;
    }
    Some(if neg { (-hi, -lo) } else { (lo, hi) })
}

// ---------------------------------------------------------------- proleptic Gregorian calendar

pub struct Civil {
    pub year: i64,
    pub month: i64,   // 1..=12
    pub day: i64,     // 1..=31
    pub yday0: i64,   // 0-based day of year
    pub weekday: i64, // 0 = Sunday
    pub hour: i64,
    pub minute: i64,
    pub second: i64,
}
pub fn is_leap(y: i64) -> bool {
    (y % 4 == 0 && y % 100 != 0) || y % 400 == 0
}
/// Integer-only conversion of a local second count (seconds since 1970-01-01T00:00:00 in the
/// timestamp's own offset) to calendar fields: days by floor division, year/month/day by the
/// 400/100/4-year cycle algorithm (H. Hinnant, "chrono-compatible low-level date algorithms").
pub fn civil_from_local_seconds(local: i64) -> Civil {
    let days = local.div_euclid(86_400);
    let sod = local.rem_euclid(86_400);
    let z = days + 719_468;
    let era = z.div_euclid(146_097);
    let doe = z - era * 146_097; // [0, 146096]
    let yoe = (doe - doe / 1_460 + doe / 36_524 - doe / 146_096) / 365; // [0, 399]
    let doy = doe - (365 * yoe + yoe / 4 - yoe / 100); // [0, 365], March 1 based
    let mp = (5 * doy + 2) / 153; // [0, 11]
    let day = doy - (153 * mp + 2) / 5 + 1;
    let month = if mp < 10 { mp + 3 } else { mp - 9 };
    let year = yoe + era * 400 + if month <= 2 { 1 } else { 0 };
    const CUM: [i64; 12] = [0, 31, 59, 90, 120, 151, 181, 212, 243, 273, 304, 334];
    let yday0 = CUM[(month - 1) as usize] + (day - 1) + if month > 2 && is_leap(year) { 1 } else { 0 };
    Civil {
        year,
        month,
        day,
        yday0,
        weekday: (days + 4).rem_euclid(7),
        hour: sod / 3_600,
        minute: (sod / 60) % 60,
        second: sod % 60,
    }
}
/// days since 1970-01-01 of a proleptic Gregorian date (inverse of the above, used to place windows)
pub const fn days_from_civil(y: i64, m: i64, d: i64) -> i64 {
    let y = if m <= 2 { y - 1 } else { y };
    let era = if y >= 0 { y / 400 } else { (y - 399) / 400 };
    let yoe = y - era * 400;
    let mp = if m > 2 { m - 3 } else { m + 9 };
    let doy = (153 * mp + 2) / 5 + d - 1;
    let doe = yoe * 365 + yoe / 4 - yoe / 100 + doy;
    era * 146_097 + doe - 719_468
}
