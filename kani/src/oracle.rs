//! Short, independent reference models (exact arithmetic only: integer comparisons, exact
//! int<->float conversions on ranges where they are exact).  Validated natively against the
//! repository's own test vectors by `selftest`.
use std::cmp::Ordering;

pub const TWO63: f64 = 9223372036854775808.0; // 2^63, exactly representable
pub const TWO64: f64 = 18446744073709551616.0; // 2^64, exactly representable

/// Compare the integer `i` with the real number denoted by `f` (None iff NaN).
pub fn cmp_int_float(i: i64, f: f64) -> Option<Ordering> {
    if f != f {
        return None;
    }
    if f >= TWO63 {
        return Some(Ordering::Less);
    }
    if f < -TWO63 {
        return Some(Ordering::Greater);
    }
    // -2^63 <= f < 2^63: truncation toward zero is exact and fits
    let t = f as i64;
    if i != t {
        return Some(if i < t { Ordering::Less } else { Ordering::Greater });
    }
    // i == trunc(f): decide by the sign of the fractional part; (t as f64) is exact because
    // trunc(f) is an integer-valued double
    let tf = t as f64;
    Some(if tf < f {
        Ordering::Less
    } else if tf > f {
        Ordering::Greater
    } else {
        Ordering::Equal
    })
}

pub fn cmp_uint_float(u: u64, f: f64) -> Option<Ordering> {
    if f != f {
        return None;
    }
    if f >= TWO64 {
        return Some(Ordering::Less);
    }
    if f < 0.0 {
        return Some(Ordering::Greater);
    }
    let t = f as u64;
    if u != t {
        return Some(if u < t { Ordering::Less } else { Ordering::Greater });
    }
    let tf = t as f64;
    Some(if tf < f {
        Ordering::Less
    } else if tf > f {
        Ordering::Greater
    } else {
        Ordering::Equal
    })
}

pub fn cmp_int_uint(i: i64, u: u64) -> Ordering {
    (i as i128).cmp(&(u as i128))
}

pub fn cmp_float_float(a: f64, b: f64) -> Option<Ordering> {
    if a != a || b != b {
        None
    } else if a < b {
        Some(Ordering::Less)
    } else if a > b {
        Some(Ordering::Greater)
    } else {
        Some(Ordering::Equal)
    }
}

/// numeric kinds: 0 = int, 1 = uint, 2 = double; payload = raw 64 bits
pub fn cmp_num(ka: u8, a: u64, kb: u8, b: u64) -> Option<Ordering> {
    match (ka, kb) {
        (0, 0) => Some((a as i64).cmp(&(b as i64))),
        (1, 1) => Some(a.cmp(&b)),
        (2, 2) => cmp_float_float(f64::from_bits(a), f64::from_bits(b)),
        (0, 1) => Some(cmp_int_uint(a as i64, b)),
        (1, 0) => Some(cmp_int_uint(b as i64, a).reverse()),
        (0, 2) => cmp_int_float(a as i64, f64::from_bits(b)),
        (2, 0) => cmp_int_float(b as i64, f64::from_bits(a)).map(|o| o.reverse()),
        (1, 2) => cmp_uint_float(a, f64::from_bits(b)),
        _ => cmp_uint_float(b, f64::from_bits(a)).map(|o| o.reverse()),
    }
}
