//! C17 — host data converts to CEL values without loss of structure (scalar half).
//! Encoded: `ser::to_value` -> `Serializer::serialize_*` scalar methods, option/unit/newtype paths,
//! the `Duration` wrapper (`TimeSerializer::Duration`, `SerializeTimestamp`).
use crate::sym::{self, any, forget};
use crate::{check, cover, region};
use cel_interpreter::{to_value, Value};
use serde::Serialize;

#[derive(Serialize)]
struct Wrap<T>(T);
#[derive(Serialize)]
struct Unit;
#[derive(Serialize)]
enum E {
    A,
    #[allow(dead_code)]
    B,
}

/// equality of two scalar JSON documents, spelled out per variant (serde_json's own `==` recurses
/// into arrays and objects, which the symbolic executor would explore for symbolic variant tags)
fn same_scalar(a: &serde_json::Value, b: &serde_json::Value) -> bool {
    use serde_json::Value as J;
    match (a, b) {
        (J::Null, J::Null) => true,
        (J::Bool(p), J::Bool(q)) => p == q,
        (J::Number(x), J::Number(y)) => {
            x.as_i64() == y.as_i64() && x.as_u64() == y.as_u64() && x.is_f64() == y.is_f64() && (!x.is_f64() || x.as_f64() == y.as_f64())
        }
        _ => false,
    }
}

fn commutes<T: Serialize>(x: &T, v: &Result<Value, cel_interpreter::SerializationError>) -> bool {
    // converting and then exporting to JSON equals serialising directly with serde_json
    let direct = serde_json::to_value(x);
    let r = match (v, &direct) {
        (Ok(v), Ok(direct)) => {
            let j = v.json();
            let same = match &j {
                Ok(j) => same_scalar(j, direct),
                Err(_) => false,
            };
            forget(j);
            same
        }
        _ => false,
    };
    forget(direct);
    r
}

pub fn c17_signed() {
    let (a, b, c, d): (i8, i16, i32, i64) = (any(), any(), any(), any());
    let (ra, rb, rc, rd) = (to_value(a), to_value(b), to_value(c), to_value(d));
    check!(matches!(ra, Ok(Value::Int(v)) if v == a as i64), "i8 becomes int with the same number");
    check!(matches!(rb, Ok(Value::Int(v)) if v == b as i64), "i16 becomes int with the same number");
    check!(matches!(rc, Ok(Value::Int(v)) if v == c as i64), "i32 becomes int with the same number");
    check!(matches!(rd, Ok(Value::Int(v)) if v == d), "i64 becomes int with the same number");
    check!(commutes(&a, &ra) && commutes(&d, &rd), "signed integers commute with serde_json");
    cover!(a < 0 && d == i64::MIN, "negative extremes reachable");
    forget((ra, rb, rc, rd));
}
/// 128-bit integers: a signed one may be rejected (serde's default) or become the int with the same number - never a uint,
/// never another number; an unsigned one may be rejected or become the uint with the same number.
pub fn c17_wide_integers() {
    let (a, b): (i128, u128) = (any(), any());
    let (ra, rb) = (to_value(a), to_value(b));
    cover!(a >= 0 && a <= u64::MAX as i128, "a non-negative i128 that would fit a uint");
    check!(
        match &ra {
            Ok(Value::Int(v)) => *v as i128 == a,
            Ok(_) => false,
            Err(_) => true,
        },
        "a signed 128-bit integer becomes the int with the same number or is rejected"
    );
    check!(
        match &rb {
            Ok(Value::UInt(v)) => *v as u128 == b,
            Ok(_) => false,
            Err(_) => true,
        },
        "an unsigned 128-bit integer becomes the uint with the same number or is rejected"
    );
    forget(ra);
    forget(rb);
}

pub fn c17_unsigned() {
    let (a, b, c, d): (u8, u16, u32, u64) = (any(), any(), any(), any());
    let (ra, rb, rc, rd) = (to_value(a), to_value(b), to_value(c), to_value(d));
    check!(matches!(ra, Ok(Value::UInt(v)) if v == a as u64), "u8 becomes uint with the same number");
    check!(matches!(rb, Ok(Value::UInt(v)) if v == b as u64), "u16 becomes uint with the same number");
    check!(matches!(rc, Ok(Value::UInt(v)) if v == c as u64), "u32 becomes uint with the same number");
    check!(matches!(rd, Ok(Value::UInt(v)) if v == d), "u64 becomes uint with the same number");
    check!(commutes(&a, &ra) && commutes(&d, &rd), "unsigned integers commute with serde_json");
    cover!(d > i64::MAX as u64, "u64 above i64::MAX reachable");
    forget((ra, rb, rc, rd));
}
pub fn c17_floats_bool() {
    let (f, g, b): (f32, f64, bool) = (any(), any(), any());
    let (rf, rg, rb) = (to_value(f), to_value(g), to_value(b));
    check!(matches!(rf, Ok(Value::Float(v)) if v.to_bits() == (f as f64).to_bits()), "f32 becomes double, widened exactly");
    check!(matches!(rg, Ok(Value::Float(v)) if v.to_bits() == g.to_bits()), "f64 becomes double bit-exactly");
    check!(matches!(rb, Ok(Value::Bool(v)) if v == b), "bool becomes bool");
    if g == g && g != f64::INFINITY && g != f64::NEG_INFINITY {
        check!(commutes(&g, &rg), "finite doubles commute with serde_json");
    }
    cover!(g != g, "NaN reachable");
    cover!(f != f, "f32 NaN reachable");
    forget((rf, rg, rb));
}
pub fn c17_option() {
    let x: i16 = any();
    let some: bool = any();
    cover!(some && x < 0, "Some(negative) reachable");
    cover!(!some, "None reachable");
    // each branch builds its own values, so that the variant tags are concrete on each path
    if some {
        let (ro, roo) = (to_value(Some(x)), to_value(Some(Some(x))));
        check!(matches!(ro, Ok(Value::Int(v)) if v == x as i64), "Some(x) becomes the value of x");
        check!(matches!(roo, Ok(Value::Int(v)) if v == x as i64), "Some(Some(x)) becomes the value of x");
        check!(commutes(&Some(x), &ro), "Some(x) commutes with serde_json");
        forget((ro, roo));
    } else {
        let (ro, roo) = (to_value(None::<i16>), to_value(Some(None::<i16>)));
        check!(matches!(ro, Ok(Value::Null)), "None becomes null");
        check!(matches!(roo, Ok(Value::Null)), "Some(None) becomes null");
        check!(commutes(&None::<i16>, &ro), "None commutes with serde_json");
        forget((ro, roo));
    }
}
pub fn c17_unit_newtype() {
    let x: i16 = any();
    let (ru, rus, rw, rww) = (to_value(()), to_value(Unit), to_value(Wrap(x)), to_value(Wrap(Wrap(x as u32))));
    check!(matches!(ru, Ok(Value::Null)), "unit becomes null");
    check!(matches!(rus, Ok(Value::Null)), "unit struct becomes null");
    check!(matches!(rw, Ok(Value::Int(v)) if v == x as i64), "newtype struct becomes its content");
    check!(matches!(rww, Ok(Value::UInt(v)) if v == (x as u32) as u64), "nested newtype struct becomes its content");
    check!(commutes(&(), &ru) && commutes(&Wrap(x), &rw), "unit and newtypes commute with serde_json");
    cover!(x < 0, "negative payload reachable");
    forget((ru, rus, rw, rww));
}
/// the Duration wrapper yields the same duration over chrono's whole range
pub fn c17_duration_wrapper() {
    let secs: i64 = any();
    let nanos: u32 = any();
    sym::assume(nanos < 1_000_000_000);
    let d = chrono::Duration::new(secs, nanos);
    sym::assume(d.is_some());
    let d = d.unwrap();
    region!("C17:duration_wrapper_beyond_i64_ns", d.num_nanoseconds().is_none() && nanos != 0);
    let r = to_value(cel_interpreter::Duration(d));
    cover!(d.num_nanoseconds().is_none() && nanos != 0, "duration beyond 2^63 ns with a sub-second part reachable");
    cover!(secs < 0 && nanos != 0, "negative duration with a sub-second part reachable");
    check!(matches!(r, Ok(Value::Duration(x)) if x == d), "the Duration wrapper converts to the same duration");
    forget(r);
}

// ---- compound values (concrete shapes, symbolic scalar payloads); maps use the H1 model under Kani
use cel_interpreter::objects::Key;
use serde::ser::{SerializeMap, SerializeSeq};
use std::sync::Arc;

struct RepeatedKey(i64, i64);
impl Serialize for RepeatedKey {
    fn serialize<S: serde::Serializer>(&self, s: S) -> Result<S::Ok, S::Error> {
        let mut m = s.serialize_map(Some(3))?;
        m.serialize_entry("a", &self.0)?;
        m.serialize_entry("b", &7i64)?;
        m.serialize_entry("a", &self.1)?;
        m.end()
    }
}
fn key(s: &str) -> Key {
    Key::String(Arc::new(s.to_string()))
}
/// a map entry stream that repeats a key: the last value wins (as in serde_json), nothing is lost
pub fn c17_map_repeated_key() {
    let (x, y): (i64, i64) = (any(), any());
    let r = to_value(RepeatedKey(x, y));
    match &r {
        Ok(Value::Map(m)) => {
            check!(m.map.len() == 2, "a repeated key yields one entry per distinct key");
            check!(matches!(m.map.get(&key("a")), Some(Value::Int(v)) if *v == y), "for a repeated key the last value wins (as serde_json does)");
            check!(matches!(m.map.get(&key("b")), Some(Value::Int(7))), "other entries are kept");
        }
        _ => check!(false, "a string-keyed map converts to a map"),
    }
    cover!(x != y, "distinct values for the repeated key reachable");
    forget(r);
}
struct Two(i32, u16);
impl Serialize for Two {
    fn serialize<S: serde::Serializer>(&self, s: S) -> Result<S::Ok, S::Error> {
        let mut q = s.serialize_seq(Some(2))?;
        q.serialize_element(&self.0)?;
        q.serialize_element(&self.1)?;
        q.end()
    }
}
#[derive(Serialize)]
struct Pq {
    p: i64,
    q: bool,
}
/// sequences and tuples become lists in order; structs become maps keyed by field name
pub fn c17_seq_tuple_struct() {
    let (a, b): (i32, u16) = (any(), any());
    let r = to_value(Two(a, b));
    match &r {
        Ok(Value::List(l)) => {
            check!(l.len() == 2, "a sequence of two elements becomes a list of two");
            check!(matches!(&l[0], Value::Int(v) if *v == a as i64) && matches!(&l[1], Value::UInt(v) if *v == b as u64), "list elements keep order, kind and number");
        }
        _ => check!(false, "a sequence converts to a list"),
    }
    let t = to_value((a, b));
    check!(matches!(&t, Ok(Value::List(l)) if l.len() == 2 && matches!(&l[0], Value::Int(v) if *v == a as i64)), "a tuple converts to a list in order");
    let (p, q): (i64, bool) = (any(), any());
    let st = to_value(Pq { p, q });
    match &st {
        Ok(Value::Map(m)) => {
            check!(m.map.len() == 2, "a struct becomes a map with one entry per field");
            check!(matches!(m.map.get(&key("p")), Some(Value::Int(v)) if *v == p), "field p keeps its value");
            check!(matches!(m.map.get(&key("q")), Some(Value::Bool(v)) if *v == q), "field q keeps its value");
        }
        _ => check!(false, "a struct converts to a map"),
    }
    cover!(a < 0 && q, "negative element and true field reachable");
    forget((r, t, st));
}
/// a char becomes the one-character string (every UTF-8 length class)
fn char_class(lo: u32, hi: u32) {
    let u: u32 = any();
    sym::assume(u >= lo && u <= hi);
    let c = char::from_u32(u);
    sym::assume(c.is_some());
    let c = c.unwrap();
    let r = to_value(c);
    let mut want = [0u8; 4];
    let w = c.encode_utf8(&mut want).len();
    match &r {
        Ok(Value::String(s)) => {
            let b = s.as_bytes();
            check!(b.len() == w, "char converts to a string of its UTF-8 length");
            let mut i = 0;
            let mut same = true;
            while i < 4 {
                if i < w && i < b.len() && b[i] != want[i] {
                    same = false;
                }
                i += 1;
            }
            check!(same, "char converts to exactly its UTF-8 encoding");
        }
        _ => check!(false, "char converts to a string, never a panic"),
    }
    cover!(u == hi, "upper end of the class reachable");
    forget(r);
}
pub fn c17_char_1_2_bytes() {
    char_class(0, 0x7FF)
}
pub fn c17_char_3_4_bytes() {
    char_class(0x800, 0x10FFFF)
}

crate::harnesses! {
    #[kani::unwind(4)] c17_map_repeated_key: "off", "ser::to_value -> Serializer::serialize_map, SerializeMap::serialize_key/serialize_value/end, KeySerializer::serialize_str (map = H1 model under Kani)", "entry stream a,b,a with symbolic i64 values";
    #[kani::unwind(4)] c17_seq_tuple_struct: "off", "ser::to_value -> serialize_seq/tuple/struct, SerializeVec, SerializeMap as SerializeStruct", "seq(2), tuple(2), struct{p,q}; all i32/u16/i64/bool payloads";
    #[kani::unwind(6)] c17_char_1_2_bytes: "quick", "ser::to_value -> Serializer::serialize_char", "every char up to U+07FF";
    #[kani::unwind(6)] c17_char_3_4_bytes: "quick", "ser::to_value -> Serializer::serialize_char", "every char from U+0800 (surrogates excluded)";
    #[kani::unwind(2)] c17_signed: "quick", "ser::to_value -> Serializer::serialize_i8/i16/i32/i64; Value::json; serde_json::to_value", "all values of i8, i16, i32, i64";
    #[kani::unwind(2)] c17_wide_integers: "quick", "ser::to_value -> Serializer::serialize_i128/u128 (serde's default rejects them)", "all values of i128 and u128";
    #[kani::unwind(2)] c17_unsigned: "quick", "ser::to_value -> Serializer::serialize_u8/u16/u32/u64; Value::json", "all values of u8, u16, u32, u64";
    #[kani::unwind(2)] c17_floats_bool: "quick", "ser::to_value -> Serializer::serialize_f32/f64/bool; Value::json", "all f32 and f64 bit patterns, both bools";
    #[kani::unwind(2)] c17_option: "quick", "ser::to_value -> serialize_none/some/unit/unit_struct/newtype_struct", "Option<i16>, Option<Option<i16>>; all i16";
    #[kani::unwind(2)] c17_unit_newtype: "quick", "ser::to_value -> serialize_unit/unit_struct/newtype_struct", "(), unit struct, newtype wrappers (nested); all i16";
    #[kani::unwind(26)] c17_duration_wrapper: "quick", "ser::to_value on cel_interpreter::Duration -> TimeSerializer::Duration, SerializeTimestamp", "every chrono duration";
}
