//! C13 — numeric conversions preserve the number or fail.
//! Encoded: `functions::{int, uint, double}` called directly (the bodies the evaluator dispatches to).
use crate::oracle::{self, TWO63, TWO64};
use crate::sym::{any, forget};
use crate::{check, cover, region};
use cel_interpreter::extractors::This;
use cel_interpreter::{functions, Context, ExecutionError, FunctionContext, Value};
use std::cmp::Ordering;
use std::sync::Arc;

/// runs `f` with a FunctionContext over an empty root context (the conversions use it only to
/// build error values)
fn with_ftx<R>(f: impl FnOnce(&FunctionContext) -> R) -> R {
    let ctx = Context::empty();
    let ftx = FunctionContext::new(Arc::new(String::new()), None, &ctx, Vec::new());
    let r = f(&ftx);
    forget(ftx);
    forget(ctx);
    r
}
fn is_err(r: &Result<Value, ExecutionError>) -> bool {
    matches!(r, Err(ExecutionError::FunctionError { .. }))
}

/// t == trunc(v), stated with exact comparisons only
fn is_trunc_of(t: i128, v: f64) -> bool {
    // v is finite and |v| < 2^64 here
    let c = |x: i128| -> Ordering {
        // compare the integer x (|x| <= 2^64) with v exactly
        if x >= 0 {
            if x > u64::MAX as i128 {
                // x == 2^64
                if v < TWO64 { Ordering::Greater } else { Ordering::Equal }
            } else {
                oracle::cmp_uint_float(x as u64, v).unwrap()
            }
        } else if x < i64::MIN as i128 {
            // x == -2^63 - 1, and v >= -2^63 whenever this is asked
            Ordering::Less
        } else {
            oracle::cmp_int_float(x as i64, v).unwrap()
        }
    };
    if v >= 0.0 {
        c(t) != Ordering::Greater && c(t + 1) == Ordering::Greater
    } else {
        c(t) != Ordering::Less && c(t - 1) == Ordering::Less
    }
}

pub fn c13_int_from_double() {
    let v: f64 = any();
    region!("C13:int_of_double_at_2p63_or_nan", v != v || v == TWO63);
    let r = with_ftx(|ftx| functions::int(ftx, This(Value::Float(v))));
    let representable = v == v && v >= -TWO63 && v < TWO63;
    cover!(representable && v != (v as i64) as f64, "fractional in-range double reachable");
    cover!(v == TWO63, "2^63 reachable");
    cover!(v != v, "NaN reachable");
    cover!(v == -TWO63, "-2^63 reachable");
    if representable {
        match &r {
            Ok(Value::Int(t)) => {
                check!(*t == v as i64, "int(double) is the truncation toward zero");
                check!(is_trunc_of(*t as i128, v), "int(double): |t| <= |v| < |t|+1 with the sign of v");
            }
            _ => check!(false, "int(double) succeeds for every double in [-2^63, 2^63)"),
        }
    } else {
        check!(is_err(&r), "int(double) is an error for NaN and for doubles outside [-2^63, 2^63) - never a saturated or NaN-derived number");
    }
    forget(r);
}

pub fn c13_uint_from_double() {
    let v: f64 = any();
    region!("C13:uint_of_double_at_2p64_or_nan", v != v || v == TWO64);
    let r = with_ftx(|ftx| functions::uint(ftx, This(Value::Float(v))));
    cover!(v == TWO64, "2^64 reachable");
    cover!(v != v, "NaN reachable");
    cover!(v > TWO63 && v < TWO64, "double between 2^63 and 2^64 reachable");
    if v == v && v >= 0.0 && v < TWO64 {
        match &r {
            Ok(Value::UInt(t)) => {
                check!(*t == v as u64, "uint(double) is the truncation toward zero");
                check!(is_trunc_of(*t as i128, v), "uint(double): t <= v < t+1");
            }
            _ => check!(false, "uint(double) succeeds for every double in [0, 2^64)"),
        }
    } else if v == v && v > -1.0 && v < 0.0 {
        // truncation gives 0, which is representable; the value itself is below the uint range:
        // the statement admits either reading, so both an error and 0 are accepted
        check!(is_err(&r) || matches!(r, Ok(Value::UInt(0))), "uint(double in (-1,0)) is an error or 0");
    } else {
        check!(is_err(&r), "uint(double) is an error for NaN, negatives <= -1 and doubles >= 2^64 - never a saturated or NaN-derived number");
    }
    forget(r);
}

pub fn c13_int_uint_cross() {
    let bits: u64 = any();
    let r = with_ftx(|ftx| functions::int(ftx, This(Value::UInt(bits))));
    if bits <= i64::MAX as u64 {
        check!(matches!(r, Ok(Value::Int(t)) if t as i128 == bits as i128), "int(uint) keeps the number");
    } else {
        check!(is_err(&r), "int(uint > i64::MAX) is an error");
    }
    let i = bits as i64;
    let r2 = with_ftx(|ftx| functions::uint(ftx, This(Value::Int(i))));
    if i >= 0 {
        check!(matches!(r2, Ok(Value::UInt(t)) if t as i128 == i as i128), "uint(int) keeps the number");
    } else {
        check!(is_err(&r2), "uint(negative int) is an error");
    }
    cover!(bits > i64::MAX as u64, "uint above i64::MAX / negative int reachable");
    cover!(bits <= i64::MAX as u64, "in-range reachable");
    forget(r);
    forget(r2);
}

pub fn c13_identity() {
    let bits: u64 = any();
    let a = with_ftx(|ftx| functions::int(ftx, This(Value::Int(bits as i64))));
    check!(matches!(a, Ok(Value::Int(t)) if t == bits as i64), "int(int) is the identity");
    let b = with_ftx(|ftx| functions::uint(ftx, This(Value::UInt(bits))));
    check!(matches!(b, Ok(Value::UInt(t)) if t == bits), "uint(uint) is the identity");
    let c = with_ftx(|ftx| functions::double(ftx, This(Value::Float(f64::from_bits(bits)))));
    check!(matches!(c, Ok(Value::Float(t)) if t.to_bits() == bits), "double(double) is the identity (bit-exact, NaN included)");
    cover!(bits == u64::MAX, "all-ones payload reachable");
    forget(a);
    forget(b);
    forget(c);
}

/// f is the IEEE-754 round-to-nearest-even double of the integer x (|x| < 2^64)
fn is_nearest_double(x: i128, f: f64) -> bool {
    if !(f == f) || f >= TWO64 * 2.0 || f <= -TWO64 {
        return false;
    }
    // f is integer-valued whenever it is the image of an integer conversion; recover it exactly
    let fi: i128 = if f >= 0.0 {
        if f >= TWO64 { 1i128 << 64 } else { (f as u64) as i128 }
    } else {
        (f as i64) as i128
    };
    // fi must denote f exactly (f integer-valued)
    let back_exact = if fi >= 0 && fi <= u64::MAX as i128 {
        oracle::cmp_uint_float(fi as u64, f) == Some(Ordering::Equal)
    } else if fi < 0 {
        oracle::cmp_int_float(fi as i64, f) == Some(Ordering::Equal)
    } else {
        f == TWO64
    };
    if !back_exact {
        return false;
    }
    let mag: u128 = x.unsigned_abs();
    let d: u128 = (fi - x).unsigned_abs();
    if mag < (1u128 << 53) {
        return d == 0;
    }
    // 2^k <= mag < 2^(k+1), k >= 53: doubles are spaced 2^(k-52) apart there
    let k = 127 - mag.leading_zeros();
    let spacing: u128 = 1u128 << (k - 52);
    if d * 2 < spacing {
        return true;
    }
    if d * 2 > spacing {
        return false;
    }
    // tie: the chosen neighbour must have an even significand, i.e. be a multiple of 2*spacing
    (fi.unsigned_abs() % (spacing * 2)) == 0
}

pub fn c13_double_from_int() {
    let i: i64 = any();
    let r = with_ftx(|ftx| functions::double(ftx, This(Value::Int(i))));
    match &r {
        Ok(Value::Float(f)) => {
            check!(is_nearest_double(i as i128, *f), "double(int) is the nearest double (exact up to 2^53, ties to even)");
        }
        _ => check!(false, "double(int) always succeeds"),
    }
    cover!(i > (1 << 53) && (i & 1) == 1, "odd int above 2^53 reachable (inexact)");
    cover!(i == i64::MIN, "i64::MIN reachable");
    forget(r);
}
pub fn c13_double_from_uint() {
    let u: u64 = any();
    let r = with_ftx(|ftx| functions::double(ftx, This(Value::UInt(u))));
    match &r {
        Ok(Value::Float(f)) => {
            check!(is_nearest_double(u as i128, *f), "double(uint) is the nearest double (exact up to 2^53, ties to even)");
        }
        _ => check!(false, "double(uint) always succeeds"),
    }
    cover!(u == u64::MAX, "u64::MAX reachable (rounds to 2^64)");
    forget(r);
}

/// every other receiver kind is rejected with an error value
pub fn c13_wrong_kinds() {
    let b: bool = any();
    let r1 = with_ftx(|ftx| functions::int(ftx, This(Value::Bool(b))));
    let r2 = with_ftx(|ftx| functions::uint(ftx, This(Value::Null)));
    let r3 = with_ftx(|ftx| functions::double(ftx, This(Value::Bool(b))));
    check!(is_err(&r1), "int(bool) is an error");
    check!(is_err(&r2), "uint(null) is an error");
    check!(is_err(&r3), "double(bool) is an error");
    cover!(b, "true reachable");
    forget(r1);
    forget(r2);
    forget(r3);
}

crate::harnesses! {
    #[kani::unwind(2)] #[kani::stub(alloc::fmt::format, crate::stubs::format)] #[kani::stub(std::hash::RandomState::new, crate::stubs::random_state_new)] c13_int_from_double: "quick", "functions::int on Value::Float", "all f64 bit patterns (NaN, +-inf, subnormals, -0.0 included)";
    #[kani::unwind(2)] #[kani::stub(alloc::fmt::format, crate::stubs::format)] #[kani::stub(std::hash::RandomState::new, crate::stubs::random_state_new)] c13_uint_from_double: "quick", "functions::uint on Value::Float", "all f64 bit patterns";
    #[kani::unwind(2)] #[kani::stub(alloc::fmt::format, crate::stubs::format)] #[kani::stub(std::hash::RandomState::new, crate::stubs::random_state_new)] c13_int_uint_cross: "quick", "functions::int on Value::UInt, functions::uint on Value::Int", "all 64-bit patterns";
    #[kani::unwind(2)] #[kani::stub(alloc::fmt::format, crate::stubs::format)] #[kani::stub(std::hash::RandomState::new, crate::stubs::random_state_new)] c13_identity: "quick", "functions::int/uint/double on their own kind", "all 64-bit patterns";
    #[kani::unwind(2)] #[kani::stub(alloc::fmt::format, crate::stubs::format)] #[kani::stub(std::hash::RandomState::new, crate::stubs::random_state_new)] c13_double_from_int: "quick", "functions::double on Value::Int", "all i64; oracle: nearest-even via exact integer distance";
    #[kani::unwind(2)] #[kani::stub(alloc::fmt::format, crate::stubs::format)] #[kani::stub(std::hash::RandomState::new, crate::stubs::random_state_new)] c13_double_from_uint: "quick", "functions::double on Value::UInt", "all u64";
    #[kani::unwind(2)] #[kani::stub(alloc::fmt::format, crate::stubs::format)] #[kani::stub(std::hash::RandomState::new, crate::stubs::random_state_new)] c13_wrong_kinds: "quick", "functions::int/uint/double on Bool/Null", "all bool";
}
