#!/usr/bin/env python3
"""Re-runs the registered quick check of a seeded change against /repo's current HEAD with the change
applied, and records the outcome in /verif/seeded/<id>/meta.json under "recheck" (the first
evaluation, made by seed_eval.py when the change was delivered, stays under "check").
usage: seed_recheck.py <seed id> [...]      e.g. seed_recheck.py C08-m1 C08-m2"""
import json, os, subprocess, sys, time


def run(cmd, cwd=None, timeout=7200):
    p = subprocess.run(cmd, cwd=cwd, shell=True, capture_output=True, text=True, timeout=timeout)
    return p.returncode, p.stdout + p.stderr


for sid in sys.argv[1:]:
    d = "/verif/seeded/%s" % sid
    pid = sid.split("-")[0]
    mp = d + "/meta.json"
    meta = json.load(open(mp)) if os.path.exists(mp) else {"id": sid, "property": pid}
    rc, o = run("git -C /repo status --porcelain")
    if o.strip():
        print(sid, "SKIPPED: /repo is not clean")
        continue
    head = run("git -C /repo rev-parse --short HEAD")[1].strip()
    how = None
    for flags in ("", "-C1", "--3way"):
        rc, o = run("git -C /repo apply %s %s/patch.diff" % (flags, d))
        if rc == 0:
            how = flags or "plain"
            break
        run("git -C /repo checkout -- . ; git -C /repo reset -q")
    rec = {"head": head, "applied": how}
    if how is None:
        rec["note"] = "patch does not apply on this HEAD: " + o[-300:]
    else:
        t0 = time.time()
        rc, o = run("./check %s --tier quick" % pid, cwd="/verif")
        open(d + "/recheck_output.txt", "w").write(o)
        rec.update({"cmd": "./check %s --tier quick" % pid, "exit": rc, "wall_s": round(time.time() - t0),
                    "violation_lines": [l[:300] for l in o.splitlines() if l.startswith("VIOLATION")],
                    "inconclusive_lines": [l[:300] for l in o.splitlines() if l.startswith("INCONCLUSIVE")][:6],
                    "detected": rc == 1})
    run("git -C /repo checkout -- . ; git -C /repo reset -q; git -C /repo clean -fdq -e target")
    meta["recheck"] = rec
    json.dump(meta, open(mp, "w"), indent=1)
    print(sid, "head=%s applied=%s exit=%s detected=%s wall=%ss" % (head, how, rec.get("exit"), rec.get("detected"), rec.get("wall_s")), flush=True)
