#!/usr/bin/env python3
"""Evaluates seeded changes kept under /verif/seeded/<id>/ (patch.diff, demo.rs) against /repo's current HEAD.
For each id:
  1. in a scratch worktree of HEAD (/tmp/seedwt, created on demand, never /repo): the demo passes on the clean tree;
     with the patch applied the workspace compiles, the existing suite is green and the demo fails;
  2. with the patch applied to /repo: the registered quick check of the property is run and its outcome recorded;
     /repo is restored straight afterwards (git checkout + reset + clean).
Results go to /verif/seeded/<id>/meta.json under "head_eval" (earlier evaluations stay untouched).
usage: seed_run.py <id> [...]"""
import json, os, subprocess, sys, time, shutil

WT = "/tmp/seedwt"


def run(cmd, cwd=None, timeout=7200, env=None):
    p = subprocess.run(cmd, cwd=cwd, shell=True, capture_output=True, text=True, timeout=timeout, env=env)
    return p.returncode, p.stdout + p.stderr


def apply(tree, patch):
    for flags in ("", "-C1", "--3way"):
        rc, o = run("git -C %s apply %s %s" % (tree, flags, patch))
        if rc == 0:
            return flags or "plain", o
        run("git -C %s reset -q --hard HEAD" % tree)
    return None, o


def restore(tree):
    run("git -C %s reset -q --hard HEAD; git -C %s clean -fdq -e target -e _out" % (tree, tree))


head = run("git -C /repo rev-parse --short HEAD")[1].strip()
if not os.path.isdir(WT):
    run("git -C /repo worktree add --detach %s HEAD" % WT)
else:
    restore(WT)
    run("git -C %s checkout -q --detach %s" % (WT, head))
env = dict(os.environ, CARGO_TARGET_DIR=WT + "/target", CARGO_NET_OFFLINE="true")

phase = "both"
args = sys.argv[1:]
if args and args[0] in ("--confirm", "--check"):
    phase = args[0][2:]
    args = args[1:]
for sid in args:
    d = "/verif/seeded/%s" % sid
    pid = sid.split("-")[0]
    mp = d + "/meta.json"
    meta = json.load(open(mp)) if os.path.exists(mp) else {"id": sid, "property": pid}
    rc, o = run("git -C /repo status --porcelain")
    if o.strip() and phase != "confirm":
        print(sid, "SKIPPED: /repo is not clean")
        continue
    rec = {"head": head}
    if phase == "check":
        rec = meta.get("head_eval", {})
        if rec.get("head") != head or "confirmed" not in rec:
            print(sid, "SKIPPED: no confirmation on this HEAD")
            continue
    demo_src = open(d + "/demo.rs").read()
    if phase == "check":
        demo_src = None
    if phase != "check":
        feat = " --features json" if ("json" in demo_src) else ""
        restore(WT)
        os.makedirs(WT + "/interpreter/tests", exist_ok=True)
        shutil.copy(d + "/demo.rs", WT + "/interpreter/tests/seed_demo.rs")
        rc, o = run("cargo test --offline -p cel-interpreter%s --test seed_demo 2>&1 | tail -15" % feat, cwd=WT, env=env)
        rec["demo_passes_on_clean_head"] = ("test result: ok" in o and "FAILED" not in o)
        os.remove(WT + "/interpreter/tests/seed_demo.rs")
        how, o = apply(WT, d + "/patch.diff")
        rec["applies"] = how
        if how is None:
            rec["note"] = "patch does not apply on HEAD: " + o[-300:]
        else:
            rc, o = run("cargo test --workspace --no-fail-fast --offline 2>&1 | grep -E '^test result|FAILED|^error' ", cwd=WT, env=env)
            rec["suite_green_with_change"] = ("FAILED" not in o and "error" not in o and "test result: ok" in o)
            shutil.copy(d + "/demo.rs", WT + "/interpreter/tests/seed_demo.rs")
            rc, o = run("cargo test --offline -p cel-interpreter%s --test seed_demo 2>&1 | tail -25" % feat, cwd=WT, env=env)
            rec["demo_fails_with_change"] = ("FAILED" in o or "panicked" in o)
            rec["confirmed"] = bool(rec["demo_passes_on_clean_head"] and rec["suite_green_with_change"] and rec["demo_fails_with_change"])
    restore(WT)
    if rec.get("confirmed") and phase != "confirm":
        how, o = apply("/repo", d + "/patch.diff")
        if how is None:
            rec["check"] = {"applied": False}
        else:
            t0 = time.time()
            os.makedirs("/tmp/seed_evidence", exist_ok=True)
            rc, o = run("./check %s --tier quick" % pid, cwd="/verif", env=dict(os.environ, VERIF_EVIDENCE_DIR="/tmp/seed_evidence"))
            open(d + "/check_output_head.txt", "w").write(o)
            rec["check"] = {"applied": how, "cmd": "./check %s --tier quick" % pid, "exit": rc, "wall_s": round(time.time() - t0),
                            "violation_lines": [l[:300] for l in o.splitlines() if l.startswith("VIOLATION")],
                            "inconclusive_lines": [l[:300] for l in o.splitlines() if l.startswith("INCONCLUSIVE")][:6]}
            rec["detected"] = rc == 1
        restore("/repo")
    meta["head_eval"] = rec
    json.dump(meta, open(mp, "w"), indent=1)
    print(sid, "head=%s applies=%s confirmed=%s check_exit=%s detected=%s wall=%ss" % (
        head, rec.get("applies"), rec.get("confirmed"), rec.get("check", {}).get("exit"), rec.get("detected"), rec.get("check", {}).get("wall_s")), flush=True)
