#!/usr/bin/env python3
"""Regenerates MANIFEST.json from the table below (kept as code so that it stays consistent)."""
import json

MIRSYM = "symbolic execution of the rustc MIR of /repo's working tree by the own engine mirsym over z3 (all feasible paths, decision replay; counterexamples replayed natively through Program::compile/execute with logging host functions)"
KANI = "Kani proof harnesses (kani::any inputs, #[kani::unwind]) over the compiled real code; CBMC + CaDiCaL decide every assignment within the stated bounds"
CLAIMED = {
 "C02": ("5 C02", "Host-facing half only: for every operand pair the harnesses of C08/C09/C15/C16 reach, plus double arithmetic, the fall-through arms with heap-backed kinds, equality/ordering over all 100 kind pairs, string() of every chrono duration and the ten timestamp accessors at chrono's MIN/MAX instants, CBMC proves that no panic, overflow, bounds or unwrap failure is reachable and that the result is a value or an error value. Whole-program execution through Value::resolve is outside the claim.", KANI),
 "C06": ("10", "Node-level, by induction on the expression tree: Value::resolve is executed symbolically (its MIR, from the function entry) for one `&&`, `||`, `?:`, `!` or `@not_strictly_false` node whose operand evaluations are abstract events returning arbitrary results (error, bool, int, uint, null with symbolic payloads). Proved on every feasible path: `a && b` never evaluates b when a is falsy, `a || b` never evaluates b when a is truthy, `c ? x : y` evaluates exactly one branch, and the result is the specified one. A skipped operand's resolve is never called, so nothing inside it (errors, host calls) can happen at any depth, macro bodies included, because every nested node is again an Expr::Call handled by the same code. Trusted: the Python models of the std calls on that path; the parser producing these operator names (C04).", MIRSYM),
 "C07": ("10", "Dispatcher level: for every operator node (17 operators) and every function-call node f(..) / x.f(..) with 0-3 arguments, Value::resolve (MIR) evaluates each operand/receiver at most once, left to right, receiver before anything else, the first error aborts, and arguments of function calls are not evaluated by the dispatcher at all (they are handed, unevaluated and in order, to the function). Together with C20's extractor check (each extractor evaluates exactly the argument it consumes, once) this bounds the evaluations per node by its number of children. List/map literal, select and comprehension nodes are outside the claim.", MIRSYM),
 "C11": ("10", "Both halves at the level of the evaluator's own code: (1) macro scoping - Value::resolve is executed symbolically (MIR) for one comprehension node over lists of 0-3 elements with abstract sub-expressions: range and accumulator initialiser are evaluated in the outer scope, exactly one inner scope is opened, accumulator and iteration variable are only ever bound there, condition/step/result are evaluated in the inner scope in the prescribed order with early exit, the first error aborts, nothing is bound in the outer scope; nested macros reuse the same code, so inner bindings shadow and never leak by induction. (2) context operations - Context::get_variable / add_variable_from_value (MIR) over every chain of 1-3 scopes defining any subsets of three names: lookup returns the innermost binding or UndeclaredReference, (re)definition in the innermost scope leaves all enclosing scopes untouched. std HashMap is modelled as a finite map. The variable/function namespace separation is by construction (separate fields) and not checked; macro expansion (parser) is outside.", MIRSYM),
 "C08": ("5 C08", "+ - * on (Int,Int) and (UInt,UInt) are decided against an exact 128-bit oracle over the full 64-bit domain (int * int as three harnesses that partition i64 x i64); / and % are decided for outcome class over the full domain and for value against the machine's truncating division with one operand from a boundary list and the other fully symbolic, and with both symbolic at reduced magnitude together with the algebraic law; mixed int/uint/double operands are rejected for all payloads. Unary minus lives in Value::resolve and is outside the claim.", KANI),
 "C09": ("5 C09", "eq/ne/partial_cmp of Value over all nine numeric kind pairs and all 64-bit payloads against an exact real-number comparison oracle, the coherence laws (negation, symmetry, antisymmetry, trichotomy, <= and >= derivations), transitivity and congruence over all 27 numeric kind triples, and 'unrelated kinds are unequal and unordered' over all cross-family pairs of ten kinds. Strings by code point, list/map equality with symbolic contents, min/max and the evaluator's mapping of partial_cmp to operators are outside the claim.", KANI),
 "C13": ("5 C13", "int(), uint(), double() called directly on every f64 bit pattern / every 64-bit integer: exact truncation or an error exactly outside the target range (NaN included), double(int|uint) is the IEEE nearest-even double (exact integer-distance oracle), identities bit-exact. Literal parsing (ANTLR), string()/bytes() round trips are outside the claim.", KANI),
 "C14": ("5 C14", "Map half: for one-entry maps with int/uint/bool keys of any payload and queries of every kind, Map::get, functions::contains and the reference notion 'some stored key denotes the same CEL key (int/uint twins are one key)' agree. The map is the cfg(kani) association-list model (hook H1); counterexamples are replayed against the real std HashMap. Index/in/select/has (arms of Value::resolve), lists, size and concatenation laws are outside the claim.", KANI),
 "C15": ("5 C15", "string(duration) is proved canonical (reads back to exactly n, unique canonical Go spelling) for EVERY i64 nanosecond count by symbolic execution of the MIR of format_duration/format_float/format_int over z3 integers (all feasible paths, all overflow/bounds asserts discharged), and byte-equal to an independent port of Go's Duration.String for |n| < 1 ms by Kani; duration +,-,==,< are decided over chrono's whole range against exact (secs,nanos) oracles, overflow is an error, never a panic. duration() parsing (nom + f64 parsing) and the string round trip through it are outside the claim.", "MIR symbolic execution (own engine mirsym, z3 linear integer arithmetic) + " + KANI),
 "C16": ("5 C16", "The ten accessors against an integer proleptic-Gregorian oracle for every instant within 2^21 s (2^18 at the range ends) of eight boundary dates, every nanosecond, every offset -12:00..+14:00 in seconds; equality/ordering by instant for any two timestamps in years 0001-9999 at any two offsets; t+d-d==t, (t+d)-t==d and 'exactly d later' for sub-day and whole-day durations around leap days; at chrono's limits +/- is an error, not a panic. RFC 3339 text round trip is outside the claim.", KANI),
 "C20": ("10", "Binding mechanics: (1) call site - Value::resolve builds the FunctionContext with the called name, the receiver resolved exactly once (or None), the argument expressions unevaluated and in order, arg_idx 0, and returns what the function returns; an undeclared name is UndeclaredReference(name). (2) extractors - This<T> takes the receiver when present and otherwise consumes exactly the first argument (so x.f(a) and f(x, a) bind the same values in the same order), positional extractors consume arguments by index, evaluate each once against the parent context, and report a missing argument as InvalidArgumentCount / MissingArgumentOrTarget, never a panic; Expression/Identifier return the unevaluated argument; Arguments evaluates all in order. All on the MIR of magic.rs / resolvers.rs / objects.rs, every feasible path, FunctionContexts with 0-3 arguments. Handler adapters for arities 0-9 (generic closures), FromValue conversions per type and registry replacement are outside the claim.", MIRSYM),
 "C17": ("5 C17", "Scalar half: every integer width, f32/f64 (bit-exact), bool, Option nesting, unit, unit struct, newtype nesting and the Duration wrapper over chrono's whole range convert to the value of the same shape, and for JSON-representable scalars conversion commutes with serde_json. Sequences, maps, structs, enum variants, char/str payloads and the Timestamp wrapper are outside the claim.", KANI),
 "C18": ("5 C18", "Scalar half: Int/UInt/Bool/Null/Float (non-finite -> null)/Duration (both sides of 2^63 ns)/Function export as specified, errors instead of panics, and re-import equals the original for JSON-native scalars. Lists, maps, bytes, strings and timestamps are outside the claim.", KANI),
}
NA = {
 "C01": "deciding code is the antlr4rust runtime (ATN interpreter, lazy_static, Rc<RefCell>, std HashMap DFA caches) plus 6.7k lines of generated parser: not executable by Kani (measured, DESIGN.md section 2) and far outside a hand-written MIR encoder",
 "C03": "compositional evaluation is Value::resolve; a single `_+_` node over two literals does not finish in 900 s of symbolic execution (DESIGN.md section 2); the leaf semantics it composes are decided under C08/C09/C13/C14",
 "C04": "precedence/associativity is decided by the ANTLR grammar and prediction; visitor methods take parse-tree contexts that only a parser run can construct",
 "C05": "thread interleavings have no model in Kani; the sequential half reduces to in-place list/string append, which does not finish with one symbolic element (420 s), and re-execution goes through Value::resolve",
 "C10": "macro expansion needs the parser's MacroExprHelper and the fold loop is Value::resolve over Call nodes; not executable symbolically here",
 "C12": "lexer is ANTLR; the decoder parse.rs runs under Kani only on concrete text: one symbolic character (String::push of a symbolic char) or two symbolic hex digits do not finish in 240-500 s",
 "C19": "references() is built on std HashSet (not executable by Kani) and the undeclared-reference side is Value::resolve",
}
PENDING = []

import subprocess
HOOK_COMMITS = [l.split()[0] for l in subprocess.run(['git','-C','/repo','log','--format=%h %s'],capture_output=True,text=True).stdout.splitlines() if l.split(' ',1)[1].startswith('verif hook')]

def main():
    checks = []
    for pid, (ref, text, tech) in sorted(CLAIMED.items()):
        checks.append({
            "property_id": pid,
            "quick_cmd": "./check %s --tier quick" % pid,
            "thorough_cmd": "./check %s --tier thorough" % pid,
            "evidence_file": "evidence/%s.json" % pid,
            "replay_cmd_template": "./check --replay {path}",
            "engine": {"C15": "kani+mirsym", "C08": "kani+mirsym", "C09": "kani+mirsym", "C06": "mirsym", "C07": "mirsym", "C20": "mirsym"}.get(pid, "kani"),
            "level_claimed": {"category": "model_checking", "text": text, "design_ref": "DESIGN.md section " + ref},
            "level_note": ("Symbolic execution of the real MIR (rustc nightly, overflow checks on) with z3 deciding every branch feasibility and obligation; std calls on the executed paths are modelled in Python and listed in the evidence; counterexamples are replayed natively before a VIOLATION is printed. " if pid in ("C06", "C07", "C20") else "") + "Bounded model checking of the compiled real code with Kani 0.68/CBMC 6.11 (CaDiCaL): a pass means no assignment of the symbolic inputs within the stated bounds violates an assertion; unwinding assertions are on; trusted: Kani/CBMC, the harness oracles (validated against the repository's own test vectors at start-up), std HashMap (not executed symbolically); counterexamples are replayed natively (dev and release) before a VIOLATION is printed.",
            "technique": tech,
        })
    na = [{"property_id": k, "reason": v} for k, v in sorted(NA.items())]
    na += [{"property_id": k, "reason": "check under construction in this session (see DESIGN.md section 5); not claimed until its harnesses run clean"} for k in PENDING if k not in CLAIMED]
    m = {
        "version": 1,
        "setup_cmd": "./check --setup",
        "hooks": {
            "guard": "cfg(kani)",
            "enable": "cargo kani sets --cfg kani for every crate it builds; no hook is compiled in any other build",
            "baseline_off_cmd": "cd /repo && cargo test --workspace --no-fail-fast --offline",
            "source_commits": HOOK_COMMITS,
            "add_only": False,
        },
        "engines": [{"name": "kani", "path": "kani/", "serves_properties": sorted(CLAIMED),
                     "kind_free_text": "Kani 0.68 proof harnesses (crate /verif/kani, path dependencies on /repo) decided by CBMC 6.11 + CaDiCaL; native replay binary from the same harness bodies"},
                    {"name": "mirsym", "path": "mirsym/", "serves_properties": ["C06", "C07", "C08", "C09", "C15", "C20"],
                     "kind_free_text": "own symbolic executor for rustc MIR text (nightly -Zunpretty=mir of /repo's working tree, overflow checks on) over z3 integers; path enumeration by decision replay; used where bit-blasting 64-bit division chains does not finish"}],
        "checks": checks,
        "not_applicable": na,
        "notes": "hooks: one cfg(kani)-only module (interpreter/src/verif_map.rs) plus cfg attributes on four `use std::collections::HashMap` lines (one combined `use` line was split, hence add_only=false) and a check-cfg lint entry in interpreter/Cargo.toml; no normal build compiles any of it. exit 2 from a check means inconclusive (solver timeout, unwinding assertion, vacuous harness, non-reproducing counterexample); it is never reported as success or as a violation.",
    }
    json.dump(m, open("/verif/MANIFEST.json", "w"), indent=1)

if __name__ == "__main__":
    main()
