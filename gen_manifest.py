#!/usr/bin/env python3
"""Regenerates MANIFEST.json from the table below (kept as code so that it stays consistent)."""
import json

CLAIMED = {
 "C08": ("5 C08", "every (Int,Int) and (UInt,UInt) pair under + - * is decided against an exact 128-bit oracle over the full 64-bit domain; / and % are decided for outcome class over the full domain and for value against the machine's truncating division with one operand from a boundary list (other fully symbolic) and with both symbolic at reduced magnitude together with the algebraic law; mixed int/uint/double operands are rejected for all payloads. Unary minus lives in Value::resolve and is outside the claim.",
         "Kani proof harnesses over <Value as Add/Sub/Mul/Div/Rem>; CBMC+CaDiCaL decide all 2^128 operand pairs per harness"),
}
NA = {
}
PENDING = ["C02", "C09", "C13", "C14", "C15", "C16", "C17", "C18"]

def main():
    checks = []
    for pid, (ref, text, tech) in sorted(CLAIMED.items()):
        checks.append({
            "property_id": pid,
            "quick_cmd": "./check %s --tier quick" % pid,
            "thorough_cmd": "./check %s --tier thorough" % pid,
            "evidence_file": "evidence/%s.json" % pid,
            "replay_cmd_template": "./check --replay {path}",
            "engine": "kani",
            "level_claimed": {"category": "model_checking", "text": text, "design_ref": "DESIGN.md section " + ref},
            "level_note": "Bounded model checking of the compiled real code with Kani 0.68/CBMC 6.11 (CaDiCaL): a pass means no assignment of the symbolic inputs within the stated bounds violates an assertion; unwinding assertions are on; trusted: Kani/CBMC, the harness oracles (validated against the repository's own test vectors at start-up), std HashMap (not executed symbolically); counterexamples are replayed natively (dev and release) before a VIOLATION is printed.",
            "technique": tech,
        })
    na = [{"property_id": k, "reason": v} for k, v in sorted(NA.items())]
    na += [{"property_id": k, "reason": "check under construction in this session (see DESIGN.md section 5); not claimed until its harnesses run clean"} for k in PENDING if k not in CLAIMED]
    m = {
        "version": 1,
        "setup_cmd": "./check --setup",
        "hooks": {
            "guard": "cfg(kani)",
            "enable": "cargo kani sets --cfg kani for every crate it builds; no hook is compiled in any other build",
            "baseline_off_cmd": "cd /repo && cargo test --workspace --no-fail-fast --offline",
            "source_commits": [],
            "add_only": True,
        },
        "engines": [{"name": "kani", "path": "kani/", "serves_properties": sorted(CLAIMED),
                     "kind_free_text": "Kani 0.68 proof harnesses (crate /verif/kani, path dependencies on /repo) decided by CBMC 6.11 + CaDiCaL; native replay binary from the same harness bodies"}],
        "checks": checks,
        "not_applicable": na,
        "notes": "exit 2 from a check means inconclusive (solver timeout, unwinding assertion, vacuous harness, non-reproducing counterexample); it is never reported as success or as a violation.",
    }
    json.dump(m, open("/verif/MANIFEST.json", "w"), indent=1)

if __name__ == "__main__":
    main()
