#!/usr/bin/env python3
"""Evaluates seeded changes in isolation: neither /repo nor /verif is touched.

For each id under /verif/seeded/<id>/ (patch.diff, demo.rs):
  1. confirmation in a scratch copy of /repo's HEAD (/tmp/ns/<slot>/confirm): the demo passes on the clean tree; with the
     patch applied the workspace compiles, the existing suite is green and the demo fails;
  2. the registered quick check is run inside a private mount namespace (`unshare -m`) in which a copy of /repo's HEAD
     with the patch applied is bind-mounted over /repo and a copy of /verif's working tree (own .cache) over /verif - the
     check therefore runs exactly as registered (`cd /verif && ./check <ID> --tier quick`) while the real /repo and
     /verif stay as they are, so several evaluations and ordinary development can go on at the same time.
Results go to /verif/seeded/<id>/meta.json under "head_eval" (the earlier evaluations stay untouched) and the check's
output to check_output_head.txt.
usage: seed_ns.py [--slot N] [--slots K] [--skip-confirm] [--verif-ref worktree|<git ref>] <id> [...]
  --slot N    scratch area /tmp/ns/N (default 0); run several instances with different slots in parallel
  --slots K   VERIF_SLOTS for the check (parallel Kani harnesses), default 12
"""
import argparse, json, os, shutil, subprocess, sys, time

ap = argparse.ArgumentParser()
ap.add_argument("--slot", default="0")
ap.add_argument("--slots", default="12")
ap.add_argument("--skip-confirm", action="store_true")
ap.add_argument("--tier", default="quick")
ap.add_argument("--key", default="head_eval")
ap.add_argument("--check-as", default=None, help="comma separated property ids whose quick checks are run instead of the seed's own property (for seeds of unclaimed properties)")
ap.add_argument("ids", nargs="+")
a = ap.parse_args()
NS = "/tmp/ns/%s" % a.slot
os.makedirs(NS, exist_ok=True)


def run(cmd, cwd=None, timeout=7200, env=None):
    p = subprocess.run(cmd, cwd=cwd, shell=True, capture_output=True, text=True, timeout=timeout, env=env)
    return p.returncode, p.stdout + p.stderr


def fresh_repo(dst):
    """copy of /repo at HEAD (tracked files only, via git archive semantics) with its own .git so `git apply` works"""
    os.makedirs(dst, exist_ok=True)
    run("rsync -a --delete --exclude /target --exclude /_out /repo/ %s/" % dst)
    run("git -C %s reset -q --hard HEAD; git -C %s clean -fdq -e target" % (dst, dst))


def apply(tree, patch):
    o = ""
    for flags in ("", "-C1", "--3way"):
        rc, o = run("git -C %s apply %s %s" % (tree, flags, patch))
        if rc == 0:
            return flags or "plain", o
        run("git -C %s reset -q --hard HEAD" % tree)
    return None, o


head = run("git -C /repo rev-parse --short HEAD")[1].strip()
for sid in a.ids:
    d = "/verif/seeded/%s" % sid
    pid = sid.split("-")[0]
    mp = d + "/meta.json"
    meta = json.load(open(mp)) if os.path.exists(mp) else {"id": sid, "property": pid}
    rec = {"head": head}
    if a.skip_confirm:
        rec = dict(meta.get(a.key) or meta.get("head_eval") or {})
        rec["head"] = head
        rec.setdefault("confirmed", bool(meta.get("confirmed")))
    else:
        wt = NS + "/confirm"
        fresh_repo(wt)
        env = dict(os.environ, CARGO_TARGET_DIR=wt + "/target", CARGO_NET_OFFLINE="true")
        demo_src = open(d + "/demo.rs").read()
        feat = " --features json" if ("json" in demo_src) else ""
        os.makedirs(wt + "/interpreter/tests", exist_ok=True)
        shutil.copy(d + "/demo.rs", wt + "/interpreter/tests/seed_demo.rs")
        rc, o = run("cargo test --offline -p cel-interpreter%s --test seed_demo 2>&1 | tail -15" % feat, cwd=wt, env=env)
        rec["demo_passes_on_clean_head"] = ("test result: ok" in o and "FAILED" not in o)
        if not rec["demo_passes_on_clean_head"]:
            rec["clean_tail"] = o[-600:]
        os.remove(wt + "/interpreter/tests/seed_demo.rs")
        how, o = apply(wt, d + "/patch.diff")
        rec["applies"] = how
        if how is None:
            rec["note"] = "patch does not apply on HEAD: " + o[-300:]
        else:
            rc, o = run("cargo test --workspace --no-fail-fast --offline 2>&1 | grep -E '^test result|FAILED|^error' ", cwd=wt, env=env)
            rec["suite_green_with_change"] = ("FAILED" not in o and "error" not in o and "test result: ok" in o)
            shutil.copy(d + "/demo.rs", wt + "/interpreter/tests/seed_demo.rs")
            rc, o = run("cargo test --offline -p cel-interpreter%s --test seed_demo 2>&1 | tail -25" % feat, cwd=wt, env=env)
            rec["demo_fails_with_change"] = ("FAILED" in o or "panicked" in o)
            rec["confirmed"] = bool(rec["demo_passes_on_clean_head"] and rec["suite_green_with_change"] and rec["demo_fails_with_change"])
    if rec.get("confirmed"):
        nrepo, nverif = NS + "/repo", NS + "/verif"
        fresh_repo(nrepo)
        how, o = apply(nrepo, d + "/patch.diff")
        if how is None:
            rec["check"] = {"applied": False}
        else:
            os.makedirs(nverif, exist_ok=True)
            run("rsync -a --delete --exclude /.git --exclude /.cache --exclude /seeded /verif/ %s/" % nverif)
            if not os.path.isdir(nverif + "/.cache") and os.path.isdir("/verif/.cache"):
                run("cp -a /verif/.cache %s/.cache" % nverif)
            t0 = time.time()
            rc, o = 0, ""
            pids = a.check_as.split(",") if a.check_as else [pid]
            for cp in pids:
                inner = "mount --bind %s /repo && mount --bind %s /verif && cd /verif && VERIF_SLOTS=%s ./check %s --tier %s" % (nrepo, nverif, a.slots, cp, a.tier)
                rc1, o1 = run("unshare -m sh -c '%s'" % inner)
                o += o1
                rc = 1 if 1 in (rc, rc1) else max(rc, rc1, key=abs)
            open(d + "/check_output_head.txt", "w").write(o)
            rec["check"] = {"applied": how, "cmd": "; ".join("./check %s --tier %s" % (cp, a.tier) for cp in pids), "exit": rc, "wall_s": round(time.time() - t0),
                            "verif_commit": run("git -C /verif rev-parse --short HEAD")[1].strip(),
                            "violation_lines": [l[:300] for l in o.splitlines() if l.startswith("VIOLATION")],
                            "inconclusive_lines": [l[:300] for l in o.splitlines() if l.startswith("INCONCLUSIVE")][:6]}
            rec["detected"] = rc == 1
    meta[a.key] = rec
    json.dump(meta, open(mp, "w"), indent=1)
    print(sid, "head=%s applies=%s confirmed=%s check_exit=%s detected=%s wall=%ss" % (
        head, rec.get("applies"), rec.get("confirmed"), rec.get("check", {}).get("exit"), rec.get("detected"), rec.get("check", {}).get("wall_s")), flush=True)
