#!/usr/bin/env python3
"""Confirms a sub-agent's seeded change in its scratch worktree, then runs the registered quick
check against /repo with the change applied, and records everything under /verif/seeded/<id>/.
usage: seed_eval.py <PID> <k> [extra cargo features]"""
import json, os, subprocess, sys, shutil, time
pid, k = sys.argv[1], sys.argv[2]
feat = sys.argv[3:] 
wt = "/tmp/wt_%s" % pid
out = "%s/_out" % wt
sid = "%s-m%s" % (pid, k)
dst = "/verif/seeded/%s" % sid
os.makedirs(dst, exist_ok=True)
env = dict(os.environ, CARGO_TARGET_DIR=wt + "/target", CARGO_NET_OFFLINE="true")
def run(cmd, cwd=None, env=env, timeout=3600):
    p = subprocess.run(cmd, cwd=cwd, env=env, shell=True, capture_output=True, text=True, timeout=timeout)
    return p.returncode, (p.stdout + p.stderr)
meta = {"id": sid, "property": pid, "ran": []}
patch = "%s/m%s.diff" % (out, k)
demo = "%s/m%s_demo.rs" % (out, k)
shutil.copy(patch, dst + "/patch.diff")
shutil.copy(demo, dst + "/demo.rs")
notes = open("%s/m%s.md" % (out, k)).read() if os.path.exists("%s/m%s.md" % (out, k)) else ""
meta["needs_to_manifest"] = notes
run("git checkout -- . && rm -rf interpreter/tests", cwd=wt)
f = (" --features " + ",".join(feat)) if feat else ""
# 1. clean tree: demo passes
os.makedirs(wt + "/interpreter/tests", exist_ok=True)
shutil.copy(demo, wt + "/interpreter/tests/m%s_demo.rs" % k)
rc_clean, o = run("cargo test --offline -p cel-interpreter%s --test m%s_demo 2>&1 | tail -15" % (f, k), cwd=wt)
clean_ok = "test result: ok" in o and "FAILED" not in o
meta["ran"].append({"cmd": "demo on clean tree", "passes": clean_ok, "tail": o[-600:]})
# 2. mutated: compiles, suite green, demo fails
rc, o = run("git apply %s" % patch, cwd=wt)
meta["ran"].append({"cmd": "git apply", "rc": rc, "out": o[-300:]})
os.rename(wt + "/interpreter/tests", wt + "/interpreter/tests_off")
rc_suite, o = run("cargo test --workspace --no-fail-fast --offline 2>&1 | grep -E '^test result|FAILED|^error' ", cwd=wt)
suite_ok = "FAILED" not in o and "error" not in o and "test result: ok" in o
meta["ran"].append({"cmd": "existing suite with the change", "green": suite_ok, "out": o[-600:]})
os.rename(wt + "/interpreter/tests_off", wt + "/interpreter/tests")
rc_m, o = run("cargo test --offline -p cel-interpreter%s --test m%s_demo 2>&1 | tail -25" % (f, k), cwd=wt)
mut_fails = "FAILED" in o or "panicked" in o
meta["ran"].append({"cmd": "demo with the change", "fails": mut_fails, "tail": o[-800:]})
run("git checkout -- . && rm -rf interpreter/tests", cwd=wt)
meta["confirmed"] = bool(clean_ok and suite_ok and mut_fails and rc == 0)
# 3. the registered quick check against /repo with the change applied
if meta["confirmed"]:
    for flags in ("", "-C1", "--3way"):
        rc, o = run("git -C /repo apply %s %s" % (flags, patch), env=os.environ)
        if rc == 0:
            break
        run("git -C /repo checkout -- . ; git -C /repo reset -q", env=os.environ)
    if rc != 0:
        meta["check"] = {"applied": False, "out": o[-300:]}
    else:
        t0 = time.time()
        rc, o = run("./check %s --tier quick" % pid, cwd="/verif", env=os.environ, timeout=7200)
        open(dst + "/check_output.txt", "w").write(o)
        meta["check"] = {"applied": True, "cmd": "./check %s --tier quick" % pid, "exit": rc, "wall_s": round(time.time() - t0),
                         "violation_lines": [l[:300] for l in o.splitlines() if l.startswith("VIOLATION")],
                         "inconclusive_lines": [l[:300] for l in o.splitlines() if l.startswith("INCONCLUSIVE")]}
        meta["detected"] = rc == 1
    run("git -C /repo checkout -- . ; git -C /repo reset -q", env=os.environ)
json.dump(meta, open(dst + "/meta.json", "w"), indent=1)
print(sid, "confirmed=%s" % meta["confirmed"], "detected=%s" % meta.get("detected"), "exit=%s" % meta.get("check", {}).get("exit"))
