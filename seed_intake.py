#!/usr/bin/env python3
"""Copies a sub-agent's delivery (/tmp/wt2_<PID>/_out/m<k>.diff, m<k>_demo.rs, m<k>.md) into /verif/seeded/<PID>-m<k>/.
usage: seed_intake.py <PID> <k> [...k]"""
import os, shutil, sys, json
pid = sys.argv[1]
for k in sys.argv[2:]:
    out = "/tmp/wt%s_%s/_out" % (("3" if any(int(x) >= 6 for x in sys.argv[2:]) else "2"), pid)
    dst = "/verif/seeded/%s-m%s" % (pid, k)
    os.makedirs(dst, exist_ok=True)
    shutil.copy("%s/m%s.diff" % (out, k), dst + "/patch.diff")
    shutil.copy("%s/m%s_demo.rs" % (out, k), dst + "/demo.rs")
    notes = open("%s/m%s.md" % (out, k)).read() if os.path.exists("%s/m%s.md" % (out, k)) else ""
    open(dst + "/notes.md", "w").write(notes)
    mp = dst + "/meta.json"
    if not os.path.exists(mp):
        json.dump({"id": "%s-m%s" % (pid, k), "property": pid, "round": 2, "needs_to_manifest": notes}, open(mp, "w"), indent=1)
    print("stored", dst)
