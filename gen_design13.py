#!/usr/bin/env python3
"""Rewrites section 13 of DESIGN.md (the seeded-change matrix) from /verif/seeded/*/meta.json."""
import subprocess, re
tbl = subprocess.run(["python3", "/verif/gen_seed_table.py"], capture_output=True, text=True).stdout
intro = '''## 13. Seeded changes: which check reports which

Every change below was written by a sub-agent that saw only the property text, was confirmed independently (demo passes on the
unchanged tree; with the change applied the workspace builds, the 67 tests pass, the demo fails) and is kept under
`/verif/seeded/<id>/` (patch.diff, demo.rs, notes.md, meta.json, the check's output). `-m1..-m3` are the first round, `-m4 / -m5`
the second, `-m6` the third (section 14). The outcome column is the registered quick check of the change's property, run with the
change applied to a copy of /repo (`seed_ns.py`); "reported by" names the replay file of the VIOLATION line. Seeds of the
unclaimed properties C03 / C05 were run against the checks of the properties their change touches. "obsolete" means the patch no
longer applies because a later repair rewrote the code it changes (the duration parser, string indexing, getDayOfYear).

'''
s = open("/verif/DESIGN.md").read()
body = intro + tbl + "\n"
if "## 13. Seeded changes" in s:
    s = re.sub(r"## 13\. Seeded changes.*?(?=\n## 14\. )", lambda _m: body.rstrip("\n") + "\n", s, flags=re.S)
else:
    s = s.replace("\n## 14. Second round", "\n" + body + "## 14. Second round", 1)
open("/verif/DESIGN.md", "w").write(s)
print("section 13 written (%d table lines)" % tbl.count("\n"))
