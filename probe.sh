#!/bin/bash
# usage: probe.sh <timeout_s> <harness>...   runs each harness in its own target dir in parallel, prints verdict+time
t=$1; shift
cd /verif/kani
for h in "$@"; do
  mod=${h%%_*}
  ( extra=""; grep -q "kani::stub" src/$mod.rs && extra="-Z stubbing"
    d=/verif/.cache/target/p_$h; mkdir -p $d; [ -d $d/kani ] || cp -a /verif/.cache/target/s0/. $d/
    /usr/bin/time -f "%e s %M KB" timeout $t cargo kani --target-dir $d --harness ${mod}::proofs::$h --exact $extra > /tmp/p_$h.log 2>&1
    echo "$h: $(grep -E '^VERIFICATION|^Verification Time' /tmp/p_$h.log | tr '\n' ' ') $(grep -c 'Status: FAILURE' /tmp/p_$h.log) failures; $(grep -E 'cover properties' /tmp/p_$h.log); $(tail -1 /tmp/p_$h.log)"
  ) &
done
wait
