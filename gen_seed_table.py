#!/usr/bin/env python3
"""Prints the seeded-change matrix (markdown) from /verif/seeded/*/meta.json; DESIGN.md section 13 is its output."""
import glob, json, os, re

rows = []
for d in sorted(glob.glob("/verif/seeded/*/")):
    sid = os.path.basename(d.rstrip("/"))
    mp = d + "meta.json"
    if not os.path.exists(mp):
        rows.append((sid, "?", "not evaluated", "", ""))
        continue
    m = json.load(open(mp))
    notes = (m.get("needs_to_manifest") or (open(d + "notes.md").read() if os.path.exists(d + "notes.md") else "")).strip().splitlines()
    title = re.sub(r"^[#\s]*(?:C\d+\s*/\s*)?[mM](?:utation)?\s*\d\s*[-:]\s*", "", notes[0]) if notes else ""
    title = title.replace("|", "/")[:150]
    h = m.get("head_eval", {})
    if h.get("applies") is None and "applies" in h:
        rows.append((sid, h.get("head", ""), "obsolete: no longer applies on HEAD", title, ""))
        continue
    if not h.get("confirmed"):
        why = "demo does not fail / suite not green on HEAD" if h else "not evaluated on HEAD"
        rows.append((sid, h.get("head", ""), "not a valid change on HEAD (%s)" % why, title, ""))
        continue
    c = h.get("check", {})
    when = h["head"]
    if "exit" not in c and m.get("recheck", {}).get("exit") is not None:
        c, when = m["recheck"], m["recheck"].get("head", "") + " (earlier evaluation)"
    if "exit" not in c and m.get("check", {}).get("exit") is not None:
        c, when = m["check"], "at delivery (earlier tree)"
    if "exit" not in c:
        rows.append((sid, h["head"], "confirmed, check not run", title, ""))
        continue
    if c["exit"] == 1:
        outcome = "DETECTED"
        by = "; ".join(sorted({re.sub(r".*/", "", l.split("replay=")[-1]).replace(".json", "") for l in c["violation_lines"]}))
    elif c["exit"] == 0:
        outcome, by = "missed (exit 0)", ""
    else:
        outcome = "inconclusive (exit %s)" % c["exit"]
        by = "; ".join(re.sub(r"INCONCLUSIVE property=\S+ harness=", "", l)[:70] for l in c.get("inconclusive_lines", [])[:2])
    r2 = m.get("recheck2", {}).get("check")
    if r2 and "exit" in r2:
        o2 = "DETECTED" if r2["exit"] == 1 else ("missed (exit 0)" if r2["exit"] == 0 else "inconclusive (exit %s)" % r2["exit"])
        by2 = "; ".join(sorted({re.sub(r".*/", "", l.split("replay=")[-1]).replace(".json", "") for l in r2.get("violation_lines", [])}))
        outcome = "first evaluation: %s; after the follow-up of section 14: %s" % (outcome, o2)
        by = (by + "; " if by else "") + by2
    rows.append((sid, when, "%s, %ss" % (outcome, c.get("wall_s")), title, by))

print("| change | evaluated on | outcome of the registered quick check(s) | what it changes | reported by / reason |")
print("|---|---|---|---|---|")
for r in rows:
    print("| %s | %s | %s | %s | %s |" % r)
tot = [r for r in rows if "DETECTED" in r[2] or "missed" in r[2] or "inconclusive" in r[2]]
print()
final = lambda r: r[2].split("after the follow-up of section 14:")[-1]
print("evaluated: %d; reported (exit 1) in the latest evaluation: %d; missed (exit 0): %d; inconclusive (exit 2 or timeout): %d; obsolete / not evaluated: %d" % (
    len(tot), sum("DETECTED" in final(r) for r in tot), sum("missed" in final(r) for r in tot), sum("inconclusive" in final(r) for r in tot), len(rows) - len(tot)))
